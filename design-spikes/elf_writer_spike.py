import struct, sys
def mkelf(path, base=0x200000, text_off=0x1000, text_size=0x400, syms=(), build_id=None, text2=None):
    # sections: 0 null, 1 .text, [2 .text2], n .note.gnu.build-id?, .symtab, .strtab, .shstrtab
    shstr=b'\0'; names={}
    def nm(s):
        nonlocal shstr
        names[s]=len(shstr); shstr+=s.encode()+b'\0'; return names[s]
    secs=[]  # (name, type, flags, addr, off, size, link, info, align, entsize, data)
    text_addr=base+text_off
    secs.append(('.text',1,6,text_addr,text_off,text_size,0,0,16,0,b'\x90'*text_size))
    cur=text_off+text_size
    if text2:
        off2,addr2,size2=text2
        secs.append(('.text2',1,6,addr2,off2,size2,0,0,16,0,b'\x90'*size2)); cur=max(cur,off2+size2)
    note=b''
    if build_id:
        note=struct.pack('<III',4,len(build_id),3)+b'GNU\0'+build_id
        note+=b'\0'*((4-len(note)%4)%4)
        secs.append(('.note.gnu.build-id',7,2,base+cur,cur,len(note),0,0,4,0,note)); cur+=len(note)
    strtab=b'\0'; symtab=struct.pack('<IBBHQQ',0,0,0,0,0,0)
    for (name,value,size,typ,shndx) in syms:
        off=len(strtab); strtab+=name.encode()+b'\0'
        symtab+=struct.pack('<IBBHQQ',off,(1<<4)|typ,0,shndx,value,size)
    cur=(cur+7)&~7
    symtab_idx=len(secs)+1
    secs.append(('.symtab',2,0,0,cur,len(symtab),symtab_idx+1,1,8,24,symtab)); cur+=len(symtab)
    secs.append(('.strtab',3,0,0,cur,len(strtab),0,0,1,0,strtab)); cur+=len(strtab)
    for s in secs: nm(s[0])
    nm('.shstrtab')
    secs.append(('.shstrtab',3,0,0,cur,len(shstr),0,0,1,0,shstr)); cur+=len(shstr)
    shoff=(cur+7)&~7
    nph=1 + (1 if text2 else 0)
    ehdr=b'\x7fELF'+bytes([2,1,1,0])+b'\0'*8+struct.pack('<HHIQQQIHHHHHH',3,62,1,text_addr,64,shoff,0,64,56,nph,64,len(secs)+1,len(secs))
    ph=struct.pack('<IIQQQQQQ',1,5,0,base,base,text_off+text_size,text_off+text_size,0x1000)
    if text2:
        off2,addr2,size2=text2
        ph+=struct.pack('<IIQQQQQQ',1,5,off2,addr2,addr2,size2,size2,0x1000)
    out=bytearray(shoff+64*(len(secs)+1))
    out[0:64]=ehdr; out[64:64+len(ph)]=ph
    for s in secs:
        out[s[4]:s[4]+len(s[10])]=s[10]
    sh=b'\0'*64
    for s in secs:
        sh+=struct.pack('<IIQQQQIIQQ',names[s[0]],s[1],s[2],s[3],s[4],s[5],s[6],s[7],s[8],s[9])
    out[shoff:shoff+len(sh)]=sh
    open(path,'wb').write(out)
if __name__=='__main__':
    base=0x200000
    T=base+0x1000
    mkelf(sys.argv[1], syms=[('alpha',T+0x10,0x20,2,1),('beta',T+0x40,0,2,1),('_ZN3foo3barEv',T+0x80,0x10,2,1),('gamma_notype',T+0x100,8,0,1),('data_obj',T+0x120,8,1,1)], build_id=bytes(range(20)))
