/-! Converter spike: executable concrete model of samply's perf.data converter
    (reuse off, no context switches), transcribed from linux_shared/{converter,processes,
    process_threads,thread}.rs and the Profile entry API. Evaluated on the history used
    in perfdata_writer_spike.py to compare with `samply import`. -/
namespace Conv

/-! ## profile entry tables -/
structure PEntry where
  pid : Nat
  suffix : Nat            -- 0 = plain "pid", k = "pid.k"
  name : String
  start : Nat
  end_ : Option Nat := none
deriving Repr

structure TEntry where
  proc : Nat              -- index into pents
  tid : Nat
  suffix : Nat
  name : Option String := none
  start : Nat
  end_ : Option Nat := none
  isMain : Bool
deriving Repr

/-! ## mapping ops (case 4 only: file absent) -/
structure MapAdd where
  start : Nat
  end_ : Nat
  rel : Nat
  lib : String
deriving Repr

/-! ## converter state -/
structure USample where
  th : Nat
  t : Nat
  tmono : Nat
  kernelMode : Bool       -- cpu_mode of the sample
  chain : List Nat
deriving Repr

structure ThreadC where
  h : Nat
  lastTs : Option Nat := none
  name : Option String := none
deriving Repr

structure ProcC where
  pid : Nat
  h : Nat
  name : Option String
  main : ThreadC
  threads : List (Nat × ThreadC) := []
  samples : List USample := []
  mapq : List (Nat × MapAdd) := []
deriving Repr

structure St where
  procs : List (Nat × ProcC) := []
  pents : Array PEntry := #[]
  tents : Array TEntry := #[]
  usedPids : List (Nat × Nat) := []
  usedTids : List (Nat × Nat) := []
  parked : List (List USample × List (Nat × MapAdd)) := []
  cur : Nat
  ref : Nat
deriving Repr

inductive Rec
  | sample (pid tid t : Nat) (kernelMode : Bool) (chain : List Nat)
  | fork (pid tid ppid ptid t : Nat)
  | exit (pid tid t : Nat)
  | comm (pid tid : Nat) (name : String) (isExec : Bool) (t : Nat)
  | mmap2 (pid tid start len pgoff : Nat) (path : String) (exec : Bool) (t : Nat)
deriving Repr

def conv (s : St) (t : Nat) : Nat := t - s.ref

/-- make_unique_pid_or_tid -/
def uniq (m : List (Nat × Nat)) (id : Nat) : List (Nat × Nat) × Nat :=
  match m.lookup id with
  | some k => ((id, k + 1) :: m.filter (·.1 != id), k)
  | none => ((id, 1) :: m, 0)

def addProcess (s : St) (name : String) (pid start : Nat) : St × Nat :=
  let (m, suf) := uniq s.usedPids pid
  ({ s with usedPids := m, pents := s.pents.push { pid, suffix := suf, name, start } }, s.pents.size)

def addThread (s : St) (ph tid start : Nat) (isMain : Bool) : St × Nat :=
  let (m, suf) := uniq s.usedTids tid
  ({ s with usedTids := m, tents := s.tents.push { proc := ph, tid, suffix := suf, start, isMain } }, s.tents.size)

def setT (s : St) (h : Nat) (f : TEntry → TEntry) : St := { s with tents := s.tents.modify h f }
def setP (s : St) (h : Nat) (f : PEntry → PEntry) : St := { s with pents := s.pents.modify h f }

def getProc? (s : St) (pid : Nat) : Option ProcC := s.procs.lookup pid
def putProc (s : St) (p : ProcC) : St := { s with procs := (p.pid, p) :: s.procs.filter (·.1 != p.pid) }
def delProc (s : St) (pid : Nat) : St := { s with procs := s.procs.filter (·.1 != pid) }

/-- Processes::get_by_pid -/
def getByPid (s : St) (pid : Nat) : St × ProcC :=
  match getProc? s pid with
  | some p => (s, p)
  | none =>
    let (s, ph) := addProcess s s!"<{pid}>" pid 0
    let (s, th) := addThread s ph pid 0 true
    let p : ProcC := { pid, h := ph, name := none, main := { h := th } }
    (putProc s p, p)

/-- Processes::recycle_or_get_new (reuse off) -/
def getNewProc (s : St) (pid : Nat) (name : Option String) (start : Nat) : St × ProcC :=
  match getProc? s pid with
  | none =>
    let (s, ph) := addProcess s (name.getD s!"<{pid}>") pid start
    let (s, th) := addThread s ph pid start true
    let s := match name with | some n => setT s th (fun e => { e with name := some n }) | none => s
    let p : ProcC := { pid, h := ph, name, main := { h := th, name } }
    (putProc s p, p)
  | some p =>
    let s := if p.main.lastTs.isNone then
        setT (setP s p.h (fun e => { e with start })) p.main.h (fun e => { e with start })
      else s
    (s, p)

/-- ProcessThreads::get_thread_by_tid ; returns updated process too -/
def getThread (s : St) (p : ProcC) (tid : Nat) : St × ProcC × ThreadC :=
  if tid = p.pid then (s, p, p.main) else
  match p.threads.lookup tid with
  | some t => (s, p, t)
  | none =>
    let (s, th) := addThread s p.h tid 0 false
    let t : ThreadC := { h := th }
    let p := { p with threads := (tid, t) :: p.threads }
    (putProc s p, p, t)

def putThread (p : ProcC) (tid : Nat) (t : ThreadC) : ProcC :=
  if tid = p.pid then { p with main := t }
  else { p with threads := (tid, t) :: p.threads.filter (·.1 != tid) }

/-- ProcessThreads::recycle_or_get_new_thread (reuse off) -/
def getNewThread (s : St) (p : ProcC) (tid : Nat) (name : Option String) (start : Nat) : St × ProcC :=
  if tid = p.pid then (s, p) else
  match p.threads.lookup tid with
  | none =>
    let (s, th) := addThread s p.h tid start false
    let s := match name with | some n => setT s th (fun e => { e with name := some n }) | none => s
    let p := { p with threads := (tid, { h := th, name }) :: p.threads }
    (putProc s p, p)
  | some t =>
    let s := if t.lastTs.isNone then setT s t.h (fun e => { e with start }) else s
    (s, p)

/-- ProcessThreads::remove_non_main_thread -/
def removeThread (s : St) (p : ProcC) (tid time : Nat) : St × ProcC :=
  match p.threads.lookup tid with
  | none => (s, p)
  | some t =>
    let s := setT s t.h (fun e => { e with end_ := some time })
    let p := { p with threads := p.threads.filter (·.1 != tid) }
    (putProc s p, p)

/-- Processes::remove -/
def removeProc (s : St) (pid time : Nat) : St :=
  match getProc? s pid with
  | none => s
  | some p =>
    let s := p.threads.foldl (fun s (_, t) => setT s t.h (fun e => { e with end_ := some time })) s
    let s := setT s p.main.h (fun e => { e with end_ := some time })
    let s := setP s p.h (fun e => { e with end_ := some time })
    let s := if p.samples.isEmpty then s else { s with parked := s.parked ++ [(p.samples, p.mapq)] }
    delProc s pid

def step (s : St) : Rec → St
  | .sample pid tid t km chain =>
    if tid = 0 then s else
    let s := { s with cur := t }
    let (s, p) := getByPid s pid
    let (s, p, th) := getThread s p tid
    if th.lastTs = some t then s else
    let th := { th with lastTs := some t }
    let p := putThread p tid th
    let p := { p with samples := p.samples ++ [{ th := th.h, t := conv s t, tmono := t, kernelMode := km, chain }] }
    putProc s p
  | .fork pid tid ppid ptid t =>
    let start := conv s t
    let (s, parent) := getByPid s ppid
    if pid ≠ ppid then
      let (s, child) := getNewProc s pid parent.name start
      putProc s { child with mapq := parent.mapq }
    else
      let (s, parent, pt) := getThread s parent ptid
      (getNewThread s parent tid pt.name start).1
  | .exit pid tid t =>
    let time := conv s t
    if pid = tid then removeProc s pid time
    else
      let (s, p) := getByPid s pid
      (removeThread s p tid time).1
  | .comm pid tid name isExec t =>
    let tm := if t = 0 then s.cur else t
    let time := conv s tm
    if isExec then
      if pid = tid then
        let s := removeProc s pid time
        (getNewProc s pid (some name) time).1
      else
        let (s, p) := getByPid s pid
        let (s, p) := removeThread s p tid time
        (getNewThread s p tid (some name) time).1
    else if pid = tid then
      match getProc? s pid with
      | none => (getNewProc s pid (some name) time).1
      | some p =>
        if p.name = some name then s else
        let s := setP s p.h (fun e => { e with name })
        let s := setT s p.main.h (fun e => { e with name := some name })
        putProc s { p with name := some name, main := { p.main with name := some name } }
    else
      let (s, p) := getByPid s pid
      match p.threads.lookup tid with
      | none => (getNewThread s p tid (some name) time).1
      | some th =>
        if th.name = some name then s else
        let s := setT s th.h (fun e => { e with name := some name })
        putProc s (putThread p tid { th with name := some name })
  | .mmap2 pid tid start len pgoff path exec t =>
    -- add_mmap_marker: creates process and thread entries on demand
    let s := if s.cur = s.ref || path.isEmpty then s else
      let (s, p) := getByPid s pid
      (getThread s p tid).1
    if !exec then s else
    let (s, p) := getByPid s pid
    putProc s { p with mapq := p.mapq ++ [(t, { start, end_ := start + len, rel := pgoff, lib := path })] }

/-! ## flush -/
inductive Frame | lib (path : String) (rel : Nat) | raw (addr : Nat)
deriving Repr, DecidableEq

def PERF_CONTEXT_MAX : Nat := 2^64 - 4095
def CTX_KERNEL : Nat := 2^64 - 128
def CTX_USER : Nat := 2^64 - 512

/-- get_sample_stack (callchain part) + first/second pass, callee-first in, root-first out -/
def convertChain (maps : List MapAdd) (km : Bool) (chain : List Nat) : List Frame :=
  let rec go (first : Bool) (kernel : Bool) : List Nat → List Frame
    | [] => []
    | a :: as =>
      if a ≥ PERF_CONTEXT_MAX then
        go first (if a = CTX_KERNEL then true else if a = CTX_USER then false else kernel) as
      else
        let la := if first then a else a - 1
        let f := if kernel then Frame.raw la else
          match maps.find? (fun m => m.start ≤ la && la < m.end_) with
          | some m => Frame.lib m.lib (m.rel + (la - m.start))
          | none => Frame.raw la
        f :: go false kernel as
  (go true km chain).reverse

/-- LibMappings.add_mapping as a live list (see LibMappings_refinement.lean) -/
def applyAdd (maps : List MapAdd) (x : MapAdd) : List MapAdd :=
  maps.filter (fun m => !(m.start < x.end_ && x.start < m.end_)) ++ [x]

structure OutSample where
  t : Nat
  frames : List Frame
deriving Repr

def flushOne (out : Array (List OutSample)) (samples : List USample) (q : List (Nat × MapAdd)) :
    Array (List OutSample) :=
  let rec go (out : Array (List OutSample)) (maps : List MapAdd) (q : List (Nat × MapAdd)) :
      List USample → Array (List OutSample)
    | [] => out
    | u :: us =>
      let ready := q.takeWhile (fun o => o.1 ≤ u.tmono)
      let q' := q.dropWhile (fun o => o.1 ≤ u.tmono)
      let maps := ready.foldl (fun m o => applyAdd m o.2) maps
      go (out.modify u.th (· ++ [{ t := u.t, frames := convertChain maps u.kernelMode u.chain }])) maps q' us
  go out [] q samples

def finish (s : St) : Array (List OutSample) :=
  let parked := s.parked ++ (s.procs.filter (fun p => !p.2.samples.isEmpty)).map (fun p => (p.2.samples, p.2.mapq))
  parked.foldl (fun out (ss, q) => flushOne out ss q) (Array.replicate s.tents.size [])

def idStr (id suffix : Nat) : String := if suffix = 0 then toString id else s!"{id}.{suffix}"

structure View where
  pid : String
  tid : String
  name : String
  processName : String
  start : Nat
  end_ : Option Nat
  pstart : Nat
  pend : Option Nat
  samples : List OutSample
deriving Repr

def views (s : St) : List View :=
  let out := finish s
  (List.range s.tents.size).filterMap fun i => do
    let te ← s.tents[i]?
    let pe ← s.pents[te.proc]?
    let tidS := idStr te.tid te.suffix
    pure { pid := idStr pe.pid pe.suffix, tid := tidS,
           name := if te.isMain then pe.name else te.name.getD s!"Thread <{tidS}>",
           processName := pe.name, start := te.start, end_ := te.end_, pstart := pe.start, pend := pe.end_,
           samples := out[i]?.getD [] }

def run (ref : Nat) (rs : List Rec) : St := rs.foldl step { cur := ref, ref }

def T : Nat := 1000000
def CTXU : Nat := CTX_USER
def example1 : List Rec := [
  .comm 100 100 "parent" false (10*T),
  .mmap2 100 100 0x400000 0x10000 0x1000 "/nonexistent/bin/app" true (11*T),
  .sample 100 100 (12*T) false [CTXU, 0x400100, 0x400205, 0x400309],
  .fork 200 200 100 100 (13*T),
  .comm 200 200 "child" true (14*T),
  .sample 200 200 (15*T) false [CTXU, 0x400100],
  .sample 200 200 (15*T) false [CTXU, 0x400100],
  .fork 100 101 100 100 (16*T),
  .sample 100 101 (17*T) false [CTXU, 0x400150],
  .comm 100 101 "worker" false (18*T),
  .exit 100 101 (19*T),
  .sample 100 100 (20*T) false [CTXU, 0x500000],
  .exit 200 200 (21*T) ]

#eval (views (run (12*T) example1)).map fun v =>
  (v.pid, v.tid, v.name, v.processName, v.start / T, v.end_.map (· / T), v.pstart / T, v.pend.map (· / T),
   v.samples.map fun o => (o.t / T, o.frames))
end Conv
