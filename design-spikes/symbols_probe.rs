use samply_symbols::*;
use std::str::FromStr;
#[derive(Clone)] struct L(String);
impl std::fmt::Display for L { fn fmt(&self, f: &mut std::fmt::Formatter<'_>) -> std::fmt::Result { write!(f,"{}",self.0) } }
impl FileLocation for L {
    fn location_for_dyld_subcache(&self, _: &str) -> Option<Self> { None }
    fn location_for_external_object_file(&self, _: &str) -> Option<Self> { None }
    fn location_for_pdb_from_binary(&self, _: &str) -> Option<Self> { None }
    fn location_for_source_file(&self, _: &str) -> Option<Self> { None }
    fn location_for_breakpad_symindex(&self) -> Option<Self> { None }
    fn location_for_dwo(&self, _: &str, _: &str) -> Option<Self> { None }
    fn location_for_dwp(&self) -> Option<Self> { None }
}
struct H(Vec<u8>);
impl FileAndPathHelper for H {
    type F = Vec<u8>; type FL = L;
    fn get_candidate_paths_for_debug_file(&self, _: &LibraryInfo) -> FileAndPathHelperResult<Vec<CandidatePathInfo<L>>> { Ok(vec![]) }
    fn get_candidate_paths_for_binary(&self, _: &LibraryInfo) -> FileAndPathHelperResult<Vec<CandidatePathInfo<L>>> { Ok(vec![]) }
    fn get_dyld_shared_cache_paths(&self, _: Option<&str>) -> FileAndPathHelperResult<Vec<L>> { Ok(vec![]) }
    fn load_file(&self, _l: L) -> std::pin::Pin<Box<dyn OptionallySendFuture<Output = FileAndPathHelperResult<Vec<u8>>> + '_>> {
        let d = self.0.clone(); Box::pin(async move { Ok(d) })
    }
}
fn main() {
    println!("C19 CodeId 8-byte build id: {:?}", CodeId::from_str("0123456789abcdef"));
    println!("C19 CodeId 16-byte decimal-only: {:?}", CodeId::from_str("01234567890123456789012345678901"));
    println!("C19 CodeId 20-byte: {:?}", CodeId::from_str("000102030405060708090a0b0c0d0e0f10111213").map(|c| c.to_string()));
    let sym = b"MODULE Linux x86_64 BE4E976C325246EE9D6B7847A670B2A90 x\nFUNC ffffff00 200 0 f\nffffff00 10 1 0\n".to_vec();
    let sm = SymbolManager::with_helper(H(sym));
    let map = futures::executor::block_on(sm.load_symbol_map_from_location(L("x.sym".into()), None)).unwrap();
    let r = std::panic::catch_unwind(std::panic::AssertUnwindSafe(|| map.lookup_sync(LookupAddress::Relative(0xffffff10)).map(|a| (a.symbol.address, a.symbol.size))));
    println!("C08 FUNC addr+size overflow lookup: {:?}", r.map_err(|_| "panic"));
}
