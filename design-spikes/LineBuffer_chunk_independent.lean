/-! LineBuffer spike: memchr-level model vs bytewise spec, chunk independence -/
namespace LB

abbrev Byte := UInt8
abbrev Log := List (Nat × List Byte)

structure St where
  leftover : List Byte
  off : Nat
deriving Repr, DecidableEq

/-- split at the first newline: (before, after-without-newline) or none -/
def splitNl : List Byte → Option (List Byte × List Byte)
  | [] => none
  | b :: bs => if b = 10 then some ([], bs) else
      match splitNl bs with
      | none => none
      | some (l, r) => some (b :: l, r)

theorem splitNl_len {bs l r} (h : splitNl bs = some (l, r)) : bs.length = l.length + 1 + r.length := by
  induction bs generalizing l r with
  | nil => simp [splitNl] at h
  | cons b bs ih =>
    simp only [splitNl] at h
    split at h
    · cases h; simp; omega
    · split at h
      · cases h
      · rename_i l' r' heq
        cases h
        have := ih heq
        simp; omega

/-- memchr-level model of `LineBuffer::consume` -/
def consume (st : St) (chunk : List Byte) : St × Log :=
  match h : splitNl chunk with
  | none => ({ leftover := st.leftover ++ chunk, off := st.off + chunk.length }, [])
  | some (l, r) =>
    let (line, start) :=
      if st.leftover.isEmpty then (l, st.off) else (st.leftover ++ l, st.off - st.leftover.length)
    let st' : St := { leftover := [], off := st.off + l.length + 1 }
    let (st'', log) := consume st' r
    (st'', (start, line) :: log)
termination_by chunk.length
decreasing_by have := splitNl_len h; omega

/-- bytewise reference -/
def pushByte (acc : St × Log) (b : Byte) : St × Log :=
  let (st, log) := acc
  if b = 10 then
    ({ leftover := [], off := st.off + 1 }, log ++ [(st.off - st.leftover.length, st.leftover)])
  else ({ leftover := st.leftover ++ [b], off := st.off + 1 }, log)

def bytewise (st : St) (bs : List Byte) : St × Log := bs.foldl pushByte (st, [])

def Inv (st : St) : Prop := st.leftover.length ≤ st.off

end LB

namespace LB

theorem foldl_log (st : St) (log : Log) (bs : List Byte) :
    bs.foldl pushByte (st, log) = ((bs.foldl pushByte (st, [])).1, log ++ (bs.foldl pushByte (st, [])).2) := by
  induction bs generalizing st log with
  | nil => simp
  | cons b bs ih =>
    simp only [List.foldl_cons]
    by_cases hb : b = 10
    · simp only [pushByte, hb, if_true]
      rw [ih, ih (log := [] ++ _)]
      simp
    · simp only [pushByte, hb, if_false]
      rw [ih]

/-- bytes without newline just extend leftover -/
theorem bytewise_noNl (st : St) (bs : List Byte) (h : splitNl bs = none) :
    bytewise st bs = ({ leftover := st.leftover ++ bs, off := st.off + bs.length }, []) := by
  unfold bytewise
  induction bs generalizing st with
  | nil => simp
  | cons b bs ih =>
    simp only [splitNl] at h
    split at h
    · cases h
    · rename_i hb
      split at h
      · simp only [List.foldl_cons, pushByte, hb, if_false]
        rename_i hn
        rw [ih _ hn]
        simp [Nat.add_assoc, Nat.add_comm 1]
      · cases h

theorem bytewise_split (st : St) (bs l r : List Byte) (h : splitNl bs = some (l, r)) :
    bytewise st bs =
      ((bytewise { leftover := [], off := st.off + l.length + 1 } r).1,
       (st.off - st.leftover.length, st.leftover ++ l) :: (bytewise { leftover := [], off := st.off + l.length + 1 } r).2) := by
  unfold bytewise
  induction bs generalizing st l with
  | nil => simp [splitNl] at h
  | cons b bs ih =>
    simp only [splitNl] at h
    split at h
    · rename_i hb
      cases h
      simp only [List.foldl_cons, pushByte, hb, if_true]
      rw [foldl_log]
      simp
    · rename_i hb
      split at h
      · cases h
      · rename_i l' r' heq
        cases h
        simp only [List.foldl_cons, pushByte, hb, if_false]
        rw [ih _ _ heq]
        simp [Nat.add_assoc, Nat.add_comm 1]

theorem consume_eq_bytewise (st : St) (chunk : List Byte) (hinv : Inv st) :
    consume st chunk = bytewise st chunk := by
  fun_induction consume st chunk with
  | case1 st chunk h => rw [bytewise_noNl _ _ h]
  | case2 st chunk l r h line start hls st' st'' log hrec ih =>
    rw [bytewise_split _ _ _ _ h]
    have ih' := ih (by simp [Inv, st'])
    rw [hrec] at ih'
    rw [← ih']
    simp only
    by_cases he : st.leftover.isEmpty
    · simp [he] at hls
      have : st.leftover = [] := by simpa using he
      obtain ⟨h1, h2⟩ := hls
      subst h1 h2
      simp [this]
    · simp [he] at hls
      obtain ⟨h1, h2⟩ := hls
      subst h1 h2
      rfl

/-- consuming a list of chunks, threading the state and concatenating logs -/
def consumeAll (st : St) : List (List Byte) → St × Log
  | [] => (st, [])
  | c :: cs =>
    let (st', log) := consume st c
    let (st'', log') := consumeAll st' cs
    (st'', log ++ log')

theorem bytewise_inv (st : St) (bs : List Byte) (h : Inv st) : Inv (bytewise st bs).1 := by
  unfold bytewise
  induction bs generalizing st with
  | nil => simpa
  | cons b bs ih =>
    simp only [List.foldl_cons]
    by_cases hb : b = 10
    · simp only [pushByte, hb, if_true]; rw [foldl_log]; exact ih _ (by simp [Inv])
    · simp only [pushByte, hb, if_false]; exact ih _ (by simp [Inv] at *; omega)

theorem bytewise_append (st : St) (a b : List Byte) :
    bytewise st (a ++ b) = ((bytewise (bytewise st a).1 b).1, (bytewise st a).2 ++ (bytewise (bytewise st a).1 b).2) := by
  unfold bytewise
  rw [List.foldl_append]
  generalize List.foldl pushByte (st, []) a = p
  obtain ⟨s, l⟩ := p
  rw [foldl_log]

/-- Chunk independence: any partition gives the same state and log as one big chunk. -/
theorem chunk_independent (st : St) (chunks : List (List Byte)) (h : Inv st) :
    consumeAll st chunks = consume st chunks.flatten := by
  rw [consume_eq_bytewise _ _ h]
  induction chunks generalizing st with
  | nil => simp [consumeAll, bytewise]
  | cons c cs ih =>
    simp only [consumeAll, List.flatten_cons]
    rw [consume_eq_bytewise _ _ h, bytewise_append]
    rw [ih _ (bytewise_inv _ _ h)]

#print axioms chunk_independent
end LB
