#!/bin/bash
# Rebuilds corpus/C09/fixtures/rustdemo (rustc 1.95.0 was used; another compiler gives other offsets and another
# /rustc/<rev>, which is fine: the harness discovers offsets at run time). The dependency is compiled from a
# directory that looks like a cargo registry so that its DWARF file names match path_mapper.rs:map_cargo_dep_path.
set -e
here=$(cd "$(dirname "$0")" && pwd)
D=$(mktemp -d)
R=$D/home/.cargo/registry/src/index.crates.io-6f17d22bba15001f/demo-dep-0.3.1/src
mkdir -p "$R" "$D/proj/src"
cp "$here/registry-demo-dep-0.3.1/src/lib.rs" "$R/lib.rs"
cp "$here/proj/src/main.rs" "$D/proj/src/main.rs"
RM="--remap-path-prefix $D/home=/home/builder --remap-path-prefix $D/proj=/home/builder/proj"
rustc --edition 2021 -C opt-level=2 -C debuginfo=2 -C panic=abort $RM --crate-type rlib --crate-name demo_dep "$R/lib.rs" -o "$D/libdemo_dep.rlib"
(cd "$D" && rustc --edition 2021 -C opt-level=2 -C debuginfo=2 -C panic=abort $RM --extern demo_dep="$D/libdemo_dep.rlib" \
   -C link-arg=-nostartfiles -C link-arg=-static -C relocation-model=static proj/src/main.rs -o "$here/../rustdemo")
rm -rf "$D"
