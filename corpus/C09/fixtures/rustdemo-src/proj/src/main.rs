#![no_std]
#![no_main]
//! C09 fixture `rustdemo`: a freestanding Rust ELF whose DWARF names files under `/rustc/<rev>/library/…`
//! (inlined `core` generics) and under a cargo registry (`demo-dep`), so that `path_mapper.rs` is reached.
extern crate demo_dep;
use core::panic::PanicInfo;

#[panic_handler]
fn panic(_: &PanicInfo) -> ! {
    loop {}
}

static mut SEED: u32 = 7;
static mut OUT: u32 = 0;

#[inline(never)]
fn work(x: u32) -> u32 {
    let a = [x, x.wrapping_add(1), x.wrapping_add(2), x ^ 0x55];
    let s: u32 = a.iter().map(|v| v.wrapping_mul(3)).sum();
    let t = demo_dep::mix(&a);
    demo_dep::dep_outer(s ^ t).checked_add(1).unwrap_or(0)
}

#[inline(never)]
fn second(x: u32) -> u32 {
    let mut v = x;
    for i in 0..x.min(5) {
        v = v.rotate_right(i) ^ core::cmp::min(v, 99).saturating_sub(i);
    }
    v
}

#[no_mangle]
pub extern "C" fn _start() -> ! {
    let s = unsafe { core::ptr::read_volatile(&raw const SEED) };
    let v = work(s).wrapping_add(second(s));
    unsafe { core::ptr::write_volatile(&raw mut OUT, v) };
    loop {}
}
