//! Runner shared by the per-property harness binaries (`src/bin/cNN.rs`): drives the real samply code on generated cases (see /verif/DESIGN.md §2).
//!
//!   verif-harness <ID> --tier quick|thorough --seed N --out DIR     generate + execute
//!   verif-harness <ID> --replay FILE --out DIR                      execute the cases of FILE
//!
//! Writes DIR/ops.txt (case blocks of operations), DIR/impl.out (case blocks of canonical outputs)
//! and DIR/stats.json (measured input distribution).
use crate::common::*;
use std::collections::HashSet;
use std::panic::{catch_unwind, AssertUnwindSafe};
use std::sync::Mutex;

pub fn run_main(prop: &dyn Prop) {
    let args: Vec<String> = std::env::args().collect();
    if args.len() < 2 {
        eprintln!("usage: verif-harness <ID> [--tier T] [--seed N] [--out DIR] [--replay FILE] [--cases N]");
        std::process::exit(2);
    }
    let id = args[1].clone();
    let mut tier = Tier::Quick;
    let mut seed: u64 = 1;
    let mut out_dir = String::from(".");
    let mut replay: Option<String> = None;
    let mut cases_override: Option<u64> = None;
    let mut corpus_dir: Option<String> = None;
    let mut i = 2;
    while i < args.len() {
        match args[i].as_str() {
            "--tier" => {
                tier = if args[i + 1] == "thorough" { Tier::Thorough } else { Tier::Quick };
                i += 1;
            }
            "--seed" => {
                seed = args[i + 1].parse().expect("seed");
                i += 1;
            }
            "--out" => {
                out_dir = args[i + 1].clone();
                i += 1;
            }
            "--replay" => {
                replay = Some(args[i + 1].clone());
                i += 1;
            }
            "--cases" => {
                cases_override = Some(args[i + 1].parse().expect("cases"));
                i += 1;
            }
            "--corpus" => {
                corpus_dir = Some(args[i + 1].clone());
                i += 1;
            }
            other => {
                eprintln!("unknown argument {other}");
                std::process::exit(2);
            }
        }
        i += 1;
    }
    if !id.eq_ignore_ascii_case(prop.id()) {
        eprintln!("this binary drives {}, not {id}", prop.id());
        std::process::exit(2);
    }
    // Panics of the code under test are outcomes, not harness failures: silence the default hook
    // (the message is still captured where a property wants it).
    if std::env::var("VERIF_PANIC_TRACE").is_err() {
        std::panic::set_hook(Box::new(|_| {}));
    }
    std::fs::create_dir_all(&out_dir).unwrap();

    // 1. collect cases
    let mut cases: Vec<Case> = Vec::new();
    if let Some(file) = &replay {
        let text = std::fs::read_to_string(file).expect("replay file");
        for (name, ops) in parse_blocks(&text) {
            // a replay file may contain an `impl` section per case (judge format); drop it
            let ops: Vec<String> = ops.into_iter().take_while(|l| l != "impl").collect();
            cases.push(Case { name, ops });
        }
    } else {
        if let Some(dir) = &corpus_dir {
            let mut files: Vec<_> = std::fs::read_dir(dir)
                .map(|d| d.filter_map(|e| e.ok()).map(|e| e.path()).collect())
                .unwrap_or_default();
            files.sort();
            for f in files {
                if f.extension().map(|e| e == "ops").unwrap_or(false) {
                    let text = std::fs::read_to_string(&f).unwrap_or_default();
                    let stem = f.file_stem().unwrap().to_string_lossy().to_string();
                    for (k, (_, ops)) in parse_blocks(&text).into_iter().enumerate() {
                        let ops: Vec<String> = ops.into_iter().take_while(|l| l != "impl").collect();
                        cases.push(Case { name: format!("corpus-{stem}-{k}"), ops });
                    }
                }
            }
        }
        for c in prop.fixed_cases(tier) {
            cases.push(c);
        }
        let n = cases_override.unwrap_or_else(|| prop.case_count(tier));
        for k in 0..n {
            let mut rng = Rng::for_case(seed, k);
            let ops = prop.generate(&mut rng, tier, k);
            cases.push(Case { name: format!("g{k}"), ops });
        }
    }

    // 2. execute
    let is_child = std::env::var("VERIF_CHILD").is_ok();
    if is_child {
        if let Ok(mib) = std::env::var("VERIF_CHILD_MEM_MIB") {
            if let Ok(mib) = mib.parse::<u64>() {
                let lim = libc::rlimit { rlim_cur: mib << 20, rlim_max: mib << 20 };
                unsafe {
                    libc::setrlimit(libc::RLIMIT_AS, &lim);
                }
            }
        }
    }
    if let (Some((secs, mib)), false) = (prop.isolate(), is_child) {
        let (results, stats) = run_isolated(&args[0], &id, &cases, &out_dir, secs, mib);
        finish(prop, &id, seed, tier, &out_dir, &cases, results, stats);
        return;
    }
    prop.setup(tier);
    let results: Mutex<Vec<Option<Vec<String>>>> = Mutex::new(vec![None; cases.len()]);
    let stats = Mutex::new(Stats::default());
    let next = std::sync::atomic::AtomicUsize::new(0);
    let workers = if prop.parallel() {
        std::thread::available_parallelism().map(|n| n.get()).unwrap_or(4).min(16)
    } else {
        1
    };
    std::thread::scope(|s| {
        for _ in 0..workers {
            s.spawn(|| {
                let mut local = Stats::default();
                loop {
                    let k = next.fetch_add(1, std::sync::atomic::Ordering::SeqCst);
                    if k >= cases.len() {
                        break;
                    }
                    let ops = &cases[k].ops;
                    let r = catch_unwind(AssertUnwindSafe(|| prop.execute(ops, &mut local)));
                    let out = match r {
                        Ok(lines) => lines,
                        Err(_) => {
                            local.bump("harness_level_panics");
                            vec!["panic".to_string()]
                        }
                    };
                    results.lock().unwrap()[k] = Some(out);
                }
                stats.lock().unwrap().merge(&local);
            });
        }
    });
    prop.teardown();
    let results = results.into_inner().unwrap();
    let stats = stats.into_inner().unwrap();
    finish(prop, &id, seed, tier, &out_dir, &cases, results, stats);
}

/// Runs the cases in child processes of this same binary (`--replay <chunk file>`), 16 chunks at a time;
/// a chunk whose child fails (non-zero exit, signal, timeout) is split until the failing case is alone.
fn run_isolated(exe: &str, id: &str, cases: &[Case], out_dir: &str, secs: u64, mib: u64) -> (Vec<Option<Vec<String>>>, Stats) {
    use std::sync::atomic::{AtomicUsize, Ordering};
    let results: Mutex<Vec<Option<Vec<String>>>> = Mutex::new(vec![None; cases.len()]);
    let stats = Mutex::new(Stats::default());
    let chunk = 48usize;
    let mut queue: Vec<(usize, usize)> = (0..cases.len()).step_by(chunk).map(|a| (a, (a + chunk).min(cases.len()))).collect();
    queue.reverse();
    let queue = Mutex::new(queue);
    let counter = AtomicUsize::new(0);
    std::thread::scope(|s| {
        for _ in 0..16 {
            s.spawn(|| loop {
                let Some((a, b)) = queue.lock().unwrap().pop() else { break };
                let k = counter.fetch_add(1, Ordering::SeqCst);
                let dir = format!("{out_dir}/iso/{k}");
                std::fs::create_dir_all(&dir).ok();
                let blocks: Vec<(String, Vec<String>)> = cases[a..b].iter().map(|c| (c.name.clone(), c.ops.clone())).collect();
                let file = format!("{dir}/in.ops");
                std::fs::write(&file, render_blocks(&blocks)).unwrap();
                let mut child = std::process::Command::new(exe)
                    .arg(id)
                    .arg("--replay")
                    .arg(&file)
                    .arg("--out")
                    .arg(&dir)
                    .env("VERIF_CHILD", "1")
                    .env("VERIF_CHILD_MEM_MIB", mib.to_string())
                    .stdout(std::process::Stdio::null())
                    .stderr(std::process::Stdio::null())
                    .spawn()
                    .expect("spawn child");
                let start = std::time::Instant::now();
                let how = loop {
                    match child.try_wait() {
                        Ok(Some(st)) if st.success() => break None,
                        Ok(Some(st)) => {
                            use std::os::unix::process::ExitStatusExt;
                            break Some(match st.signal() {
                                Some(sig) => format!("signal{sig}"),
                                None => format!("exit{}", st.code().unwrap_or(-1)),
                            });
                        }
                        Ok(None) => {
                            if start.elapsed().as_secs() > secs * (((b - a) as u64 + 7) / 8).max(1) {
                                let _ = child.kill();
                                let _ = child.wait();
                                break Some("timeout".to_string());
                            }
                            std::thread::sleep(std::time::Duration::from_millis(20));
                        }
                        Err(_) => break Some("wait-error".to_string()),
                    }
                };
                match how {
                    None => {
                        let out = std::fs::read_to_string(format!("{dir}/impl.out")).unwrap_or_default();
                        let blocks = parse_blocks(&out);
                        let mut r = results.lock().unwrap();
                        for (i, (_, lines)) in blocks.into_iter().enumerate() {
                            if a + i < b {
                                r[a + i] = Some(lines);
                            }
                        }
                        if let Ok(text) = std::fs::read_to_string(format!("{dir}/stats.json")) {
                            if let Ok(v) = serde_json::from_str::<serde_json::Value>(&text) {
                                if let Some(m) = v["counters"].as_object() {
                                    let mut st = stats.lock().unwrap();
                                    for (k, val) in m {
                                        if k != "cases" && k != "distinct_nontrivial" && k != "total_op_lines" {
                                            st.add(k, val.as_u64().unwrap_or(0));
                                        }
                                    }
                                }
                            }
                        }
                    }
                    Some(how) => {
                        if b - a == 1 {
                            results.lock().unwrap()[a] = Some(vec![format!("crash:{how}")]);
                            stats.lock().unwrap().bump("isolated_crashes");
                        } else {
                            let mid = (a + b) / 2;
                            let mut q = queue.lock().unwrap();
                            q.push((mid, b));
                            q.push((a, mid));
                        }
                    }
                }
                let _ = std::fs::remove_dir_all(&dir);
            });
        }
    });
    let _ = std::fs::remove_dir_all(format!("{out_dir}/iso"));
    (results.into_inner().unwrap(), stats.into_inner().unwrap())
}

#[allow(clippy::too_many_arguments)]
fn finish(prop: &dyn Prop, id: &str, seed: u64, tier: Tier, out_dir: &str, cases: &[Case], results: Vec<Option<Vec<String>>>, mut stats: Stats) {
    // 3. write files
    let ops_blocks: Vec<(String, Vec<String>)> =
        cases.iter().map(|c| (c.name.clone(), c.ops.clone())).collect();
    let out_blocks: Vec<(String, Vec<String>)> = cases
        .iter()
        .zip(results.iter())
        .map(|(c, r)| (c.name.clone(), r.clone().unwrap_or_default()))
        .collect();
    std::fs::write(format!("{out_dir}/ops.txt"), render_blocks(&ops_blocks)).unwrap();
    std::fs::write(format!("{out_dir}/impl.out"), render_blocks(&out_blocks)).unwrap();

    let mut seen = HashSet::new();
    let mut distinct_nontrivial = 0u64;
    for (c, r) in cases.iter().zip(results.iter()) {
        let out = r.clone().unwrap_or_default();
        if seen.insert(fnv1a(&c.ops)) && prop.nontrivial(&c.ops, &out) {
            distinct_nontrivial += 1;
        }
    }
    stats.add("cases", cases.len() as u64);
    stats.add("distinct_nontrivial", distinct_nontrivial);
    let total_ops: usize = cases.iter().map(|c| c.ops.len()).sum();
    stats.add("total_op_lines", total_ops as u64);
    let json = serde_json::json!({
        "property": id,
        "seed": seed,
        "tier": if tier == Tier::Quick { "quick" } else { "thorough" },
        "cases": cases.len(),
        "distinct_nontrivial": distinct_nontrivial,
        "counters": stats.counters,
    });
    std::fs::write(format!("{out_dir}/stats.json"), serde_json::to_string_pretty(&json).unwrap()).unwrap();
}
