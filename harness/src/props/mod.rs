//! One module per property; `lookup` maps a property id to its driver.
use crate::common::Prop;

pub mod c12;

pub fn lookup(id: &str) -> Option<Box<dyn Prop>> {
    match id {
        "C12" => Some(Box::new(c12::C12)),
        _ => None,
    }
}
