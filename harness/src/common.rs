//! Shared plumbing of the correspondence harness: PRNG, case blocks, statistics, the `Prop` trait.
use std::collections::BTreeMap;
use std::fmt::Write as _;

/// splitmix64-seeded xorshift64*; every random choice of a case derives from one state so that a
/// disagreement replays exactly from `(seed, case index)`.
#[derive(Clone)]
pub struct Rng(u64);

impl Rng {
    pub fn new(seed: u64) -> Self {
        let mut z = seed.wrapping_add(0x9E3779B97F4A7C15);
        z = (z ^ (z >> 30)).wrapping_mul(0xBF58476D1CE4E5B9);
        z = (z ^ (z >> 27)).wrapping_mul(0x94D049BB133111EB);
        z ^= z >> 31;
        Rng(if z == 0 { 0x1234_5678_9abc_def1 } else { z })
    }
    pub fn for_case(seed: u64, case: u64) -> Self {
        Rng::new(seed.wrapping_mul(0x100000001B3).wrapping_add(case.wrapping_mul(0x9E3779B97F4A7C15)))
    }
    pub fn next_u64(&mut self) -> u64 {
        let mut x = self.0;
        x ^= x >> 12;
        x ^= x << 25;
        x ^= x >> 27;
        self.0 = x;
        x.wrapping_mul(0x2545F4914F6CDD1D)
    }
    /// uniform in `0..n` (n > 0)
    pub fn below(&mut self, n: u64) -> u64 {
        self.next_u64() % n
    }
    pub fn range(&mut self, lo: u64, hi_incl: u64) -> u64 {
        lo + self.below(hi_incl - lo + 1)
    }
    pub fn chance(&mut self, num: u64, den: u64) -> bool {
        self.below(den) < num
    }
    pub fn pick<'a, T>(&mut self, xs: &'a [T]) -> &'a T {
        &xs[self.below(xs.len() as u64) as usize]
    }
    pub fn shuffle<T>(&mut self, xs: &mut [T]) {
        for i in (1..xs.len()).rev() {
            let j = self.below(i as u64 + 1) as usize;
            xs.swap(i, j);
        }
    }
}

#[derive(Clone, Copy, PartialEq, Eq, Debug)]
pub enum Tier {
    Quick,
    Thorough,
}

/// One case: the operation lines handed to both the implementation driver and the Lean model.
#[derive(Clone, Debug)]
pub struct Case {
    pub name: String,
    pub ops: Vec<String>,
}

/// Counters describing the input distribution; merged across worker threads, written to stats.json.
#[derive(Default, Clone, Debug)]
pub struct Stats {
    pub counters: BTreeMap<String, u64>,
}

impl Stats {
    pub fn bump(&mut self, key: &str) {
        *self.counters.entry(key.to_string()).or_insert(0) += 1;
    }
    pub fn add(&mut self, key: &str, n: u64) {
        *self.counters.entry(key.to_string()).or_insert(0) += n;
    }
    pub fn merge(&mut self, other: &Stats) {
        for (k, v) in &other.counters {
            *self.counters.entry(k.clone()).or_insert(0) += v;
        }
    }
}

pub trait Prop: Sync {
    fn id(&self) -> &'static str;
    /// Number of generated cases per tier.
    fn case_count(&self, tier: Tier) -> u64;
    /// Deterministic extra cases (boundary families, exhaustive enumerations) run before the random ones.
    fn fixed_cases(&self, _tier: Tier) -> Vec<Case> {
        Vec::new()
    }
    /// Generate the operation lines of case `index` from `rng`.
    fn generate(&self, rng: &mut Rng, tier: Tier, index: u64) -> Vec<String>;
    /// Run the real code on the operation lines; returns canonicalised output lines.
    /// Panics are caught by the runner and reported as a final `panic` line — unless the property
    /// needs finer handling, in which case the implementation catches them itself.
    fn execute(&self, ops: &[String], stats: &mut Stats) -> Vec<String>;
    /// Is this case non-trivial (hits at least one non-default branch of the mechanism)?
    fn nontrivial(&self, ops: &[String], out: &[String]) -> bool {
        !ops.is_empty() && !out.is_empty()
    }
    /// Run cases on several threads? (false for properties that spawn processes / use global state)
    fn parallel(&self) -> bool {
        true
    }
    /// One-time preparation (build fixtures, start servers, …).
    fn setup(&self, _tier: Tier) {}
    fn teardown(&self) {}
    /// Run the cases in child processes (chunks, bisected on failure) so that a hang, an abort or an
    /// out-of-memory kill of the code under test becomes the outcome `crash:<how>` of ONE case instead of
    /// killing the whole run. `(seconds per chunk, address-space limit in MiB)`.
    fn isolate(&self) -> Option<(u64, u64)> {
        None
    }
}

pub fn render_blocks(cases: &[(String, Vec<String>)]) -> String {
    let mut s = String::new();
    for (name, lines) in cases {
        let _ = writeln!(s, "case {name}");
        for l in lines {
            let _ = writeln!(s, "{l}");
        }
        let _ = writeln!(s, "end");
    }
    s
}

pub fn parse_blocks(text: &str) -> Vec<(String, Vec<String>)> {
    let mut out = Vec::new();
    let mut cur: Option<(String, Vec<String>)> = None;
    for line in text.lines() {
        let l = line.trim();
        match &mut cur {
            None => {
                let mut w = l.split_whitespace();
                if w.next() == Some("case") {
                    if let Some(n) = w.next() {
                        cur = Some((n.to_string(), Vec::new()));
                    }
                }
            }
            Some((_, body)) => {
                if l == "end" {
                    out.push(cur.take().unwrap());
                } else {
                    body.push(l.to_string());
                }
            }
        }
    }
    out
}

pub fn fnv1a(lines: &[String]) -> u64 {
    let mut h: u64 = 0xcbf29ce484222325;
    for l in lines {
        for b in l.bytes().chain(std::iter::once(b'\n')) {
            h ^= b as u64;
            h = h.wrapping_mul(0x100000001b3);
        }
    }
    h
}

pub fn hex(bytes: &[u8]) -> String {
    if bytes.is_empty() {
        return "-".to_string();
    }
    let mut s = String::with_capacity(bytes.len() * 2);
    for b in bytes {
        let _ = write!(s, "{b:02x}");
    }
    s
}

pub fn unhex(s: &str) -> Vec<u8> {
    if s == "-" {
        return Vec::new();
    }
    (0..s.len() / 2)
        .map(|i| u8::from_str_radix(&s[2 * i..2 * i + 2], 16).unwrap_or(0))
        .collect()
}
