//! C05: what the `object` crate presents of an ELF / Mach-O / PE file, printed as op lines (`f…` lines of
//! `kind fxobj`, see lean/SamplyModel/Iface/C05.lean), plus the harness's own readers of the format-specific
//! function tables: `.eh_frame` (CIE / FDE walk with pointer encodings), Mach-O `__unwind_info`
//! (compact unwind pages), the LC_FUNCTION_STARTS load command, PE `.pdata` (raw bytes).
//! None of this uses samply-symbols; `object` is used for the container (sections, symbols, segments).
use samply_symbols::object::{
    self, Object, ObjectSection, ObjectSegment, ObjectSymbol, SectionFlags, SectionKind, SymbolKind,
};

use crate::common::hex;

/// hash over the description lines (`f…`, `dem …`) of a `kind fxobj` case; the same function is in the Lean driver.
/// A case whose description does not match its `fsum` line (the shrinker removed lines) is answered `bad-op`
/// by both sides.
pub fn desc_hash<'a>(lines: impl Iterator<Item = &'a String>) -> u64 {
    const M: u128 = 2305843009213693951;
    let mut h: u128 = 7;
    for l in lines {
        if !is_desc_line(l) {
            continue;
        }
        for b in l.bytes() {
            h = (h * 31 + b as u128) % M;
        }
        h = (h * 31 + 10) % M;
    }
    h as u64
}

pub fn is_desc_line(l: &str) -> bool {
    (l.starts_with('f') && !l.starts_with("fsum ")) || l.starts_with("dem ")
}

fn rd_u16(d: &[u8], o: usize, le: bool) -> Option<u64> {
    let b: [u8; 2] = d.get(o..o + 2)?.try_into().ok()?;
    Some(if le { u16::from_le_bytes(b) } else { u16::from_be_bytes(b) } as u64)
}
fn rd_u32(d: &[u8], o: usize, le: bool) -> Option<u64> {
    let b: [u8; 4] = d.get(o..o + 4)?.try_into().ok()?;
    Some(if le { u32::from_le_bytes(b) } else { u32::from_be_bytes(b) } as u64)
}
fn rd_u64(d: &[u8], o: usize, le: bool) -> Option<u64> {
    let b: [u8; 8] = d.get(o..o + 8)?.try_into().ok()?;
    Some(if le { u64::from_le_bytes(b) } else { u64::from_be_bytes(b) })
}
fn rd_uleb(d: &[u8], o: &mut usize) -> Option<u64> {
    let mut r: u64 = 0;
    let mut shift = 0u32;
    loop {
        let b = *d.get(*o)?;
        *o += 1;
        if shift < 64 {
            r |= ((b & 0x7f) as u64) << shift;
        }
        shift += 7;
        if b & 0x80 == 0 {
            return Some(r);
        }
        if shift > 70 {
            return None;
        }
    }
}
fn rd_sleb(d: &[u8], o: &mut usize) -> Option<i64> {
    let mut r: i64 = 0;
    let mut shift = 0u32;
    loop {
        let b = *d.get(*o)?;
        *o += 1;
        if shift < 64 {
            r |= ((b & 0x7f) as i64) << shift;
        }
        shift += 7;
        if b & 0x80 == 0 {
            if shift < 64 && (b & 0x40) != 0 {
                r |= -1i64 << shift;
            }
            return Some(r);
        }
        if shift > 70 {
            return None;
        }
    }
}

fn mask(v: u64, addr_size: u8) -> u64 {
    if addr_size >= 8 {
        v
    } else {
        v & ((1u64 << (8 * addr_size as u32)) - 1)
    }
}

/// value part of an encoded pointer (format nibble), sign-extended to u64
fn rd_encoded_value(d: &[u8], o: &mut usize, enc: u8, addr_size: u8, le: bool) -> Option<u64> {
    Some(match enc & 0x0f {
        0x00 => {
            let v = match addr_size {
                4 => rd_u32(d, *o, le)?,
                8 => rd_u64(d, *o, le)?,
                2 => rd_u16(d, *o, le)?,
                _ => return None,
            };
            *o += addr_size as usize;
            v
        }
        0x01 => rd_uleb(d, o)?,
        0x02 => {
            let v = rd_u16(d, *o, le)?;
            *o += 2;
            v
        }
        0x03 => {
            let v = rd_u32(d, *o, le)?;
            *o += 4;
            v
        }
        0x04 => {
            let v = rd_u64(d, *o, le)?;
            *o += 8;
            v
        }
        0x09 => rd_sleb(d, o)? as u64,
        0x0a => {
            let v = rd_u16(d, *o, le)? as u16 as i16 as i64 as u64;
            *o += 2;
            v
        }
        0x0b => {
            let v = rd_u32(d, *o, le)? as u32 as i32 as i64 as u64;
            *o += 4;
            v
        }
        0x0c => {
            let v = rd_u64(d, *o, le)?;
            *o += 8;
            v
        }
        _ => return None,
    })
}

/// `None` = a construct this reader does not support (the fixture then stays a judge-only case)
fn rd_encoded_pointer(d: &[u8], o: &mut usize, enc: u8, sec_addr: u64, text_addr: u64, addr_size: u8, le: bool) -> Option<u64> {
    if enc == 0xff || enc & 0x80 != 0 {
        return None;
    }
    let base = match enc & 0x70 {
        0x00 => 0,
        0x10 => mask(sec_addr.wrapping_add(*o as u64), addr_size),
        0x20 => text_addr,
        _ => return None,
    };
    let v = rd_encoded_value(d, o, enc, addr_size, le)?;
    Some(mask(base.wrapping_add(v), addr_size))
}

/// (initial address, length) of every FDE of an `.eh_frame` section, in section order.
pub fn eh_frame_fdes(d: &[u8], sec_addr: u64, text_addr: u64, addr_size: u8, le: bool) -> Option<Vec<(u64, u64)>> {
    let mut out = Vec::new();
    let mut cies: std::collections::BTreeMap<usize, u8> = std::collections::BTreeMap::new(); // offset -> FDE pointer encoding
    let mut pos = 0usize;
    while pos < d.len() {
        let start = pos;
        let mut len = rd_u32(d, pos, le)?;
        pos += 4;
        if len == 0 {
            break; // terminator
        }
        let mut id_size = 4usize;
        if len == 0xffff_ffff {
            len = rd_u64(d, pos, le)?;
            pos += 8;
            id_size = 8;
        }
        let body = pos;
        let end = body.checked_add(usize::try_from(len).ok()?)?;
        if end > d.len() {
            return None;
        }
        let id = if id_size == 4 { rd_u32(d, pos, le)? } else { rd_u64(d, pos, le)? };
        let id_field = pos;
        pos += id_size;
        if id == 0 {
            // CIE
            let version = *d.get(pos)?;
            pos += 1;
            if version != 1 && version != 3 {
                return None;
            }
            let aug_start = pos;
            while *d.get(pos)? != 0 {
                pos += 1;
            }
            let aug: Vec<u8> = d[aug_start..pos].to_vec();
            pos += 1;
            if aug.starts_with(b"eh") {
                return None;
            }
            rd_uleb(d, &mut pos)?;
            rd_sleb(d, &mut pos)?;
            if version == 1 {
                pos += 1;
            } else {
                rd_uleb(d, &mut pos)?;
            }
            let mut fde_enc = 0u8;
            if aug.first() == Some(&b'z') {
                rd_uleb(d, &mut pos)?;
                for &c in &aug[1..] {
                    match c {
                        b'R' => {
                            fde_enc = *d.get(pos)?;
                            pos += 1;
                        }
                        b'P' => {
                            let enc = *d.get(pos)?;
                            pos += 1;
                            rd_encoded_pointer(d, &mut pos, enc & 0x7f, sec_addr, text_addr, addr_size, le)?;
                        }
                        b'L' => pos += 1,
                        b'S' | b'B' | b'G' => {}
                        _ => return None,
                    }
                }
            } else if !aug.is_empty() {
                return None;
            }
            cies.insert(start, fde_enc);
        } else {
            // FDE: the CIE pointer is relative to its own field
            let cie_off = (id_field as u64).checked_sub(id)? as usize;
            let enc = *cies.get(&cie_off)?;
            let initial = rd_encoded_pointer(d, &mut pos, enc, sec_addr, text_addr, addr_size, le)?;
            let range = rd_encoded_value(d, &mut pos, enc & 0x0f, addr_size, le)?;
            out.push((initial, range));
        }
        pos = end;
    }
    Some(out)
}

/// start addresses of the functions of a Mach-O `__unwind_info` section (little endian), page by page; the last
/// first-level entry is the sentinel.
pub fn unwind_info_starts(d: &[u8]) -> Option<Vec<u32>> {
    let le = true;
    let index_off = rd_u32(d, 20, le)? as usize;
    let index_count = rd_u32(d, 24, le)? as usize;
    // the same bounds checks the header parse makes (opcodes array, index array)
    let enc_off = rd_u32(d, 4, le)? as usize;
    let enc_count = rd_u32(d, 8, le)? as usize;
    if enc_off.checked_add(enc_count.checked_mul(4)?)? > d.len() || index_off.checked_add(index_count.checked_mul(12)?)? > d.len() {
        return None;
    }
    let mut out = Vec::new();
    for i in 0..index_count.saturating_sub(1) {
        let e = index_off + 12 * i;
        let page_addr = rd_u32(d, e, le)? as u32;
        let page_off = rd_u32(d, e + 4, le)? as usize;
        let kind = rd_u32(d, page_off, le)?;
        match kind {
            2 => {
                let entry_off = rd_u16(d, page_off + 4, le)? as usize;
                let count = rd_u16(d, page_off + 6, le)? as usize;
                for k in 0..count {
                    out.push(rd_u32(d, page_off + entry_off + 8 * k, le)? as u32);
                }
            }
            3 => {
                let entry_off = rd_u16(d, page_off + 4, le)? as usize;
                let count = rd_u16(d, page_off + 6, le)? as usize;
                for k in 0..count {
                    let v = rd_u32(d, page_off + entry_off + 4 * k, le)? as u32;
                    out.push(page_addr.wrapping_add(v & 0x00ff_ffff));
                }
            }
            _ => return Some(out), // the iterator of the crate stops with an error here
        }
    }
    Some(out)
}

/// file offset of the LC_FUNCTION_STARTS load command of a thin little-endian Mach-O file (its `datasize` field is
/// at +12)
pub fn macho_function_starts_cmd(bytes: &[u8]) -> Option<usize> {
    macho_load_cmd(bytes, 0x26)
}

/// file offset of the first load command `want` (LC_SYMTAB = 2: its `nsyms` field is at +12)
pub fn macho_load_cmd(bytes: &[u8], want: u32) -> Option<usize> {
    let hdr = match rd_u32(bytes, 0, true)? {
        0xfeedface => 28usize,
        0xfeedfacf => 32usize,
        _ => return None,
    };
    let ncmds = rd_u32(bytes, 16, true)? as usize;
    let mut pos = hdr;
    for _ in 0..ncmds {
        let cmd = rd_u32(bytes, pos, true)?;
        let size = rd_u32(bytes, pos + 4, true)? as usize;
        if size < 8 {
            return None;
        }
        if cmd == want as u64 {
            return Some(pos);
        }
        pos += size;
    }
    None
}

/// `fpatch <offset> <hex>` lines: bytes of the fixture that are overwritten before it is loaded (derived fixtures)
pub fn apply_patches(bytes: &[u8], ops: &[String]) -> Vec<u8> {
    let mut v = bytes.to_vec();
    for l in ops {
        let w: Vec<&str> = l.split_whitespace().collect();
        if w.len() == 3 && w[0] == "fpatch" {
            if let Ok(off) = w[1].parse::<usize>() {
                let data = crate::common::unhex(w[2]);
                if off + data.len() <= v.len() {
                    v[off..off + data.len()].copy_from_slice(&data);
                }
            }
        }
    }
    v
}

/// the bytes of the LC_FUNCTION_STARTS load command of a (thin, little-endian) Mach-O file
pub fn macho_function_starts_data(bytes: &[u8]) -> Option<Option<&[u8]>> {
    let magic = rd_u32(bytes, 0, true)?;
    let hdr = match magic {
        0xfeedface => 28usize,
        0xfeedfacf => 32usize,
        _ => return None,
    };
    let ncmds = rd_u32(bytes, 16, true)? as usize;
    let mut pos = hdr;
    for _ in 0..ncmds {
        let cmd = rd_u32(bytes, pos, true)?;
        let size = rd_u32(bytes, pos + 4, true)? as usize;
        if size < 8 {
            return None;
        }
        if cmd == 0x26 {
            let off = rd_u32(bytes, pos + 8, true)? as usize;
            let len = rd_u32(bytes, pos + 12, true)? as usize;
            return Some(bytes.get(off..off.checked_add(len)?));
        }
        pos += size;
    }
    Some(None)
}

/// The description lines of one object file; `None` = not a file this reader handles (fat archive, unsupported
/// `.eh_frame` construct, big-endian Mach-O).
pub fn presentation(bytes: &[u8], tag: &str) -> Option<Vec<String>> {
    let file = object::File::parse(bytes).ok()?;
    let mut out = Vec::new();
    let is_elf = matches!(file.flags(), object::FileFlags::Elf { .. });
    out.push(format!("felf {}", is_elf as u8));
    out.push(format!("fobjbase {}", file.relative_address_base()));
    out.push(format!("fentry {}", file.entry()));
    for s in file.segments() {
        let name = match s.name() {
            Ok(Some(n)) => hex(n.as_bytes()),
            _ => "-".to_string(),
        };
        let (off, size) = s.file_range();
        out.push(format!("fseg {name} {} {off} {size}", s.address()));
    }
    for s in file.sections() {
        let kind = match s.kind() {
            SectionKind::Text => "T",
            SectionKind::UninitializedData => "U",
            _ => "O",
        };
        let exec = match s.flags() {
            SectionFlags::Elf { sh_flags } => sh_flags & u64::from(object::elf::SHF_EXECINSTR) != 0,
            _ => false,
        };
        let (off, fsize) = match s.file_range() {
            Some((o, z)) => (o.to_string(), z),
            None => ("-".to_string(), 0),
        };
        out.push(format!("fsec {} {kind} {} {} {} {off} {fsize}", s.index().0, exec as u8, s.address(), s.size()));
    }
    let mut sym_line = |table: &str, s: &object::Symbol<'_, '_>| {
        if s.address() == 0 {
            return; // dropped by the first filter of SymbolList::new (and by the end-address pass)
        }
        let kind = match s.kind() {
            SymbolKind::Text => "t",
            SymbolKind::Label => "l",
            _ => "o",
        };
        let sect = s.section_index().map(|i| i.0.to_string()).unwrap_or_else(|| "-".to_string());
        let name = s.name_bytes().map(hex).unwrap_or_else(|_| "!".to_string());
        out.push(format!("fsym {table} {kind} {sect} {} {} {name}", s.address(), s.size()));
    };
    for s in file.symbols() {
        sym_line("s", &s);
    }
    for s in file.dynamic_symbols() {
        sym_line("d", &s);
    }
    match file.exports() {
        Ok(exports) => {
            for e in exports {
                out.push(format!("fexp {} {}", e.address(), hex(e.name())));
            }
        }
        Err(_) => out.push("fexports-none".to_string()),
    }
    match tag {
        "elf" => {
            if let Some(eh) = file.section_by_name(".eh_frame") {
                if let Ok(data) = eh.uncompressed_data() {
                    out.push("feh".to_string());
                    let text = file.section_by_name(".text").map(|s| s.address()).unwrap_or(0);
                    let addr_size = file.architecture().address_size().map(|a| a.bytes()).unwrap_or(8);
                    for (a, l) in eh_frame_fdes(&data, eh.address(), text, addr_size, file.is_little_endian())? {
                        out.push(format!("ffde {a} {l}"));
                    }
                }
            }
        }
        "pe" => {
            if let Some(data) = file.section_by_name_bytes(b".pdata").and_then(|s| s.data().ok()) {
                out.push(if data.is_empty() { "fpdata".to_string() } else { format!("fpdata {}", hex(data)) });
            }
        }
        "macho" | "dsym" => {
            if !file.is_little_endian() {
                return None;
            }
            if let Some(data) = macho_function_starts_data(bytes)? {
                out.push(if data.is_empty() { "fstartsraw".to_string() } else { format!("fstartsraw {}", hex(data)) });
            }
            if let Some(data) = file.section_by_name_bytes(b"__unwind_info").and_then(|s| s.data().ok()) {
                // `UnwindInfo::parse` = three bounds checks on the header
                if let Some(starts) = unwind_info_starts(data) {
                    out.push("funwind-present".to_string());
                    for chunk in starts.chunks(256) {
                        out.push(format!("funwind {}", chunk.iter().map(|a| a.to_string()).collect::<Vec<_>>().join(" ")));
                    }
                }
            }
        }
        _ => return None,
    }
    Some(out)
}
