//! Handle-directed generator of profile-building API call sequences (C03; protocol in
//! `lean/SamplyModel/Iface/C03.lean`). The generator keeps only the *kinds and owners* of the handles
//! it obtained (register names), never their values, and draws every literal from small pools so that
//! strings, frames, stacks, libraries, pids, tids and start times repeat and collide.
use crate::common::*;

/// formats of the harness's static-schema marker types (u = unique-string, s = other string
/// kind, n = number); mirrored by `PT.staticSchema` in the Lean model
pub const STATIC_FORMATS: [&str; 4] = ["u", "unsnu", "", "sunsn"];

/// is the format letter of the `mtype` op a string-kind format? (u String, U|s Url, P FilePath, Z SanitizedString)
pub fn is_string_format(ch: char) -> bool {
    matches!(ch, 'u' | 'U' | 's' | 'P' | 'Z')
}
/// all format letters: the 14 `MarkerFieldFormat`s (+ the two aliases of the first round)
pub const FORMAT_LETTERS: &str = "uUsPZDTSMCNBpind";

const STRS: [&str; 12] = ["a", "b", "main", "libfoo", "0x10", "0x1f", "f", "sym1", "", "0x2a", "Other", "libbar"];
// `#<variant>`: same name and path, different debug id / code id / arch / debug name (two builds of one library)
const LIBS: [&str; 13] = [
    "libfoo", "libbar", "main", "a", "v1/libfoo", "v2/libfoo", "x/a", "libfoo#d1", "libfoo#d2", "libfoo#c1", "libfoo#a1",
    "libfoo#n1", "v1/libfoo#d1c2",
];
const CATS: [(&str, u64); 5] = [("Other", 12), ("Regular", 5), ("JS", 8), ("Other", 5), ("StCat", 6)];
const SUBS: [&str; 4] = ["Other", "x", "y", "JIT"];
const PIDS: [u64; 6] = [1, 1, 2, 9, 10, 100];
const TIDS: [u64; 7] = [1, 1, 2, 2, 9, 10, 77];
const STARTS: [u64; 6] = [0, 0, 5, 10, 10, 3];
const NAMES: [&str; 5] = ["a", "b", "a", "worker", ""];

struct P {
    reg: String,
    threads: Vec<usize>,
}
struct T {
    reg: String,
    proc_: usize,
    frames: Vec<String>,
    stacks: Vec<String>,
    nsyms: Vec<(String, usize)>,
    markers: Vec<String>,
    time: u64,
}

struct G<'a> {
    rng: &'a mut Rng,
    ops: Vec<String>,
    procs: Vec<P>,
    threads: Vec<T>,
    libs: Vec<String>,
    strs: Vec<String>,
    cats: Vec<String>,
    subs: Vec<String>,
    mtypes: Vec<(String, String)>,
    counters: Vec<String>,
    n: usize,
    allow_foreign_alloc: bool,
    allow_threadless_counter: bool,
    allow_rejected: bool,
    unordered_times: bool,
}

fn hx(s: &str) -> String {
    hex(s.as_bytes())
}

impl<'a> G<'a> {
    fn reg(&mut self, prefix: &str) -> String {
        self.n += 1;
        format!("{prefix}{}", self.n)
    }
    fn push(&mut self, s: String) {
        self.ops.push(s);
    }
    fn pick_idx(&mut self, n: usize) -> usize {
        self.rng.below(n as u64) as usize
    }

    fn add_process(&mut self) -> usize {
        let r = self.reg("p");
        let pid = *self.rng.pick(&PIDS);
        let start = *self.rng.pick(&STARTS);
        let name = *self.rng.pick(&NAMES);
        self.push(format!("process {r} {pid} {start} {}", hx(name)));
        self.procs.push(P { reg: r, threads: vec![] });
        self.procs.len() - 1
    }
    fn add_thread(&mut self, p: usize) -> usize {
        let r = self.reg("t");
        let tid = *self.rng.pick(&TIDS);
        let start = *self.rng.pick(&STARTS);
        // most processes get exactly one main thread, first; sometimes none / several / late
        let main = if self.procs[p].threads.is_empty() { !self.rng.chance(1, 5) } else { self.rng.chance(1, 6) };
        let preg = self.procs[p].reg.clone();
        self.push(format!("thread {r} {preg} {tid} {start} {}", main as u8));
        self.threads.push(T { reg: r, proc_: p, frames: vec![], stacks: vec![], nsyms: vec![], markers: vec![], time: 0 });
        let ti = self.threads.len() - 1;
        self.procs[p].threads.push(ti);
        ti
    }
    fn any_thread(&mut self) -> usize {
        if self.threads.is_empty() {
            if self.procs.is_empty() {
                self.add_process();
            }
            let p = self.pick_idx(self.procs.len());
            return self.add_thread(p);
        }
        // favour a few "hot" threads so that their tables grow
        if self.rng.chance(2, 3) {
            let k = self.threads.len().min(2);
            self.pick_idx(k)
        } else {
            self.pick_idx(self.threads.len())
        }
    }
    fn a_string(&mut self) -> String {
        if !self.strs.is_empty() && self.rng.chance(2, 3) {
            let i = self.pick_idx(self.strs.len());
            return self.strs[i].clone();
        }
        let r = self.reg("s");
        let s = *self.rng.pick(&STRS);
        self.push(format!("string {r} {}", hx(s)));
        self.strs.push(r.clone());
        r
    }
    fn a_lib(&mut self) -> usize {
        if !self.libs.is_empty() && self.rng.chance(3, 4) {
            return self.pick_idx(self.libs.len());
        }
        let r = self.reg("l");
        let name = *self.rng.pick(&LIBS);
        self.push(format!("lib {r} {}", hx(name)));
        self.libs.push(r);
        self.libs.len() - 1
    }
    fn a_cat(&mut self) -> String {
        if !self.cats.is_empty() && self.rng.chance(2, 3) {
            let i = self.pick_idx(self.cats.len());
            return self.cats[i].clone();
        }
        let r = self.reg("c");
        let (name, color) = *self.rng.pick(&CATS);
        self.push(format!("cat {r} {} {color}", hx(name)));
        self.cats.push(r.clone());
        r
    }
    fn subcat_spec(&mut self) -> String {
        match self.rng.below(10) {
            0..=2 => "o".to_string(),
            3..=4 => format!("c:{}", self.a_cat()),
            5..=6 => {
                if !self.subs.is_empty() && self.rng.chance(1, 2) {
                    let i = self.pick_idx(self.subs.len());
                    format!("s:{}", self.subs[i])
                } else {
                    let c = self.a_cat();
                    let r = self.reg("sc");
                    let name = *self.rng.pick(&SUBS);
                    self.push(format!("subcat {r} {c} {}", hx(name)));
                    self.subs.push(r.clone());
                    format!("s:{r}")
                }
            }
            7..=8 => {
                let (name, color) = *self.rng.pick(&CATS);
                format!("C:{}:{color}", hx(name))
            }
            _ => {
                let (name, color) = *self.rng.pick(&CATS);
                let sub = *self.rng.pick(&SUBS);
                format!("S:{}:{color}:{}", hx(name), hx(sub))
            }
        }
    }
    fn flags(&mut self) -> u64 {
        if self.rng.chance(3, 4) {
            0
        } else {
            self.rng.below(4)
        }
    }
    fn opt_small(&mut self) -> String {
        if self.rng.chance(1, 2) {
            "-".into()
        } else {
            self.rng.below(4).to_string()
        }
    }
    fn addr_kind(&mut self) -> &'static str {
        *self.rng.pick(&["ip", "ra", "ara"])
    }
    fn abs_address(&mut self) -> u64 {
        match self.rng.below(6) {
            0 => 0,
            1 => *self.rng.pick(&[16, 32, 48, 64, 100, 15, 31, 47, 63, 65, 80, 96, 112, 150]),
            _ => self.rng.below(200),
        }
    }

    fn add_mapping(&mut self) {
        if self.procs.is_empty() {
            self.add_process();
        }
        let p = self.pick_idx(self.procs.len());
        let l = self.a_lib();
        let start = *self.rng.pick(&[16u64, 32, 48, 64, 100]);
        let len = *self.rng.pick(&[1u64, 16, 32, 50]);
        let rel = *self.rng.pick(&[0u64, 16, 1000]);
        let (preg, lreg) = (self.procs[p].reg.clone(), self.libs[l].clone());
        self.push(format!("map {preg} {lreg} {start} {} {rel}", start + len));
        // kernel mappings (global, consulted before the process's): over the same small address pool, so that they
        // shadow / are shadowed by process mappings of the same range
        if self.rng.chance(1, 5) {
            let kl = self.a_lib();
            let ks = *self.rng.pick(&[16u64, 32, 48, 64, 100]);
            let klen = *self.rng.pick(&[1u64, 16, 32]);
            let klreg = self.libs[kl].clone();
            let krel = *self.rng.pick(&[0u64, 8, 1000]);
            self.push(format!("kmap {klreg} {ks} {} {krel}", ks + klen));
            if self.rng.chance(1, 3) {
                let ku = if self.rng.chance(3, 4) { ks } else { 32 };
                self.push(format!("kunmap {ku}"));
            }
        }
        // remove_lib_mapping / clear_process_lib_mappings: at a start address that is (usually) mapped, so that a
        // later absolute-address frame falls into the hole and the removed library may stay unused
        if self.rng.chance(1, 4) {
            let s = if self.rng.chance(3, 4) { start } else { *self.rng.pick(&[16u64, 32, 48, 64, 100, 17]) };
            self.push(format!("unmap {preg} {s}"));
        } else if self.rng.chance(1, 12) {
            self.push(format!("clearmaps {preg}"));
        }
    }
    fn add_symtab(&mut self) {
        let l = self.a_lib();
        let n = self.rng.range(1, 4);
        let mut a = self.rng.below(20);
        let mut syms = Vec::new();
        for _ in 0..n {
            let size = if self.rng.chance(1, 3) { "-".to_string() } else { self.rng.range(1, 30).to_string() };
            let name = *self.rng.pick(&STRS);
            syms.push(format!("{a}:{size}:{}", hx(name)));
            a += self.rng.range(1, 40);
        }
        let lreg = self.libs[l].clone();
        self.push(format!("libsyms {lreg} {}", syms.join(" ")));
    }

    /// creates a frame on thread `t`; returns its register
    fn a_frame(&mut self, t: usize, fresh_bias: bool) -> String {
        let nf = self.threads[t].frames.len();
        if nf > 0 && !(fresh_bias && self.rng.chance(1, 2)) && self.rng.chance(1, 2) {
            let i = self.pick_idx(nf);
            return self.threads[t].frames[i].clone();
        }
        let treg = self.threads[t].reg.clone();
        let r = self.reg("f");
        match self.rng.below(12) {
            0..=3 => {
                let s = self.a_string();
                let sc = self.subcat_spec();
                let fl = self.flags();
                self.push(format!("flabel {r} {treg} {s} {sc} {fl}"));
            }
            4 => {
                let s = self.a_string();
                let file = if self.rng.chance(2, 3) { self.a_string() } else { "-".into() };
                let (line, col) = (self.opt_small(), self.opt_small());
                let sc = self.subcat_spec();
                let fl = self.flags();
                self.push(format!("flabelsrc {r} {treg} {s} {file} {line} {col} {sc} {fl}"));
            }
            5..=6 => {
                let k = self.addr_kind();
                let a = self.abs_address();
                let sc = self.subcat_spec();
                let fl = self.flags();
                self.push(format!("faddr {r} {treg} {k} {a} {sc} {fl}"));
            }
            7..=8 => {
                let k = self.addr_kind();
                let l = self.a_lib();
                let lreg = self.libs[l].clone();
                let a = self.rng.below(64);
                let sc = self.subcat_spec();
                let fl = self.flags();
                self.push(format!("frel {r} {treg} {k} {lreg} {a} {sc} {fl}"));
            }
            _ => {
                // symbolicated native frame, possibly an inline frame of an existing native symbol
                let ns = self.a_nsym(t);
                let (kind, l, a) = if self.rng.chance(2, 3) {
                    let l = self.a_lib();
                    ("rel", self.libs[l].clone(), self.rng.below(64))
                } else {
                    ("abs", "-".to_string(), self.abs_address())
                };
                let k = self.addr_kind();
                let name = if self.rng.chance(1, 2) { self.a_string() } else { "-".into() };
                let file = if self.rng.chance(1, 3) { self.a_string() } else { "-".into() };
                let (line, col) = (self.opt_small(), self.opt_small());
                let depth = if self.rng.chance(1, 2) { 0 } else { self.rng.range(1, 3) };
                let sc = self.subcat_spec();
                let fl = self.flags();
                self.push(format!("fsym {r} {treg} {kind} {k} {l} {a} {name} {ns} {file} {line} {col} {depth} {sc} {fl}"));
            }
        }
        self.threads[t].frames.push(r.clone());
        r
    }
    fn a_nsym(&mut self, t: usize) -> String {
        let n = self.threads[t].nsyms.len();
        if n > 0 && self.rng.chance(1, 2) {
            let i = self.pick_idx(n);
            return self.threads[t].nsyms[i].0.clone();
        }
        let treg = self.threads[t].reg.clone();
        let l = self.a_lib();
        let lreg = self.libs[l].clone();
        let r = self.reg("n");
        let a = self.rng.below(6) * 10;
        let size = if self.rng.chance(1, 3) { "-".to_string() } else { self.rng.range(1, 30).to_string() };
        let name = *self.rng.pick(&STRS);
        self.push(format!("nsym {r} {treg} {lreg} {a} {size} {}", hx(name)));
        self.threads[t].nsyms.push((r.clone(), l));
        r
    }
    /// creates (or reuses) a stack on thread `t`
    fn a_stack(&mut self, t: usize) -> String {
        let ns = self.threads[t].stacks.len();
        if ns > 0 && self.rng.chance(1, 3) {
            let i = self.pick_idx(ns);
            return self.threads[t].stacks[i].clone();
        }
        let treg = self.threads[t].reg.clone();
        let r = self.reg("k");
        if self.rng.chance(1, 2) {
            let f = self.a_frame(t, false);
            let parent = if ns > 0 && self.rng.chance(3, 4) {
                let i = self.pick_idx(ns);
                self.threads[t].stacks[i].clone()
            } else {
                "-".into()
            };
            self.push(format!("stack {r} {treg} {f} {parent}"));
        } else {
            let n = match self.rng.below(10) {
                0 => 0,
                1..=6 => self.rng.range(1, 4),
                _ => self.rng.range(5, 12),
            };
            let mut fs = Vec::new();
            for _ in 0..n {
                fs.push(self.a_frame(t, false));
            }
            self.push(format!("stackframes {r} {treg} {}", fs.join(" ")).trim_end().to_string());
        }
        self.threads[t].stacks.push(r.clone());
        r
    }
    fn next_time(&mut self, t: usize) -> u64 {
        if self.unordered_times && self.rng.chance(1, 3) {
            // distinct, out of order (the serializer's unstable sort is then deterministic)
            let v = 1_000_000 - self.threads[t].time - self.rng.below(5) * 1000 - self.ops.len() as u64;
            return v;
        }
        self.threads[t].time += self.rng.below(3);
        self.threads[t].time
    }
    fn opt_stack(&mut self, t: usize) -> String {
        if self.rng.chance(1, 6) {
            "-".into()
        } else {
            self.a_stack(t)
        }
    }
    fn add_sample(&mut self) {
        let t = self.any_thread();
        let st = self.opt_stack(t);
        let treg = self.threads[t].reg.clone();
        let time = self.next_time(t);
        match self.rng.below(8) {
            0 => self.push(format!("samesample {treg} {time}")),
            1..=2 => self.push(format!("sample {treg} {time} {st} 1")),
            _ => self.push(format!("sample {treg} {time} {st} 0")),
        }
    }
    fn add_alloc(&mut self) {
        let t = self.any_thread();
        let p = self.threads[t].proc_;
        let first = self.procs[p].threads[0];
        let time = self.next_time(t);
        let treg = self.threads[t].reg.clone();
        if t == first || (self.allow_foreign_alloc && self.rng.chance(2, 3)) {
            let st = self.opt_stack(t);
            let foreign = (t != first && st != "-" && !self.stack_may_be_none(&st)) as u8;
            // a register holding `h none` (empty stackframes) passes no stack: not a foreign use
            self.push(format!("allocsample {treg} {time} {st} foreign={foreign}"));
        } else {
            self.push(format!("allocsample {treg} {time} - foreign=0"));
        }
    }
    /// was this stack register defined by an empty `stackframes` (value none)?
    fn stack_may_be_none(&self, reg: &str) -> bool {
        self.ops.iter().any(|l| {
            let w: Vec<&str> = l.split_whitespace().collect();
            w.len() == 3 && w[0] == "stackframes" && w[1] == reg
        })
    }
    fn add_mtype(&mut self) -> usize {
        let r = self.reg("mt");
        let c = self.a_cat();
        // half of the schemas: a fixed small word; the other half: 1-6 letters over all 14 formats, with the
        // string-kind formats other than String (FilePath, SanitizedString, Url) over-represented next to String
        let fmt: String = if self.rng.chance(1, 2) {
            self.rng.pick(&["-", "u", "s", "n", "us", "nu", "unsnu", "uu", "sn", "uP", "Zu", "PZU", "uDZTu"]).to_string()
        } else {
            let n = 1 + self.pick_idx(6);
            (0..n)
                .map(|_| {
                    let pool: &[u8] = if self.rng.chance(1, 2) { b"uPZUu" } else { FORMAT_LETTERS.as_bytes() };
                    pool[self.rng.below(pool.len() as u64) as usize] as char
                })
                .collect()
        };
        let name = format!("rt{}", self.mtypes.len());
        self.push(format!("mtype {r} {} {c} {fmt}", hx(&name)));
        self.mtypes.push((r, if fmt == "-" { String::new() } else { fmt }));
        self.mtypes.len() - 1
    }
    fn add_marker(&mut self) {
        let t = self.any_thread();
        let treg = self.threads[t].reg.clone();
        let (spec, fmt) = if self.rng.chance(1, 2) {
            let k = self.pick_idx(STATIC_FORMATS.len());
            (format!("st:{k}"), STATIC_FORMATS[k].to_string())
        } else {
            let i = if !self.mtypes.is_empty() && self.rng.chance(2, 3) { self.pick_idx(self.mtypes.len()) } else { self.add_mtype() };
            (format!("rt:{}", self.mtypes[i].0), self.mtypes[i].1.clone())
        };
        let name = self.a_string();
        let mut args = Vec::new();
        for ch in fmt.chars() {
            if is_string_format(ch) {
                args.push(self.a_string());
            }
        }
        // all four `MarkerTiming` variants (no suffix = Instant, as in the first round's corpus)
        let spec = format!("{spec}{}", self.rng.pick(&["", ":i", ":v", ":s", ":e", ":v", ":e"]));
        let r = self.reg("m");
        self.push(format!("marker {r} {treg} {spec} {name} {}", args.join(" ")).trim_end().to_string());
        self.threads[t].markers.push(r.clone());
        if self.rng.chance(1, 2) {
            let st = self.opt_stack(t);
            self.push(format!("mstack {treg} {r} {st}"));
        }
    }
    fn set_marker_stack(&mut self) {
        let t = self.any_thread();
        if self.threads[t].markers.is_empty() {
            return self.add_marker();
        }
        let i = self.pick_idx(self.threads[t].markers.len());
        let m = self.threads[t].markers[i].clone();
        let st = self.opt_stack(t);
        let treg = self.threads[t].reg.clone();
        self.push(format!("mstack {treg} {m} {st}"));
    }
    fn add_counter(&mut self) {
        if self.procs.is_empty() {
            self.add_process();
        }
        let cands: Vec<usize> =
            (0..self.procs.len()).filter(|p| self.allow_threadless_counter || !self.procs[*p].threads.is_empty()).collect();
        if cands.is_empty() {
            return;
        }
        let p = *self.rng.pick(&cands);
        let r = self.reg("ctr");
        let preg = self.procs[p].reg.clone();
        self.push(format!("counter {r} {preg}"));
        self.counters.push(r);
    }
    fn counter_sample(&mut self) {
        if self.counters.is_empty() {
            return self.add_counter();
        }
        let i = self.pick_idx(self.counters.len());
        let c = self.counters[i].clone();
        let time = self.ops.len() as u64;
        self.push(format!("csample {c} {time}"));
    }
    fn thread_meta(&mut self) {
        let t = self.any_thread();
        let treg = self.threads[t].reg.clone();
        match self.rng.below(6) {
            0 => {
                let tid = *self.rng.pick(&TIDS);
                self.push(format!("settid {treg} {tid}"))
            }
            1..=2 => {
                let name = *self.rng.pick(&NAMES);
                self.push(format!("setname {treg} {}", hx(name)))
            }
            3 => {
                let s = *self.rng.pick(&STARTS);
                self.push(format!("setstart {treg} {s}"))
            }
            4 => {
                let p = self.threads[t].proc_;
                let preg = self.procs[p].reg.clone();
                let s = *self.rng.pick(&STARTS);
                self.push(format!("setpstart {preg} {s}"))
            }
            _ => {
                let p = self.threads[t].proc_;
                let preg = self.procs[p].reg.clone();
                let name = *self.rng.pick(&NAMES);
                self.push(format!("setpname {preg} {}", hx(name)))
            }
        }
    }
    fn visible_selected(&mut self) {
        let t = self.any_thread();
        let t = if self.rng.chance(1, 2) { self.pick_idx(self.threads.len()) } else { t };
        let treg = self.threads[t].reg.clone();
        if self.rng.chance(1, 2) {
            self.push(format!("visible {treg}"))
        } else {
            self.push(format!("selected {treg}"))
        }
    }

    /// a use of a handle with a thread that did not produce it (the real code asserts / indexes)
    fn rejected_use(&mut self) {
        if self.threads.len() < 2 {
            let p = if self.procs.is_empty() { self.add_process() } else { self.pick_idx(self.procs.len()) };
            self.add_thread(p);
            if self.threads.len() < 2 {
                self.add_thread(p);
            }
        }
        let a = self.pick_idx(self.threads.len());
        let mut b = self.pick_idx(self.threads.len());
        if a == b {
            b = (a + 1) % self.threads.len();
        }
        let (areg, breg) = (self.threads[a].reg.clone(), self.threads[b].reg.clone());
        let r = self.reg("x");
        match self.rng.below(7) {
            0 => {
                let f = self.a_frame(a, false);
                self.push(format!("stack {r} {breg} {f} -"));
            }
            1 => {
                let k = self.a_stack(a);
                let f = self.a_frame(b, false);
                self.push(format!("stack {r} {breg} {f} {k}"));
            }
            2 => {
                let k = self.a_stack(a);
                if !self.stack_may_be_none(&k) {
                    self.push(format!("sample {breg} 5 {k} 0"));
                }
            }
            3 => {
                // foreign frame in the middle of a frame list: the rows before it stay interned
                let f1 = self.a_frame(b, true);
                let f2 = self.a_frame(a, false);
                let f3 = self.a_frame(b, true);
                self.push(format!("stackframes {r} {breg} {f1} {f2} {f3}"));
            }
            4 => {
                let ns = self.a_nsym(a);
                let l = self.a_lib();
                let lreg = self.libs[l].clone();
                self.push(format!("fsym {r} {breg} rel ip {lreg} 3 - {ns} - - - 0 o 0"));
            }
            5 => {
                // MarkerHandle carries no thread: out of range on the other thread panics, in range
                // silently addresses that thread's marker
                if self.threads[a].markers.is_empty() {
                    return;
                }
                let i = self.pick_idx(self.threads[a].markers.len());
                let m = self.threads[a].markers[i].clone();
                let st = self.opt_stack(b);
                self.push(format!("mstack {breg} {m} {st}"));
            }
            _ => {
                let k = self.a_stack(a);
                if self.threads[b].markers.is_empty() || self.stack_may_be_none(&k) {
                    return;
                }
                let i = self.pick_idx(self.threads[b].markers.len());
                let m = self.threads[b].markers[i].clone();
                self.push(format!("mstack {breg} {m} {k}"));
            }
        }
        let _ = areg;
    }

    fn act(&mut self) {
        let roll = self.rng.below(100);
        match roll {
            0..=3 => {
                self.add_process();
            }
            4..=9 => {
                if self.procs.is_empty() {
                    self.add_process();
                }
                let p = self.pick_idx(self.procs.len());
                self.add_thread(p);
            }
            10..=13 => self.thread_meta(),
            14..=17 => self.add_mapping(),
            18..=19 => self.add_symtab(),
            20..=34 => {
                let t = self.any_thread();
                self.a_frame(t, true);
            }
            35..=49 => {
                let t = self.any_thread();
                self.a_stack(t);
            }
            50..=64 => self.add_sample(),
            65..=70 => self.add_alloc(),
            71..=80 => self.add_marker(),
            81..=84 => self.set_marker_stack(),
            85..=87 => self.add_counter(),
            88..=89 => self.counter_sample(),
            90..=93 => self.visible_selected(),
            94..=95 => {
                self.a_string();
            }
            96..=97 => {
                self.subcat_spec();
            }
            _ => {
                if self.allow_rejected {
                    self.rejected_use()
                } else {
                    self.add_sample()
                }
            }
        }
    }
}

pub fn generate(rng: &mut Rng, _tier: Tier, _index: u64) -> Vec<String> {
    let allow_foreign_alloc = rng.chance(1, 20);
    let allow_threadless_counter = rng.chance(1, 30);
    let allow_rejected = rng.chance(1, 4);
    let unordered_times = rng.chance(1, 4);
    let flavour = rng.below(4);
    let len = if rng.chance(1, 10) { rng.range(100, 250) } else { rng.range(3, 60) };
    let mut g = G {
        rng,
        ops: vec![],
        procs: vec![],
        threads: vec![],
        libs: vec![],
        strs: vec![],
        cats: vec![],
        subs: vec![],
        mtypes: vec![],
        counters: vec![],
        n: 0,
        allow_foreign_alloc,
        allow_threadless_counter,
        allow_rejected,
        unordered_times,
    };
    // prologue: the layout of processes and threads
    let nproc = match flavour {
        0 => g.rng.range(2, 5),
        1 => 1,
        _ => g.rng.range(1, 3),
    };
    for _ in 0..nproc {
        let p = g.add_process();
        let nt = match flavour {
            0 => g.rng.range(0, 4),
            1 => g.rng.range(1, 2),
            _ => g.rng.range(0, 3),
        };
        for _ in 0..nt {
            g.add_thread(p);
        }
    }
    if flavour == 0 {
        // thread-order flavour: mostly meta operations and positional references
        for _ in 0..len / 3 {
            match g.rng.below(6) {
                0..=1 => g.thread_meta(),
                2..=3 => g.visible_selected(),
                4 => g.add_counter(),
                _ => g.act(),
            }
        }
    }
    while g.ops.len() < len as usize {
        g.act();
    }
    g.ops
}

fn case(name: &str, ops: &[&str]) -> Case {
    Case { name: name.to_string(), ops: ops.iter().map(|s| s.to_string()).collect() }
}

/// boundary families that are always run
pub fn fixed_cases(_tier: Tier) -> Vec<Case> {
    let a = hx("a");
    let b = hx("b");
    let mut v = Vec::new();
    v.push(case("empty", &[]));
    v.push(case("one-process-no-thread", &[&format!("process p1 1 0 {a}")]));
    // the known finding (DESIGN §8 #10): allocation sample of the second thread with a stack
    v.push(case(
        "alloc-foreign-stack-minimal",
        &[
            &format!("process p1 1 0 {a}"),
            "thread t1 p1 1 0 1",
            "thread t2 p1 2 0 0",
            &format!("string s1 {a}"),
            "flabel f1 t2 s1 o 0",
            "stack k1 t2 f1 -",
            "allocsample t2 1 k1 foreign=1",
        ],
    ));
    // same shape but through the first thread: must be fine
    v.push(case(
        "alloc-first-thread",
        &[
            &format!("process p1 1 0 {a}"),
            "thread t1 p1 1 0 1",
            "thread t2 p1 2 0 0",
            &format!("string s1 {a}"),
            "flabel f1 t1 s1 o 0",
            "stack k1 t1 f1 -",
            "allocsample t1 1 k1 foreign=0",
            "allocsample t2 2 - foreign=0",
        ],
    ));
    // pid / tid reuse, string order "10" < "9", equal start times, late main thread
    v.push(case(
        "order-pid-reuse",
        &[
            &format!("process p1 10 5 {a}"),
            &format!("process p2 9 5 {b}"),
            &format!("process p3 10 5 {a}"),
            &format!("process p4 9 0 {a}"),
            "thread t1 p1 7 3 0",
            "thread t2 p1 7 3 1",
            "thread t3 p2 7 0 0",
            "thread t4 p3 1 0 1",
            "thread t5 p3 1 0 1",
            "thread t6 p1 2 1 0",
            &format!("setname t1 {b}"),
            &format!("setname t6 {a}"),
            "settid t3 7",
            "visible t6",
            "visible t1",
            "selected t5",
            "selected t3",
            "counter ctr1 p3",
            "counter ctr2 p1",
            "counter ctr3 p2",
            "csample ctr1 1",
        ],
    ));
    // counter on a process without threads (outside the property's quantifier; the judge skips that clause)
    v.push(case(
        "counter-threadless-process",
        &[&format!("process p1 1 0 {a}"), &format!("process p2 2 0 {a}"), "thread t1 p1 1 0 1", "counter ctr1 p2"],
    ));
    // every frame kind on one thread, shared strings between label / lib name / symbol name / hex name
    let libfoo = hx("libfoo");
    let hex10 = hx("0x10");
    v.push(case(
        "all-frame-kinds",
        &[
            &format!("process p1 1 0 {a}"),
            "thread t1 p1 1 0 1",
            &format!("lib l1 {libfoo}"),
            &format!("lib l2 {a}"),
            &format!("lib l3 {libfoo}"),
            &format!("libsyms l1 0:16:{libfoo} 16:-:{a}"),
            "map p1 l1 16 48 0",
            "map p1 l2 48 64 1000",
            &format!("string s1 {libfoo}"),
            &format!("string s2 {hex10}"),
            &format!("cat c1 {} 5", hx("Regular")),
            &format!("subcat sc1 c1 {}", hx("x")),
            "flabel f1 t1 s1 o 0",
            "flabel f2 t1 s2 c:c1 1",
            "flabelsrc f3 t1 s1 s2 3 - s:sc1 2",
            "faddr f4 t1 ip 16 o 0",
            "faddr f5 t1 ra 16 o 0",
            "faddr f6 t1 ip 100 o 0",
            "faddr f7 t1 ara 50 o 0",
            "faddr f8 t1 ip 20 o 0",
            "frel f9 t1 ra l2 0 o 0",
            "frel f10 t1 ip l3 16 o 0",
            &format!("nsym n1 t1 l2 32 8 {libfoo}"),
            "fsym f11 t1 rel ip l2 33 - n1 - - - 0 o 0",
            "fsym f12 t1 rel ip l2 33 s2 n1 s1 7 2 1 o 0",
            "fsym f13 t1 abs ip - 150 - n1 - - - 0 o 0",
            "fsym f14 t1 abs ip - 150 s1 n1 - - - 2 o 0",
            "stackframes k1 t1 f1 f2 f3 f4 f5 f6 f7 f8 f9 f10 f11 f12 f13 f14",
            "stackframes k2 t1 f1 f2 f3",
            "stackframes k3 t1",
            "stack k4 t1 f4 k2",
            "sample t1 1 k1 0",
            "sample t1 2 k3 1",
            "samesample t1 3",
            "sample t1 4 k4 0",
            "samesample t1 5",
            "samesample t1 6",
            "sample t1 0 k2 0",
        ],
    ));
    // two different libraries with the same display name on one thread (the per-thread resource table must
    // key by library, not by name): frames through mappings, relative addresses and native symbols in both
    let v1 = hx("v1/libplugin");
    let v2 = hx("v2/libplugin");
    let plain = hx("libplugin");
    v.push(case(
        "same-name-libs",
        &[
            &format!("process p1 1 0 {a}"),
            "thread t1 p1 1 0 1",
            "thread t2 p1 2 0 0",
            &format!("lib l1 {v1}"),
            &format!("lib l2 {v2}"),
            &format!("lib l3 {plain}"),
            &format!("libsyms l2 0:64:{a}"),
            "map p1 l1 4096 8192 0",
            "map p1 l2 8192 12288 0",
            "faddr f1 t1 ip 4100 o 0",
            "faddr f2 t1 ra 8200 o 0",
            "frel f3 t1 ip l1 100 o 0",
            "frel f4 t1 ip l2 100 o 0",
            "frel f5 t1 ip l3 100 o 0",
            "faddr f6 t1 ip 8193 o 0",
            &format!("nsym n1 t1 l2 200 8 {a}"),
            "fsym f7 t1 rel ip l2 201 - n1 - - - 0 o 0",
            "frel f8 t2 ip l2 100 o 0",
            "frel f9 t2 ip l1 100 o 0",
            "stackframes k1 t1 f1 f2 f3 f4 f5 f6 f7",
            "stackframes k2 t2 f8 f9",
            "sample t1 1 k1 0",
            "sample t2 2 k2 0",
        ],
    ));
    // markers of all schema kinds, with stacks
    v.push(case(
        "markers",
        &[
            &format!("process p1 1 0 {a}"),
            "thread t1 p1 1 0 1",
            "thread t2 p1 2 0 0",
            &format!("string s1 {a}"),
            &format!("string s2 {b}"),
            &format!("cat c1 {} 8", hx("JS")),
            &format!("mtype mt1 {} c1 unsnu", hx("rt0")),
            &format!("mtype mt2 {} c1 -", hx("rt1")),
            "marker m1 t1 st:1 s1 s1 s2 s2",
            "marker m2 t1 st:0 s2 s2",
            "marker m3 t2 st:2 s1",
            "marker m4 t2 rt:mt1 s2 s1 s1 s2",
            "marker m5 t1 rt:mt2 s1",
            "flabel f1 t1 s1 o 0",
            "stack k1 t1 f1 -",
            "mstack t1 m2 k1",
            "mstack t1 m1 -",
            "mstack t2 m5 -",
            "mstack t2 m1 -",
        ],
    ));
    // all four MarkerTiming variants, all 14 MarkerFieldFormats (string-kind formats other than String next to
    // String fields: the `== MarkerFieldFormat::String` tests of add_marker and of the serializer must agree)
    v.push(case(
        "marker-timings-and-formats",
        &[
            &format!("process p1 1 0 {a}"),
            "thread t1 p1 1 0 1",
            &format!("string s1 {a}"),
            &format!("string s2 {b}"),
            &format!("string s3 {}", hx("/a/b.rs")),
            &format!("cat c1 {} 8", hx("JS")),
            &format!("mtype mt1 {} c1 uUPZDTSMCNBpid", hx("rt0")),
            &format!("mtype mt2 {} c1 PuZ", hx("rt1")),
            "marker m1 t1 rt:mt1:v s1 s1 s2 s3 s2",
            "marker m2 t1 rt:mt2:e s2 s3 s1 s2",
            "marker m3 t1 rt:mt2:s s2 s2 s2 s3",
            "marker m4 t1 st:3:v s1 s3 s2 s1",
            "marker m5 t1 st:3 s1 s1 s1 s1",
            "marker m6 t1 st:1:e s1 s1 s2 s2",
            "marker m7 t1 st:2:s s3",
            "flabel f1 t1 s1 o 0",
            "stack k1 t1 f1 -",
            "mstack t1 m2 k1",
            "mstack t1 m4 k1",
            "sample t1 1 k1 0",
        ],
    ));
    // remove_lib_mapping / clear_process_lib_mappings between absolute-address frames: the same address resolves
    // to the library, then to nothing, then (after a new mapping) to another library; `libbar` is mapped and
    // unmapped without ever being used
    v.push(case(
        "unmap-between-frames",
        &[
            &format!("process p1 1 0 {a}"),
            "thread t1 p1 1 0 1",
            &format!("lib l1 {}", hx("libfoo")),
            &format!("lib l2 {}", hx("libbar")),
            &format!("lib l3 {}", hx("x/a")),
            "map p1 l1 16 48 0",
            "map p1 l2 64 96 0",
            "faddr f1 t1 ip 20 o 0",
            "unmap p1 64",
            "unmap p1 16",
            "faddr f2 t1 ip 20 o 0",
            "faddr f3 t1 ip 70 o 0",
            "map p1 l3 16 48 8",
            "faddr f4 t1 ip 20 o 0",
            "clearmaps p1",
            "faddr f5 t1 ra 21 o 0",
            "unmap p1 16",
            // a kernel mapping shadows a process mapping of the same range, then is removed
            "map p1 l1 16 48 0",
            "kmap l2 16 32 4",
            "faddr f6 t1 ip 20 o 0",
            "faddr f7 t1 ip 40 o 0",
            "kunmap 16",
            "faddr f8 t1 ip 20 o 0",
            "stackframes k2 t1 f6 f7 f8",
            "sample t1 2 k2 0",
            "stackframes k1 t1 f1 f2 f3 f4 f5",
            "sample t1 1 k1 0",
        ],
    ));
    // libraries that agree in name and path and differ only in debug id / code id / arch / debug name, all used on
    // one thread through mappings and relative addresses
    v.push(case(
        "libs-differing-only-in-ids",
        &[
            &format!("process p1 1 0 {a}"),
            "thread t1 p1 1 0 1",
            &format!("lib l1 {}", hx("libfoo")),
            &format!("lib l2 {}", hx("libfoo#d1")),
            &format!("lib l3 {}", hx("libfoo#d2")),
            &format!("lib l4 {}", hx("libfoo#c1")),
            &format!("lib l5 {}", hx("libfoo#a1")),
            &format!("lib l6 {}", hx("libfoo#n1")),
            &format!("lib l7 {}", hx("libfoo#d1")),
            "map p1 l3 4096 8192 0",
            "frel f1 t1 ip l6 100 o 0",
            "frel f2 t1 ip l2 100 o 0",
            "faddr f3 t1 ip 4196 o 0",
            "frel f4 t1 ip l1 100 o 0",
            "frel f5 t1 ip l4 100 o 0",
            "frel f6 t1 ip l5 100 o 0",
            "frel f7 t1 ip l7 100 o 0",
            &format!("nsym n1 t1 l4 96 8 {a}"),
            &format!("nsym n2 t1 l5 96 8 {b}"),
            "stackframes k1 t1 f1 f2 f3 f4 f5 f6 f7",
            "sample t1 1 k1 0",
        ],
    ));
    // more than 256 rows in every per-thread table and in the category / subcategory lists (index types narrowed
    // to u8 would wrap here; the 65 536 boundary is out of reach of the list-based judge)
    {
        let mut ops: Vec<String> = vec![format!("process p1 1 0 {a}"), "thread t1 p1 1 0 1".into()];
        ops.push(format!("lib l1 {}", hx("libfoo")));
        ops.push(format!("cat c1 {} 3", hx("Bulk")));
        let n = 300;
        for i in 0..n {
            ops.push(format!("string s{i} {}", hx(&format!("fn{i}"))));
            match i % 3 {
                0 => ops.push(format!("flabel f{i} t1 s{i} S:{}:3:{} 0", hx("Bulk"), hx(&format!("sub{i}")))),
                1 => ops.push(format!("flabel f{i} t1 s{i} C:{}:{} 0", hx(&format!("cat{i}")), i % 14)),
                _ => {
                    ops.push(format!("nsym n{i} t1 l1 {} 4 {}", 16 * i, hx(&format!("sym{i}"))));
                    ops.push(format!("fsym f{i} t1 rel ip l1 {} s{i} n{i} - - - 0 o 0", 16 * i + 1));
                }
            }
        }
        let all: Vec<String> = (0..n).map(|i| format!("f{i}")).collect();
        ops.push(format!("stackframes k1 t1 {}", all.join(" ")));
        ops.push("sample t1 1 k1 0".into());
        ops.push(format!("marker m1 t1 st:0 s299 s298"));
        ops.push("mstack t1 m1 k1".into());
        let refs: Vec<&str> = ops.iter().map(|s| s.as_str()).collect();
        v.push(case("bulk-300-rows", &refs));
    }
    // rejected uses
    v.push(case(
        "rejected-uses",
        &[
            &format!("process p1 1 0 {a}"),
            "thread t1 p1 1 0 1",
            "thread t2 p1 2 0 0",
            &format!("string s1 {a}"),
            &format!("string s2 {b}"),
            "flabel f1 t1 s1 o 0",
            "flabel f2 t2 s1 o 0",
            "flabel f3 t2 s2 o 0",
            "stack k1 t1 f1 -",
            "stack x1 t2 f1 -",
            "stack x2 t2 f2 k1",
            "stackframes x3 t2 f2 f1 f3",
            "sample t2 1 k1 0",
            "sample t2 1 x3 0",
            &format!("lib l1 {a}"),
            &format!("nsym n1 t1 l1 0 - {a}"),
            "fsym x4 t2 rel ip l1 3 - n1 - - - 0 C:4a53:8 0",
            "stack k2 t2 f3 -",
            "sample t2 2 k2 0",
        ],
    ));
    v
}
