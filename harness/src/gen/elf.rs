//! Minimal little-endian ELF32 / ELF64 writer (Rust version of `design-spikes/elf_writer_spike.py`).
//!
//! Produces files that `object` / samply-symbols accept: chosen `e_machine`, arbitrary sections (PROGBITS,
//! NOBITS, …) at chosen addresses and file offsets, a `.symtab`/`.strtab` pair, an optional
//! `.note.gnu.build-id`, and program headers (none, one automatic PT_LOAD, or explicit ones).
//!
//! File layout: ELF header, program headers, the sections in the order given (at their forced offset, or
//! appended at the next aligned offset), build-id note, `.symtab`, `.strtab`, `.shstrtab`, section headers.

pub const EM_386: u16 = 3;
pub const EM_ARM: u16 = 40;
pub const EM_X86_64: u16 = 62;
pub const EM_AARCH64: u16 = 183;
pub const EM_RISCV: u16 = 243;

pub const ET_EXEC: u16 = 2;
pub const ET_DYN: u16 = 3;

pub const SHT_PROGBITS: u32 = 1;
pub const SHT_SYMTAB: u32 = 2;
pub const SHT_STRTAB: u32 = 3;
pub const SHT_NOTE: u32 = 7;
pub const SHT_NOBITS: u32 = 8;

pub const SHF_WRITE: u64 = 1;
pub const SHF_ALLOC: u64 = 2;
pub const SHF_EXECINSTR: u64 = 4;

pub const PT_LOAD: u32 = 1;
pub const PF_X: u32 = 1;
pub const PF_W: u32 = 2;
pub const PF_R: u32 = 4;

pub const STT_NOTYPE: u8 = 0;
pub const STT_OBJECT: u8 = 1;
pub const STT_FUNC: u8 = 2;
pub const STB_LOCAL: u8 = 0;
pub const STB_GLOBAL: u8 = 1;

#[derive(Clone, Debug)]
pub struct ElfSection {
    pub name: String,
    pub sh_type: u32,
    pub flags: u64,
    pub addr: u64,
    pub align: u64,
    /// file contents (empty for NOBITS)
    pub data: Vec<u8>,
    /// `sh_size` when it differs from `data.len()` (NOBITS sections)
    pub mem_size: Option<u64>,
    /// forced file offset; `None` = next free aligned offset
    pub offset: Option<u64>,
}

impl ElfSection {
    pub fn progbits(name: &str, addr: u64, data: Vec<u8>, exec: bool) -> Self {
        ElfSection {
            name: name.to_string(),
            sh_type: SHT_PROGBITS,
            flags: SHF_ALLOC | if exec { SHF_EXECINSTR } else { 0 },
            addr,
            align: 1,
            data,
            mem_size: None,
            offset: None,
        }
    }
    pub fn nobits(name: &str, addr: u64, size: u64) -> Self {
        ElfSection {
            name: name.to_string(),
            sh_type: SHT_NOBITS,
            flags: SHF_ALLOC | SHF_WRITE,
            addr,
            align: 1,
            data: Vec::new(),
            mem_size: Some(size),
            offset: None,
        }
    }
    pub fn at_offset(mut self, off: u64) -> Self {
        self.offset = Some(off);
        self
    }
    pub fn size(&self) -> u64 {
        self.mem_size.unwrap_or(self.data.len() as u64)
    }
}

#[derive(Clone, Debug)]
pub struct ElfSymbol {
    pub name: String,
    pub value: u64,
    pub size: u64,
    pub sym_type: u8,
    pub bind: u8,
    /// index into `ElfSpec::sections` (None = SHN_ABS)
    pub section: Option<usize>,
}

impl ElfSymbol {
    pub fn func(name: &str, value: u64, size: u64, section: usize) -> Self {
        ElfSymbol { name: name.to_string(), value, size, sym_type: STT_FUNC, bind: STB_GLOBAL, section: Some(section) }
    }
}

#[derive(Clone, Debug)]
pub struct ElfSegment {
    pub p_type: u32,
    pub flags: u32,
    pub offset: u64,
    pub vaddr: u64,
    pub filesz: u64,
    pub memsz: u64,
    pub align: u64,
}

#[derive(Clone, Debug)]
pub enum Segments {
    /// no program headers at all (like the synthetic .so files of `perf inject --jit`)
    None,
    /// one PT_LOAD from file offset 0 / address `vbase` covering every SHF_ALLOC section
    /// (requires `offset == addr - vbase` for those sections)
    Auto { vbase: u64 },
    Explicit(Vec<ElfSegment>),
}

#[derive(Clone, Debug)]
pub struct ElfSpec {
    pub is64: bool,
    pub machine: u16,
    pub e_type: u16,
    pub entry: u64,
    pub e_flags: u32,
    pub sections: Vec<ElfSection>,
    pub symbols: Vec<ElfSymbol>,
    pub build_id: Option<Vec<u8>>,
    pub segments: Segments,
}

#[derive(Clone, Debug)]
pub struct ElfFile {
    pub bytes: Vec<u8>,
    /// file offset of each section of the spec, in order
    pub section_offsets: Vec<u64>,
    /// the program headers that were written
    pub segments: Vec<ElfSegment>,
}

struct Out {
    b: Vec<u8>,
}
impl Out {
    fn put(&mut self, off: usize, data: &[u8]) {
        if self.b.len() < off + data.len() {
            self.b.resize(off + data.len(), 0);
        }
        self.b[off..off + data.len()].copy_from_slice(data);
    }
}

fn align_up(x: u64, a: u64) -> u64 {
    if a <= 1 {
        x
    } else {
        x.div_ceil(a) * a
    }
}

struct Shdr {
    name: u32,
    sh_type: u32,
    flags: u64,
    addr: u64,
    offset: u64,
    size: u64,
    link: u32,
    info: u32,
    align: u64,
    entsize: u64,
}

pub fn write_elf(spec: &ElfSpec) -> ElfFile {
    let is64 = spec.is64;
    let ehsize: u64 = if is64 { 64 } else { 52 };
    let phentsize: u64 = if is64 { 56 } else { 32 };
    let shentsize: u64 = if is64 { 64 } else { 40 };

    // layout of the user sections
    let mut cur = ehsize; // program headers are placed right after the header; their count is known below
    let mut offsets = Vec::new();
    // decide segments first when they do not depend on the layout
    let nph_guess: u64 = match &spec.segments {
        Segments::None => 0,
        Segments::Auto { .. } => 1,
        Segments::Explicit(v) => v.len() as u64,
    };
    cur += nph_guess * phentsize;
    let mut max_end = cur;
    for s in &spec.sections {
        let off = match s.offset {
            Some(o) => o,
            None => align_up(max_end, s.align.max(1)),
        };
        offsets.push(off);
        if s.sh_type != SHT_NOBITS {
            max_end = max_end.max(off + s.data.len() as u64);
        }
    }
    let mut cur = max_end;

    // section name table
    let mut shstr = vec![0u8];
    let mut add_name = |n: &str, shstr: &mut Vec<u8>| -> u32 {
        let o = shstr.len() as u32;
        shstr.extend_from_slice(n.as_bytes());
        shstr.push(0);
        o
    };

    let mut out = Out { b: Vec::new() };
    let mut shdrs: Vec<Shdr> = Vec::new();
    for (s, &off) in spec.sections.iter().zip(&offsets) {
        let name = add_name(&s.name, &mut shstr);
        if s.sh_type != SHT_NOBITS {
            out.put(off as usize, &s.data);
        }
        shdrs.push(Shdr {
            name,
            sh_type: s.sh_type,
            flags: s.flags,
            addr: s.addr,
            offset: off,
            size: s.size(),
            link: 0,
            info: 0,
            align: s.align.max(1),
            entsize: 0,
        });
    }

    // build-id note
    if let Some(id) = &spec.build_id {
        let mut note = Vec::new();
        note.extend_from_slice(&4u32.to_le_bytes());
        note.extend_from_slice(&(id.len() as u32).to_le_bytes());
        note.extend_from_slice(&3u32.to_le_bytes());
        note.extend_from_slice(b"GNU\0");
        note.extend_from_slice(id);
        while note.len() % 4 != 0 {
            note.push(0);
        }
        cur = align_up(cur, 4);
        out.put(cur as usize, &note);
        let name = add_name(".note.gnu.build-id", &mut shstr);
        shdrs.push(Shdr { name, sh_type: SHT_NOTE, flags: 0, addr: 0, offset: cur, size: note.len() as u64, link: 0, info: 0, align: 4, entsize: 0 });
        cur += note.len() as u64;
    }

    // symbol table (locals first, as the format requires)
    let mut strtab = vec![0u8];
    let mut symtab: Vec<u8> = vec![0u8; if is64 { 24 } else { 16 }];
    let mut syms: Vec<&ElfSymbol> = spec.symbols.iter().collect();
    syms.sort_by_key(|s| if s.bind == STB_LOCAL { 0 } else { 1 });
    let n_local = 1 + syms.iter().filter(|s| s.bind == STB_LOCAL).count() as u32;
    for s in syms {
        let name_off = strtab.len() as u32;
        strtab.extend_from_slice(s.name.as_bytes());
        strtab.push(0);
        let info = (s.bind << 4) | (s.sym_type & 0xf);
        let shndx: u16 = match s.section {
            Some(i) => (i + 1) as u16,
            None => 0xfff1,
        };
        if is64 {
            symtab.extend_from_slice(&name_off.to_le_bytes());
            symtab.push(info);
            symtab.push(0);
            symtab.extend_from_slice(&shndx.to_le_bytes());
            symtab.extend_from_slice(&s.value.to_le_bytes());
            symtab.extend_from_slice(&s.size.to_le_bytes());
        } else {
            symtab.extend_from_slice(&name_off.to_le_bytes());
            symtab.extend_from_slice(&(s.value as u32).to_le_bytes());
            symtab.extend_from_slice(&(s.size as u32).to_le_bytes());
            symtab.push(info);
            symtab.push(0);
            symtab.extend_from_slice(&shndx.to_le_bytes());
        }
    }
    cur = align_up(cur, 8);
    let symtab_index = shdrs.len() as u32 + 1;
    out.put(cur as usize, &symtab);
    let name = add_name(".symtab", &mut shstr);
    shdrs.push(Shdr {
        name,
        sh_type: SHT_SYMTAB,
        flags: 0,
        addr: 0,
        offset: cur,
        size: symtab.len() as u64,
        link: symtab_index + 1,
        info: n_local,
        align: 8,
        entsize: if is64 { 24 } else { 16 },
    });
    cur += symtab.len() as u64;
    out.put(cur as usize, &strtab);
    let name = add_name(".strtab", &mut shstr);
    shdrs.push(Shdr { name, sh_type: SHT_STRTAB, flags: 0, addr: 0, offset: cur, size: strtab.len() as u64, link: 0, info: 0, align: 1, entsize: 0 });
    cur += strtab.len() as u64;
    let name = add_name(".shstrtab", &mut shstr);
    out.put(cur as usize, &shstr);
    shdrs.push(Shdr { name, sh_type: SHT_STRTAB, flags: 0, addr: 0, offset: cur, size: shstr.len() as u64, link: 0, info: 0, align: 1, entsize: 0 });
    cur += shstr.len() as u64;
    let shoff = align_up(cur, 8);
    let shnum = shdrs.len() as u16 + 1;
    let shstrndx = shdrs.len() as u16;

    // program headers
    let segments: Vec<ElfSegment> = match &spec.segments {
        Segments::None => Vec::new(),
        Segments::Explicit(v) => v.clone(),
        Segments::Auto { vbase } => {
            let mut file_end = 0u64;
            let mut mem_end = 0u64;
            for (s, &off) in spec.sections.iter().zip(&offsets) {
                if s.flags & SHF_ALLOC != 0 {
                    if s.sh_type != SHT_NOBITS {
                        file_end = file_end.max(off + s.data.len() as u64);
                    }
                    mem_end = mem_end.max(s.addr.wrapping_sub(*vbase).wrapping_add(s.size()));
                }
            }
            vec![ElfSegment { p_type: PT_LOAD, flags: PF_R | PF_X, offset: 0, vaddr: *vbase, filesz: file_end, memsz: mem_end.max(file_end), align: 0x1000 }]
        }
    };

    // section headers
    let mut sh = vec![0u8; shentsize as usize];
    for h in &shdrs {
        if is64 {
            sh.extend_from_slice(&h.name.to_le_bytes());
            sh.extend_from_slice(&h.sh_type.to_le_bytes());
            sh.extend_from_slice(&h.flags.to_le_bytes());
            sh.extend_from_slice(&h.addr.to_le_bytes());
            sh.extend_from_slice(&h.offset.to_le_bytes());
            sh.extend_from_slice(&h.size.to_le_bytes());
            sh.extend_from_slice(&h.link.to_le_bytes());
            sh.extend_from_slice(&h.info.to_le_bytes());
            sh.extend_from_slice(&h.align.to_le_bytes());
            sh.extend_from_slice(&h.entsize.to_le_bytes());
        } else {
            sh.extend_from_slice(&h.name.to_le_bytes());
            sh.extend_from_slice(&h.sh_type.to_le_bytes());
            sh.extend_from_slice(&(h.flags as u32).to_le_bytes());
            sh.extend_from_slice(&(h.addr as u32).to_le_bytes());
            sh.extend_from_slice(&(h.offset as u32).to_le_bytes());
            sh.extend_from_slice(&(h.size as u32).to_le_bytes());
            sh.extend_from_slice(&h.link.to_le_bytes());
            sh.extend_from_slice(&h.info.to_le_bytes());
            sh.extend_from_slice(&(h.align as u32).to_le_bytes());
            sh.extend_from_slice(&(h.entsize as u32).to_le_bytes());
        }
    }
    out.put(shoff as usize, &sh);

    // ELF header
    let mut eh = Vec::new();
    eh.extend_from_slice(b"\x7fELF");
    eh.extend_from_slice(&[if is64 { 2 } else { 1 }, 1, 1, 0]);
    eh.extend_from_slice(&[0u8; 8]);
    eh.extend_from_slice(&spec.e_type.to_le_bytes());
    eh.extend_from_slice(&spec.machine.to_le_bytes());
    eh.extend_from_slice(&1u32.to_le_bytes());
    let phoff = if segments.is_empty() { 0 } else { ehsize };
    if is64 {
        eh.extend_from_slice(&spec.entry.to_le_bytes());
        eh.extend_from_slice(&phoff.to_le_bytes());
        eh.extend_from_slice(&shoff.to_le_bytes());
    } else {
        eh.extend_from_slice(&(spec.entry as u32).to_le_bytes());
        eh.extend_from_slice(&(phoff as u32).to_le_bytes());
        eh.extend_from_slice(&(shoff as u32).to_le_bytes());
    }
    eh.extend_from_slice(&spec.e_flags.to_le_bytes());
    eh.extend_from_slice(&(ehsize as u16).to_le_bytes());
    eh.extend_from_slice(&(phentsize as u16).to_le_bytes());
    eh.extend_from_slice(&(segments.len() as u16).to_le_bytes());
    eh.extend_from_slice(&(shentsize as u16).to_le_bytes());
    eh.extend_from_slice(&shnum.to_le_bytes());
    eh.extend_from_slice(&shstrndx.to_le_bytes());
    out.put(0, &eh);

    let mut ph = Vec::new();
    for s in &segments {
        if is64 {
            ph.extend_from_slice(&s.p_type.to_le_bytes());
            ph.extend_from_slice(&s.flags.to_le_bytes());
            ph.extend_from_slice(&s.offset.to_le_bytes());
            ph.extend_from_slice(&s.vaddr.to_le_bytes());
            ph.extend_from_slice(&s.vaddr.to_le_bytes());
            ph.extend_from_slice(&s.filesz.to_le_bytes());
            ph.extend_from_slice(&s.memsz.to_le_bytes());
            ph.extend_from_slice(&s.align.to_le_bytes());
        } else {
            ph.extend_from_slice(&s.p_type.to_le_bytes());
            ph.extend_from_slice(&(s.offset as u32).to_le_bytes());
            ph.extend_from_slice(&(s.vaddr as u32).to_le_bytes());
            ph.extend_from_slice(&(s.vaddr as u32).to_le_bytes());
            ph.extend_from_slice(&(s.filesz as u32).to_le_bytes());
            ph.extend_from_slice(&(s.memsz as u32).to_le_bytes());
            ph.extend_from_slice(&s.flags.to_le_bytes());
            ph.extend_from_slice(&(s.align as u32).to_le_bytes());
        }
    }
    if !ph.is_empty() {
        out.put(ehsize as usize, &ph);
    }

    ElfFile { bytes: out.b, section_offsets: offsets, segments }
}
