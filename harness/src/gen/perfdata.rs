//! perf.data pipeline shared by C01 / C17 / C02 / C14 (and C19): record histories, their text form
//! (the op lines also read by the Lean model, see lean/SamplyModel/Iface/Conv.lean), a perf.data file
//! writer, a runner for `samply import`, and the extraction of the property-relevant view from the
//! resulting profile JSON.
use crate::common::*;
use serde_json::Value;
use std::collections::BTreeMap;
use std::fmt::Write as _;
use std::path::{Path, PathBuf};
use std::process::Command;

#[derive(Clone, Debug, PartialEq)]
pub enum Rec {
    Sample { pid: u32, tid: u32, t: u64, kernel: bool, period: u64, ip: u64, chain: Vec<u64> },
    Fork { pid: u32, tid: u32, ppid: u32, ptid: u32, t: u64 },
    Exit { pid: u32, tid: u32, t: u64 },
    Comm { pid: u32, tid: u32, name: String, exec: bool, t: u64 },
    Mmap2 { pid: u32, tid: u32, addr: u64, len: u64, pgoff: u64, exec: bool, path: String, t: u64 },
    /// PERF_RECORD_SWITCH (or SWITCH_CPU_WIDE) without the SWITCH_OUT misc bit
    SwitchIn { pid: u32, tid: u32, t: u64 },
    /// PERF_RECORD_SWITCH (or SWITCH_CPU_WIDE) with PERF_RECORD_MISC_SWITCH_OUT (and optionally SWITCH_OUT_PREEMPT)
    SwitchOut { pid: u32, tid: u32, t: u64, preempt: bool },
    /// SAMPLE of the second event `sched:sched_switch` (only written when `CsCfg::sched`)
    Sched { pid: u32, tid: u32, t: u64, kernel: bool, ip: u64, chain: Vec<u64> },
    /// SAMPLE of an "other event" (`probe:deep_call`: neither the main event nor sched_switch nor rss_stat):
    /// `handle_other_event_sample` turns it into a marker with the stack attached. The event's attr is written
    /// exactly when the history contains such a record.
    Other { pid: u32, tid: u32, t: u64, kernel: bool, ip: u64, chain: Vec<u64> },
}

/// Context-switch related settings of a recording (`cfg … cs:<letters>:<period>`): which of the attr bits /
/// events `EventInterpretation::divine_from_attrs` looks at are present.
#[derive(Clone, Debug, PartialEq, Default)]
pub struct CsCfg {
    /// `attr.context_switch = 1` on the main event (letter `c`): `OffCpuIndicator::ContextSwitches`
    pub ctx: bool,
    /// a second event named `sched:sched_switch` exists (letter `s`); without `ctx`: `SchedSwitchAndSamples`
    pub sched: bool,
    /// the main event is a hardware event (letter `h`): sampling is not time based (interval 1 ms, weight 0)
    pub hw: bool,
    /// `attr.freq = 1` (letter `f`): `period` is a frequency in Hz
    pub freq: bool,
    /// switch records are written as PERF_RECORD_SWITCH_CPU_WIDE (letter `w`)
    pub wide: bool,
    /// `attr.sample_period` / `attr.sample_freq` of the main event
    pub period: u64,
}

impl CsCfg {
    pub fn word(&self) -> String {
        let mut l = String::new();
        for (b, c) in [(self.ctx, 'c'), (self.sched, 's'), (self.hw, 'h'), (self.freq, 'f'), (self.wide, 'w')] {
            if b {
                l.push(c);
            }
        }
        if l.is_empty() {
            l.push('-');
        }
        format!("cs:{l}:{}", self.period)
    }
    pub fn parse(letters: &str, period: &str) -> Option<CsCfg> {
        Some(CsCfg {
            ctx: letters.contains('c'),
            sched: letters.contains('s'),
            hw: letters.contains('h'),
            freq: letters.contains('f'),
            wide: letters.contains('w'),
            period: period.parse().ok()?,
        })
    }
}

impl Rec {
    pub fn time(&self) -> u64 {
        match self {
            Rec::Sample { t, .. }
            | Rec::Fork { t, .. }
            | Rec::Exit { t, .. }
            | Rec::Comm { t, .. }
            | Rec::Mmap2 { t, .. }
            | Rec::SwitchIn { t, .. }
            | Rec::SwitchOut { t, .. }
            | Rec::Sched { t, .. }
            | Rec::Other { t, .. } => *t,
        }
    }
}

#[derive(Clone, Debug, Default)]
pub struct History {
    pub reuse: bool,
    pub fold: bool,
    /// first sample time written into the SAMPLE_TIME feature section; 0 = no feature section
    pub ref_time: u64,
    /// records in the order the reader's sorter emits them (nondecreasing time)
    pub recs: Vec<Rec>,
    /// ELF files that exist on disk at the paths some MMAP2 records name (segment-based attribution)
    pub files: Vec<ElfDecl>,
    /// lines of the `/tmp/perf-<pid>.map` files that exist while the recording is converted, in file order
    pub perf_maps: Vec<(u32, PerfMapLine)>,
    /// `--per-cpu-threads` with this many CPUs (0 = option off); the CPU of a sample is `cpu_of`
    pub ncpu: u32,
    /// context-switch settings of the recording (None = the attr the older families use: cpu-clock, period
    /// 1 000 000, no context_switch bit, one event)
    pub cs: Option<CsCfg>,
    /// explicit file layout (`layout` op line): the rounds of the perf.data file, each a list of indices into
    /// `recs` in file order. Empty = the writer draws a layout (then `recs` must be time-ordered). With an
    /// explicit layout `recs` is the order in which linux-perf-data's round sorter delivers the records of that
    /// file (checked by `sorter_delivery` before the file is written), which need not be time-ordered: records
    /// of round N+2 may be older than records of round N.
    pub layout: Vec<Vec<usize>>,
}

/// One line of a perf map file: a well-formed `<hexaddr> <hexlen> <name>` line, or arbitrary text.
#[derive(Clone, Debug, PartialEq)]
pub enum PerfMapLine {
    Fn { addr: u64, len: u64, name: String },
    Raw(String),
}

impl PerfMapLine {
    pub fn text(&self) -> String {
        match self {
            PerfMapLine::Fn { addr, len, name } => format!("{addr:x} {len:x} {name}"),
            PerfMapLine::Raw(s) => s.clone(),
        }
    }
}

/// The CPU a sample is recorded on when per-CPU threads are generated (a fixed function of the sample,
/// so that the record type needs no extra field; `Conv.cpuOf` in the Lean model is the same function).
pub fn cpu_of(ncpu: u32, t: u64) -> u32 {
    if ncpu == 0 {
        0
    } else {
        (t % ncpu as u64) as u32
    }
}

/// What the converter reads from an ELF file present on disk: the image base
/// (`relative_address_base` = vaddr of the first LOAD segment) and the LOAD segments
/// `(svma, file offset, file size)` in program-header order.
#[derive(Clone, Debug, PartialEq, Default)]
pub struct ElfDecl {
    pub path: String,
    pub base_svma: u64,
    pub segs: Vec<(u64, u64, u64)>,
    /// index of the executable segment (the one generated mappings refer to)
    pub exec_seg: usize,
}

pub const CTX_KERNEL: u64 = (-128i64) as u64;
pub const CTX_USER: u64 = (-512i64) as u64;
pub const CTX_HV: u64 = (-32i64) as u64;
pub const CTX_GUEST: u64 = (-2048i64) as u64;
pub const CTX_GUEST_KERNEL: u64 = (-2176i64) as u64;
pub const CTX_GUEST_USER: u64 = (-2560i64) as u64;

pub fn hex_str(s: &str) -> String {
    hex(s.as_bytes())
}

pub fn str_hex(h: &str) -> String {
    String::from_utf8_lossy(&unhex(h)).to_string()
}

impl History {
    pub fn to_ops(&self) -> Vec<String> {
        let mut cfg = format!("cfg {} {} {}", self.reuse as u8, self.fold as u8, self.ref_time);
        for f in &self.files {
            let segs = f.segs.iter().map(|(a, b, c)| format!("{a},{b},{c}")).collect::<Vec<_>>().join(";");
            let _ = write!(cfg, " elf:{}:{}:{}", hex_str(&f.path), f.base_svma, segs);
        }
        if self.ncpu != 0 {
            let _ = write!(cfg, " percpu:{}", self.ncpu);
        }
        if let Some(cs) = &self.cs {
            let _ = write!(cfg, " {}", cs.word());
        }
        let mut v = vec![cfg];
        if !self.layout.is_empty() {
            let rounds: Vec<String> = self.layout.iter().map(|r| r.iter().map(|i| i.to_string()).collect::<Vec<_>>().join(",")).collect();
            v.push(format!("layout {}", rounds.join(";")));
        }
        for (pid, l) in &self.perf_maps {
            v.push(match l {
                PerfMapLine::Fn { addr, len, name } => format!("perfmap {pid} {addr} {len} {}", hex_str(name)),
                PerfMapLine::Raw(s) => format!("perfmapraw {pid} {}", hex_str(s)),
            });
        }
        for r in &self.recs {
            v.push(match r {
                Rec::Sample { pid, tid, t, kernel, period, ip, chain } => {
                    let c = if chain.is_empty() {
                        "-".to_string()
                    } else {
                        chain.iter().map(|a| a.to_string()).collect::<Vec<_>>().join(",")
                    };
                    format!("sample {pid} {tid} {t} {} {period} {ip} {c}", if *kernel { "k" } else { "u" })
                }
                Rec::Fork { pid, tid, ppid, ptid, t } => format!("fork {pid} {tid} {ppid} {ptid} {t}"),
                Rec::Exit { pid, tid, t } => format!("exit {pid} {tid} {t}"),
                Rec::Comm { pid, tid, name, exec, t } => format!("comm {pid} {tid} {} {t} {}", *exec as u8, hex_str(name)),
                Rec::Mmap2 { pid, tid, addr, len, pgoff, exec, path, t } => {
                    format!("mmap2 {pid} {tid} {addr} {len} {pgoff} {} {t} {}", *exec as u8, hex_str(path))
                }
                Rec::SwitchIn { pid, tid, t } => format!("switchin {pid} {tid} {t}"),
                Rec::SwitchOut { pid, tid, t, preempt } => format!("switchout {pid} {tid} {t}{}", if *preempt { " preempt" } else { "" }),
                Rec::Sched { pid, tid, t, kernel, ip, chain } => {
                    let c = if chain.is_empty() {
                        "-".to_string()
                    } else {
                        chain.iter().map(|a| a.to_string()).collect::<Vec<_>>().join(",")
                    };
                    format!("sched {pid} {tid} {t} {} {ip} {c}", if *kernel { "k" } else { "u" })
                }
                Rec::Other { pid, tid, t, kernel, ip, chain } => {
                    let c = if chain.is_empty() {
                        "-".to_string()
                    } else {
                        chain.iter().map(|a| a.to_string()).collect::<Vec<_>>().join(",")
                    };
                    format!("oev {pid} {tid} {t} {} {ip} {c}", if *kernel { "k" } else { "u" })
                }
            });
        }
        v
    }

    pub fn from_ops(ops: &[String]) -> Option<History> {
        let mut h = History::default();
        for (i, l) in ops.iter().enumerate() {
            let w: Vec<&str> = l.split_whitespace().collect();
            let n = |k: usize| -> Option<u64> { w.get(k)?.parse().ok() };
            match w.first().copied() {
                Some("cfg") if i == 0 => {
                    h.reuse = n(1)? == 1;
                    h.fold = n(2)? == 1;
                    h.ref_time = n(3)?;
                    for e in &w[4..] {
                        let parts: Vec<&str> = e.split(':').collect();
                        if parts.len() == 4 && parts[0] == "elf" {
                            let segs = parts[3]
                                .split(';')
                                .filter_map(|s| {
                                    let v: Vec<u64> = s.split(',').filter_map(|x| x.parse().ok()).collect();
                                    (v.len() == 3).then(|| (v[0], v[1], v[2]))
                                })
                                .collect();
                            h.files.push(ElfDecl { path: str_hex(parts[1]), base_svma: parts[2].parse().ok()?, segs, exec_seg: 0 });
                        }
                        if parts.len() == 2 && parts[0] == "percpu" {
                            h.ncpu = parts[1].parse().ok()?;
                        }
                        if parts.len() == 3 && parts[0] == "cs" {
                            h.cs = Some(CsCfg::parse(parts[1], parts[2])?);
                        }
                    }
                }
                Some("layout") => {
                    for r in w.get(1)?.split(';') {
                        let mut round = Vec::new();
                        for x in r.split(',').filter(|x| !x.is_empty()) {
                            round.push(x.parse().ok()?);
                        }
                        h.layout.push(round);
                    }
                }
                Some("perfmap") => h.perf_maps.push((n(1)? as u32, PerfMapLine::Fn { addr: n(2)?, len: n(3)?, name: str_hex(w.get(4)?) })),
                Some("perfmapraw") => h.perf_maps.push((n(1)? as u32, PerfMapLine::Raw(str_hex(w.get(2)?)))),
                Some("sample") => h.recs.push(Rec::Sample {
                    pid: n(1)? as u32,
                    tid: n(2)? as u32,
                    t: n(3)?,
                    kernel: w.get(4) == Some(&"k"),
                    period: n(5)?,
                    ip: n(6)?,
                    chain: if w.get(7) == Some(&"-") {
                        vec![]
                    } else {
                        w.get(7)?.split(',').filter_map(|s| s.parse().ok()).collect()
                    },
                }),
                Some("fork") => h.recs.push(Rec::Fork { pid: n(1)? as u32, tid: n(2)? as u32, ppid: n(3)? as u32, ptid: n(4)? as u32, t: n(5)? }),
                Some("exit") => h.recs.push(Rec::Exit { pid: n(1)? as u32, tid: n(2)? as u32, t: n(3)? }),
                Some("comm") => h.recs.push(Rec::Comm { pid: n(1)? as u32, tid: n(2)? as u32, exec: n(3)? == 1, t: n(4)?, name: str_hex(w.get(5)?) }),
                Some("mmap2") => h.recs.push(Rec::Mmap2 {
                    pid: n(1)? as u32,
                    tid: n(2)? as u32,
                    addr: n(3)?,
                    len: n(4)?,
                    pgoff: n(5)?,
                    exec: n(6)? == 1,
                    t: n(7)?,
                    path: str_hex(w.get(8)?),
                }),
                Some("switchin") => h.recs.push(Rec::SwitchIn { pid: n(1)? as u32, tid: n(2)? as u32, t: n(3)? }),
                Some("switchout") => h.recs.push(Rec::SwitchOut { pid: n(1)? as u32, tid: n(2)? as u32, t: n(3)?, preempt: w.get(4) == Some(&"preempt") }),
                Some("sched") => h.recs.push(Rec::Sched {
                    pid: n(1)? as u32,
                    tid: n(2)? as u32,
                    t: n(3)?,
                    kernel: w.get(4) == Some(&"k"),
                    ip: n(5)?,
                    chain: if w.get(6) == Some(&"-") {
                        vec![]
                    } else {
                        w.get(6)?.split(',').filter_map(|s| s.parse().ok()).collect()
                    },
                }),
                Some("oev") => h.recs.push(Rec::Other {
                    pid: n(1)? as u32,
                    tid: n(2)? as u32,
                    t: n(3)?,
                    kernel: w.get(4) == Some(&"k"),
                    ip: n(5)?,
                    chain: if w.get(6) == Some(&"-") {
                        vec![]
                    } else {
                        w.get(6)?.split(',').filter_map(|s| s.parse().ok()).collect()
                    },
                }),
                _ => return None,
            }
        }
        // sched_switch samples can only be written into a recording that has that event
        if h.recs.iter().any(|r| matches!(r, Rec::Sched { .. })) && !h.cs.as_ref().map(|c| c.sched).unwrap_or(false) {
            return None;
        }
        Some(h)
    }
}

// ---------------------------------------------------------------------------------------------
// perf.data writer

const PERF_RECORD_MMAP2: u32 = 10;
const PERF_RECORD_COMM: u32 = 3;
const PERF_RECORD_EXIT: u32 = 4;
const PERF_RECORD_FORK: u32 = 7;
const PERF_RECORD_SAMPLE: u32 = 9;
const PERF_RECORD_FINISHED_ROUND: u32 = 68;
const PERF_RECORD_SWITCH: u32 = 14;
const PERF_RECORD_SWITCH_CPU_WIDE: u32 = 15;
const PERF_RECORD_MISC_SWITCH_OUT: u16 = 1 << 13;
const PERF_RECORD_MISC_SWITCH_OUT_PREEMPT: u16 = 1 << 14;

fn rec_bytes(typ: u32, misc: u16, body: &[u8]) -> Vec<u8> {
    let size = 8 + body.len();
    assert!(size < 65536 && size % 8 == 0, "record size {size}");
    let mut v = Vec::with_capacity(size);
    v.extend_from_slice(&typ.to_le_bytes());
    v.extend_from_slice(&misc.to_le_bytes());
    v.extend_from_slice(&(size as u16).to_le_bytes());
    v.extend_from_slice(body);
    v
}

fn pad8(mut b: Vec<u8>) -> Vec<u8> {
    while b.len() % 8 != 0 {
        b.push(0);
    }
    b
}

/// How records are laid out: number of CPUs, and whether every record carries the event id (needed as soon
/// as the file has two events: `sample_type` gains PERF_SAMPLE_ID on both).
#[derive(Clone, Copy, Debug, Default)]
pub struct Enc {
    pub ncpu: u32,
    pub with_id: bool,
    pub cpu_wide: bool,
}

const ID_MAIN: u64 = 1;
const ID_SCHED: u64 = 2;
const ID_OTHER: u64 = 3;
/// name of the "other event" (HEADER_EVENT_DESC); the markers made from its samples carry this name
pub const OTHER_EVENT_NAME: &str = "probe:deep_call";

fn sample_id(e: Enc, pid: u32, tid: u32, t: u64) -> Vec<u8> {
    // trailer with sample_id_all for sample_type TID|TIME|[ID|]CPU
    let mut v = Vec::new();
    v.extend_from_slice(&pid.to_le_bytes());
    v.extend_from_slice(&tid.to_le_bytes());
    v.extend_from_slice(&t.to_le_bytes());
    if e.with_id {
        v.extend_from_slice(&ID_MAIN.to_le_bytes());
    }
    // only switch records of context-switch recordings are placed on a CPU other than 0 (see `encode_switch`)
    v.extend_from_slice(&0u32.to_le_bytes());
    v.extend_from_slice(&0u32.to_le_bytes());
    v
}

pub fn encode_record(r: &Rec) -> Vec<u8> {
    encode_record_cpu(r, 0)
}

/// `ncpu` = number of CPUs of the recording (0: every sample on CPU 0)
pub fn encode_record_cpu(r: &Rec, ncpu: u32) -> Vec<u8> {
    encode_record_enc(r, Enc { ncpu, with_id: false, cpu_wide: false })
}

fn encode_sample(e: Enc, id: u64, pid: u32, tid: u32, t: u64, kernel: bool, period: u64, ip: u64, chain: &[u64]) -> Vec<u8> {
    let mut b = Vec::new();
    b.extend_from_slice(&ip.to_le_bytes());
    b.extend_from_slice(&pid.to_le_bytes());
    b.extend_from_slice(&tid.to_le_bytes());
    b.extend_from_slice(&t.to_le_bytes());
    if e.with_id {
        b.extend_from_slice(&id.to_le_bytes());
    }
    b.extend_from_slice(&cpu_of(e.ncpu, t).to_le_bytes()); // cpu
    b.extend_from_slice(&0u32.to_le_bytes());
    b.extend_from_slice(&period.to_le_bytes());
    b.extend_from_slice(&(chain.len() as u64).to_le_bytes());
    for a in chain {
        b.extend_from_slice(&a.to_le_bytes());
    }
    rec_bytes(PERF_RECORD_SAMPLE, if kernel { 1 } else { 2 }, &b)
}

fn encode_switch(e: Enc, pid: u32, tid: u32, t: u64, misc: u16) -> Vec<u8> {
    let mut b = Vec::new();
    if e.cpu_wide {
        // next_prev_pid / next_prev_tid (not read by the converter)
        b.extend_from_slice(&7u32.to_le_bytes());
        b.extend_from_slice(&7u32.to_le_bytes());
    }
    b.extend_from_slice(&pid.to_le_bytes());
    b.extend_from_slice(&tid.to_le_bytes());
    b.extend_from_slice(&t.to_le_bytes());
    if e.with_id {
        b.extend_from_slice(&ID_MAIN.to_le_bytes());
    }
    b.extend_from_slice(&cpu_of(e.ncpu, t).to_le_bytes());
    b.extend_from_slice(&0u32.to_le_bytes());
    rec_bytes(if e.cpu_wide { PERF_RECORD_SWITCH_CPU_WIDE } else { PERF_RECORD_SWITCH }, misc, &b)
}

/// EXIT record as the kernel writes it: `ppid` / `ptid` are the ids of the *parent* task (not read by the
/// converter; a mix-up of `e.ptid` / `e.tid` in `handle_exit` must not go unnoticed)
fn encode_exit(e: Enc, pid: u32, tid: u32, ppid: u32, ptid: u32, t: u64) -> Vec<u8> {
    let mut b = Vec::new();
    b.extend_from_slice(&pid.to_le_bytes());
    b.extend_from_slice(&ppid.to_le_bytes());
    b.extend_from_slice(&tid.to_le_bytes());
    b.extend_from_slice(&ptid.to_le_bytes());
    b.extend_from_slice(&t.to_le_bytes());
    b.extend_from_slice(&sample_id(e, pid, tid, t));
    rec_bytes(PERF_RECORD_EXIT, 0, &b)
}

/// The parent ids an EXIT record of `recs[i]` carries: those of the FORK record that created the task (or its
/// process) earlier in the history, else init (1, 1).
fn exit_parent(recs: &[Rec], i: usize) -> (u32, u32) {
    let Rec::Exit { pid, tid, .. } = &recs[i] else { return (1, 1) };
    let mut of_proc = None;
    for r in recs[..i].iter().rev() {
        if let Rec::Fork { pid: p, tid: t, ppid, ptid, .. } = r {
            if p == pid && t == tid {
                return (*ppid, *ptid);
            }
            if p == pid && of_proc.is_none() {
                of_proc = Some((*ppid, *ptid));
            }
        }
    }
    of_proc.unwrap_or((1, 1))
}

/// The order in which linux-perf-data's `Sorter` (sorter.rs; driven by `PerfRecordIter::read_next_round`)
/// delivers the records of a file: `rounds` = the file's rounds, each a list of (timestamp, id) in file order.
/// The key is (timestamp, file offset). At every FINISHED_ROUND the records with key <= the maximum key of the
/// rounds before the one just finished are delivered in key order; the rest at the end of the file.
pub fn sorter_delivery(rounds: &[Vec<(u64, usize)>]) -> Vec<usize> {
    let mut out = Vec::new();
    let mut incoming: Vec<((u64, usize), usize)> = Vec::new();
    let mut prev_max: Option<(u64, usize)> = None;
    let mut cur_max: Option<(u64, usize)> = None;
    let mut lte = 0usize;
    let mut offset = 0usize;
    for round in rounds {
        for (t, id) in round {
            let key = (*t, offset);
            offset += 1;
            if Some(key) <= prev_max {
                lte += 1;
            } else if Some(key) > cur_max {
                cur_max = Some(key);
            }
            incoming.push((key, *id));
        }
        if lte > 0 {
            incoming.sort();
            out.extend(incoming.drain(..lte).map(|x| x.1));
        }
        prev_max = cur_max;
        lte = incoming.len();
    }
    incoming.sort();
    out.extend(incoming.into_iter().map(|x| x.1));
    out
}

/// Does the explicit layout of `h` deliver exactly `h.recs` in order?
pub fn layout_consistent(h: &History) -> bool {
    let n = h.recs.len();
    let mut seen = vec![false; n];
    for i in h.layout.iter().flatten() {
        if *i >= n || seen[*i] {
            return false;
        }
        seen[*i] = true;
    }
    if seen.iter().any(|b| !b) {
        return false;
    }
    let rounds: Vec<Vec<(u64, usize)>> = h.layout.iter().map(|r| r.iter().map(|i| (h.recs[*i].time(), *i)).collect()).collect();
    sorter_delivery(&rounds) == (0..n).collect::<Vec<_>>()
}

pub fn encode_record_enc(r: &Rec, e: Enc) -> Vec<u8> {
    match r {
        Rec::Sample { pid, tid, t, kernel, period, ip, chain } => encode_sample(e, ID_MAIN, *pid, *tid, *t, *kernel, *period, *ip, chain),
        Rec::Sched { pid, tid, t, kernel, ip, chain } => encode_sample(e, ID_SCHED, *pid, *tid, *t, *kernel, 1, *ip, chain),
        Rec::Other { pid, tid, t, kernel, ip, chain } => encode_sample(e, ID_OTHER, *pid, *tid, *t, *kernel, 1, *ip, chain),
        Rec::SwitchIn { pid, tid, t } => encode_switch(e, *pid, *tid, *t, 0),
        Rec::SwitchOut { pid, tid, t, preempt } => {
            encode_switch(e, *pid, *tid, *t, PERF_RECORD_MISC_SWITCH_OUT | if *preempt { PERF_RECORD_MISC_SWITCH_OUT_PREEMPT } else { 0 })
        }
        Rec::Fork { pid, tid, ppid, ptid, t } => {
            let mut b = Vec::new();
            b.extend_from_slice(&pid.to_le_bytes());
            b.extend_from_slice(&ppid.to_le_bytes());
            b.extend_from_slice(&tid.to_le_bytes());
            b.extend_from_slice(&ptid.to_le_bytes());
            b.extend_from_slice(&t.to_le_bytes());
            b.extend_from_slice(&sample_id(e, *pid, *tid, *t));
            rec_bytes(PERF_RECORD_FORK, 0, &b)
        }
        // without history context the parent is init (`write_perf_data` looks the parent up)
        Rec::Exit { pid, tid, t } => encode_exit(e, *pid, *tid, 1, 1, *t),
        Rec::Comm { pid, tid, name, exec, t } => {
            let mut b = Vec::new();
            b.extend_from_slice(&pid.to_le_bytes());
            b.extend_from_slice(&tid.to_le_bytes());
            let mut n = name.as_bytes().to_vec();
            n.push(0);
            b.extend_from_slice(&pad8(n));
            b.extend_from_slice(&sample_id(e, *pid, *tid, *t));
            rec_bytes(PERF_RECORD_COMM, if *exec { 1 << 13 } else { 0 }, &b)
        }
        Rec::Mmap2 { pid, tid, addr, len, pgoff, exec, path, t } => {
            let mut b = Vec::new();
            b.extend_from_slice(&pid.to_le_bytes());
            b.extend_from_slice(&tid.to_le_bytes());
            b.extend_from_slice(&addr.to_le_bytes());
            b.extend_from_slice(&len.to_le_bytes());
            b.extend_from_slice(&pgoff.to_le_bytes());
            b.extend_from_slice(&0u32.to_le_bytes()); // maj
            b.extend_from_slice(&0u32.to_le_bytes()); // min
            b.extend_from_slice(&0u64.to_le_bytes()); // ino
            b.extend_from_slice(&0u64.to_le_bytes()); // ino_generation
            let prot: u32 = if *exec { 5 } else { 1 };
            b.extend_from_slice(&prot.to_le_bytes());
            b.extend_from_slice(&2u32.to_le_bytes()); // flags MAP_PRIVATE
            let mut p = path.as_bytes().to_vec();
            p.push(0);
            b.extend_from_slice(&pad8(p));
            b.extend_from_slice(&sample_id(e, *pid, *tid, *t));
            rec_bytes(PERF_RECORD_MMAP2, 2, &b)
        }
    }
}

/// `perf_event_attr` (128 bytes). `which` = 0: the main event, 1: the `sched:sched_switch` tracepoint, 2: the
/// other event (a tracepoint); `multi` = the file has more than one event (PERF_SAMPLE_ID in every sample type).
fn attr_bytes(cs: Option<&CsCfg>, which: u32, multi: bool) -> Vec<u8> {
    const S_IP: u64 = 1;
    const S_TID: u64 = 2;
    const S_TIME: u64 = 4;
    const S_CALLCHAIN: u64 = 32;
    const S_ID: u64 = 64;
    const S_CPU: u64 = 128;
    const S_PERIOD: u64 = 256;
    let mut sample_type = S_IP | S_TID | S_TIME | S_CPU | S_PERIOD | S_CALLCHAIN;
    let mut flags: u64 = (1 << 18) | (1 << 8) | (1 << 9) | (1 << 13) | (1 << 23) | (1 << 24);
    let mut typ = 1u32; // software
    let mut config = 0u64; // cpu-clock
    let mut period = 1_000_000u64;
    if multi {
        sample_type |= S_ID;
    }
    if which != 0 {
        typ = 2; // tracepoint
        config = if which == 1 { 316 } else { 1234 };
        period = 1;
        flags = 1 << 18;
    }
    if let Some(cs) = cs {
        if which == 0 {
            period = cs.period;
            if cs.ctx {
                flags |= 1 << 26; // context_switch
            }
            if cs.freq {
                flags |= 1 << 10; // freq
            }
            if cs.hw {
                typ = 0; // hardware, config 0 = cpu-cycles
            }
        }
    }
    let mut v = Vec::new();
    v.extend_from_slice(&typ.to_le_bytes());
    v.extend_from_slice(&128u32.to_le_bytes()); // size
    v.extend_from_slice(&config.to_le_bytes());
    v.extend_from_slice(&period.to_le_bytes()); // sample_period / sample_freq
    v.extend_from_slice(&sample_type.to_le_bytes());
    v.extend_from_slice(&0u64.to_le_bytes()); // read_format
    v.extend_from_slice(&flags.to_le_bytes());
    while v.len() < 128 {
        v.push(0);
    }
    v
}

/// the events of a recording besides the main event: (which, name, id), in attr order
fn extra_events(h: &History) -> Vec<(u32, &'static str, u64)> {
    let mut v = Vec::new();
    if h.cs.as_ref().map(|c| c.sched).unwrap_or(false) {
        v.push((1u32, "sched:sched_switch", ID_SCHED));
    }
    if h.recs.iter().any(|r| matches!(r, Rec::Other { .. })) {
        v.push((2u32, OTHER_EVENT_NAME, ID_OTHER));
    }
    v
}

/// HEADER_EVENT_DESC: names and ids of the events (only written for recordings with more than one event)
fn event_desc_bytes(cs: Option<&CsCfg>, extra: &[(u32, &'static str, u64)]) -> Vec<u8> {
    let mut v = Vec::new();
    v.extend_from_slice(&(1 + extra.len() as u32).to_le_bytes());
    v.extend_from_slice(&128u32.to_le_bytes());
    let mut events = vec![(0u32, "cpu-clock", ID_MAIN)];
    events.extend_from_slice(extra);
    for (which, name, id) in events {
        v.extend_from_slice(&attr_bytes(cs, which, true));
        v.extend_from_slice(&1u32.to_le_bytes()); // nr_ids
        let mut n = name.as_bytes().to_vec();
        n.push(0);
        let n = pad8(n);
        v.extend_from_slice(&(n.len() as u32).to_le_bytes());
        v.extend_from_slice(&n);
        v.extend_from_slice(&id.to_le_bytes());
    }
    v
}

/// Layout of the records in the file: consecutive slices of `recs` form rounds; inside a round the
/// records are interleaved at random, keeping the relative order of records with equal timestamps, so
/// that the reader's sorter (key = (timestamp, file offset)) emits exactly `recs` in order.
pub fn write_perf_data(h: &History, path: &Path, layout_rng: &mut Rng) {
    let extra = extra_events(h);
    let two_events = !extra.is_empty();
    let enc = Enc { ncpu: h.ncpu, with_id: two_events, cpu_wide: h.cs.as_ref().map(|c| c.wide).unwrap_or(false) };
    let mut data = Vec::new();
    let n = h.recs.len();
    // EXIT records carry the ids of the parent task (looked up in the history)
    let encode = |idx: usize| -> Vec<u8> {
        match &h.recs[idx] {
            Rec::Exit { pid, tid, t } => {
                let (ppid, ptid) = exit_parent(&h.recs, idx);
                encode_exit(enc, *pid, *tid, ppid, ptid, *t)
            }
            r => encode_record_enc(r, enc),
        }
    };
    for round in &h.layout {
        for idx in round {
            data.extend_from_slice(&encode(*idx));
        }
        data.extend_from_slice(&rec_bytes(PERF_RECORD_FINISHED_ROUND, 0, &[]));
    }
    let mut i = if h.layout.is_empty() { 0 } else { n };
    while i < n {
        let round_len = match layout_rng.below(4) {
            0 => n - i,
            1 => 1 + layout_rng.below(3) as usize,
            _ => 1 + layout_rng.below(20) as usize,
        }
        .min(n - i);
        // group by timestamp, keeping order inside a group
        let mut groups: Vec<Vec<usize>> = Vec::new();
        for k in i..i + round_len {
            match groups.last_mut() {
                Some(g) if h.recs[g[0]].time() == h.recs[k].time() => g.push(k),
                _ => groups.push(vec![k]),
            }
        }
        let shuffle = layout_rng.chance(1, 2);
        let mut cursors = vec![0usize; groups.len()];
        let mut remaining = round_len;
        while remaining > 0 {
            let live: Vec<usize> = (0..groups.len()).filter(|&g| cursors[g] < groups[g].len()).collect();
            let g = if shuffle { live[layout_rng.below(live.len() as u64) as usize] } else { live[0] };
            data.extend_from_slice(&encode(groups[g][cursors[g]]));
            cursors[g] += 1;
            remaining -= 1;
        }
        data.extend_from_slice(&rec_bytes(PERF_RECORD_FINISHED_ROUND, 0, &[]));
        i += round_len;
    }

    let header_size: u64 = 104;
    let mut attr_section = attr_bytes(h.cs.as_ref(), 0, two_events);
    attr_section.extend_from_slice(&0u64.to_le_bytes()); // ids offset
    attr_section.extend_from_slice(&0u64.to_le_bytes()); // ids size
    let attr_entry_size = attr_section.len() as u64;
    for (which, _, _) in &extra {
        attr_section.extend_from_slice(&attr_bytes(h.cs.as_ref(), *which, true));
        attr_section.extend_from_slice(&0u64.to_le_bytes());
        attr_section.extend_from_slice(&0u64.to_le_bytes());
    }
    let attr_off = header_size;
    let data_off = attr_off + attr_section.len() as u64;
    let mut feat_bits = [0u64; 4];
    // feature sections in the order of their bit numbers
    let mut feats: Vec<Vec<u8>> = Vec::new();
    if two_events {
        const FEATURE_EVENT_DESC: u64 = 12;
        feat_bits[0] |= 1 << FEATURE_EVENT_DESC;
        feats.push(event_desc_bytes(h.cs.as_ref(), &extra));
    }
    if h.ref_time != 0 {
        const FEATURE_SAMPLE_TIME: u64 = 21;
        feat_bits[0] |= 1 << FEATURE_SAMPLE_TIME;
        let last = h.recs.iter().map(|r| r.time()).max().unwrap_or(h.ref_time).max(h.ref_time);
        let mut feat_data = Vec::new();
        feat_data.extend_from_slice(&h.ref_time.to_le_bytes());
        feat_data.extend_from_slice(&last.to_le_bytes());
        feats.push(feat_data);
    }
    let nfeat = feats.len() as u64;
    let feat_table_off = data_off + data.len() as u64;
    let mut feat_payload_off = feat_table_off + 16 * nfeat;
    let mut out = Vec::new();
    out.extend_from_slice(b"PERFILE2");
    out.extend_from_slice(&header_size.to_le_bytes());
    out.extend_from_slice(&attr_entry_size.to_le_bytes()); // attr_size
    out.extend_from_slice(&attr_off.to_le_bytes());
    out.extend_from_slice(&(attr_section.len() as u64).to_le_bytes());
    out.extend_from_slice(&data_off.to_le_bytes());
    out.extend_from_slice(&(data.len() as u64).to_le_bytes());
    out.extend_from_slice(&0u64.to_le_bytes()); // event_types
    out.extend_from_slice(&0u64.to_le_bytes());
    for b in feat_bits {
        out.extend_from_slice(&b.to_le_bytes());
    }
    assert_eq!(out.len(), 104);
    out.extend_from_slice(&attr_section);
    out.extend_from_slice(&data);
    for f in &feats {
        out.extend_from_slice(&feat_payload_off.to_le_bytes());
        out.extend_from_slice(&(f.len() as u64).to_le_bytes());
        feat_payload_off += f.len() as u64;
    }
    for f in &feats {
        out.extend_from_slice(f);
    }
    std::fs::write(path, out).expect("write perf.data");
}

// ---------------------------------------------------------------------------------------------
// running samply

pub fn samply_bin() -> PathBuf {
    PathBuf::from(std::env::var("SAMPLY_VERIF_BIN").unwrap_or_else(|_| "/verif/.target/samply/debug/samply".to_string()))
}

pub fn work_tmp(id: &str) -> PathBuf {
    let root = std::env::var("VERIF_ROOT").unwrap_or_else(|_| "/verif".to_string());
    let p = PathBuf::from(root).join(".work").join(id).join("tmp");
    std::fs::create_dir_all(&p).ok();
    p
}

// perf map files: `try_load_perf_map` reads the hard-coded path `/tmp/perf-<pid>.map`. The pids of the op
// lines that have perf map lines are replaced, in the perf.data file and in the file names, by pids from
// `1_000_000_000 + 256 * <pid of this harness process> + slot` (below 2^31; no real process and no other
// harness process uses them), the files exist only while the case runs, and the extraction maps the ids
// back, so the op lines and the outputs never mention the substitute pids.

static PERF_MAP_SLOTS: std::sync::Mutex<[bool; 256]> = std::sync::Mutex::new([false; 256]);

pub struct PidSubst {
    /// (pid in the op lines, pid in the recording)
    pub pairs: Vec<(u32, u32)>,
    slots: Vec<usize>,
    files: Vec<PathBuf>,
}

impl PidSubst {
    pub fn none() -> Self {
        PidSubst { pairs: Vec::new(), slots: Vec::new(), files: Vec::new() }
    }
    pub fn fwd(&self, id: u32) -> u32 {
        self.pairs.iter().find(|p| p.0 == id).map(|p| p.1).unwrap_or(id)
    }
    /// replace every substitute pid in a text by the pid of the op lines
    pub fn back_str(&self, s: &str) -> String {
        let mut out = s.to_string();
        for (op, actual) in &self.pairs {
            let a = actual.to_string();
            if out.contains(&a) {
                out = out.replace(&a, &op.to_string());
            }
        }
        out
    }
    pub fn new(h: &History) -> Self {
        let mut pids: Vec<u32> = h.perf_maps.iter().map(|x| x.0).collect();
        pids.sort();
        pids.dedup();
        let mut me = PidSubst::none();
        if pids.is_empty() {
            return me;
        }
        let base = 1_000_000_000u32 + 256 * (std::process::id() % (1 << 22));
        loop {
            {
                let mut slots = PERF_MAP_SLOTS.lock().unwrap();
                let free: Vec<usize> = (0..256).filter(|i| !slots[*i]).take(pids.len()).collect();
                if free.len() == pids.len() {
                    for i in &free {
                        slots[*i] = true;
                    }
                    me.slots = free;
                    break;
                }
            }
            std::thread::sleep(std::time::Duration::from_millis(5));
        }
        for (k, pid) in pids.iter().enumerate() {
            let actual = base + me.slots[k] as u32;
            me.pairs.push((*pid, actual));
            let mut text = String::new();
            for (p, l) in &h.perf_maps {
                if p == pid {
                    text.push_str(&l.text());
                    text.push('\n');
                }
            }
            let path = PathBuf::from(format!("/tmp/perf-{actual}.map"));
            std::fs::write(&path, text).expect("write perf map");
            me.files.push(path);
        }
        me
    }
    pub fn apply(&self, h: &History) -> History {
        if self.pairs.is_empty() {
            return h.clone();
        }
        let f = |id: &u32| self.fwd(*id);
        let mut out = h.clone();
        for r in out.recs.iter_mut() {
            match r {
                Rec::Sample { pid, tid, .. }
                | Rec::Exit { pid, tid, .. }
                | Rec::Comm { pid, tid, .. }
                | Rec::Mmap2 { pid, tid, .. }
                | Rec::SwitchIn { pid, tid, .. }
                | Rec::SwitchOut { pid, tid, .. }
                | Rec::Sched { pid, tid, .. }
                | Rec::Other { pid, tid, .. } => {
                    *pid = f(pid);
                    *tid = f(tid);
                }
                Rec::Fork { pid, tid, ppid, ptid, .. } => {
                    *pid = f(pid);
                    *tid = f(tid);
                    *ppid = f(ppid);
                    *ptid = f(ptid);
                }
            }
        }
        out
    }
}

impl Drop for PidSubst {
    fn drop(&mut self) {
        for f in &self.files {
            let _ = std::fs::remove_file(f);
        }
        if !self.slots.is_empty() {
            let mut slots = PERF_MAP_SLOTS.lock().unwrap();
            for i in &self.slots {
                slots[*i] = false;
            }
        }
    }
}

/// Runs `samply import` on the history; returns the profile JSON or an error class.
pub fn run_import(h: &History, dir: &Path, tag: &str, extra_args: &[&str]) -> Result<Value, String> {
    run_import_subst(h, dir, tag, extra_args).map(|x| x.0)
}

/// As `run_import`; also returns the pid substitution that was in force (for `extract_views_subst`).
pub fn run_import_subst(h: &History, dir: &Path, tag: &str, extra_args: &[&str]) -> Result<(Value, PidSubst), String> {
    if h.layout.is_empty() && h.recs.windows(2).any(|w| w[0].time() > w[1].time()) {
        // records that are not time-ordered need an explicit file layout
        return Err("err:layout".to_string());
    }
    if !h.layout.is_empty() && !layout_consistent(h) {
        // the op lines do not list the records in the order the sorter delivers them from this layout
        return Err("err:layout".to_string());
    }
    // the names must be unique per call: two cases with identical op lines (same content hash in `tag`) may run
    // at the same time on different worker threads, and one would remove the other's files (seen as a transient
    // `err:exit1` under load)
    static IMPORT_SEQ: std::sync::atomic::AtomicU64 = std::sync::atomic::AtomicU64::new(0);
    let uniq = format!("{}-{}", std::process::id(), IMPORT_SEQ.fetch_add(1, std::sync::atomic::Ordering::Relaxed));
    let data = dir.join(format!("{tag}-{uniq}.data"));
    let out = dir.join(format!("{tag}-{uniq}.json"));
    let mut layout = Rng::new(fnv1a(&h.to_ops()));
    let subst = PidSubst::new(h);
    // the time order of the records does not depend on the ids, so the layout is the same
    write_perf_data(&subst.apply(h), &data, &mut layout);
    let mut cmd = Command::new(samply_bin());
    cmd.arg("import").arg(&data).arg("--save-only").arg("-o").arg(&out);
    if h.reuse {
        cmd.arg("--reuse-threads");
    }
    if h.fold {
        cmd.arg("--fold-recursive-prefix");
    }
    if h.ncpu != 0 {
        cmd.arg("--per-cpu-threads");
    }
    for a in extra_args {
        cmd.arg(a);
    }
    let res = cmd.output().map_err(|e| format!("err:spawn:{e}"))?;
    let result = if !res.status.success() {
        let stderr = String::from_utf8_lossy(&res.stderr);
        if stderr.contains("panicked") {
            Err("panic".to_string())
        } else {
            if std::env::var("VERIF_VERBOSE").is_ok() {
                eprintln!("samply import failed ({:?}): {}", res.status, stderr.chars().take(400).collect::<String>());
            }
            Err(format!("err:exit{}", res.status.code().unwrap_or(-1)))
        }
    } else {
        std::fs::read(&out)
            .map_err(|_| "err:nooutput".to_string())
            .and_then(|b| serde_json::from_slice::<Value>(&b).map_err(|_| "err:badjson".to_string()))
    };
    let _ = std::fs::remove_file(&data);
    let _ = std::fs::remove_file(&out);
    result.map(|v| (v, subst))
}

// ---------------------------------------------------------------------------------------------
// view extraction

#[derive(Clone, Debug, PartialEq, Eq, PartialOrd, Ord)]
pub enum Frame {
    Lib(String, u64),
    Raw(u64),
    Elided(u64),
    /// a label frame that is not flagged as JS (the per-CPU thread label)
    Label(String),
    /// a label frame flagged as JS (prepended for a JIT function classified as JS)
    JsLabel(String),
}

#[derive(Clone, Debug)]
pub struct OutSample {
    pub t: u64,
    pub weight: i64,
    pub cpu: u64,
    pub frames: Vec<Frame>,
}

#[derive(Clone, Debug)]
pub struct View {
    pub pid: String,
    pub tid: String,
    pub is_main: bool,
    pub name: String,
    pub process_name: String,
    pub start: u64,
    pub end: Option<u64>,
    pub pstart: u64,
    pub pend: Option<u64>,
    pub samples: Vec<OutSample>,
    /// markers of type "Other event": (start time, cause stack if the marker has one)
    pub markers: Vec<(u64, Option<Vec<Frame>>)>,
}

fn ms_to_ns(v: &Value) -> Option<u64> {
    v.as_f64().map(|ms| (ms * 1e6).round() as u64)
}

pub fn extract_views(p: &Value) -> Result<Vec<View>, String> {
    extract_views_subst(p, &PidSubst::none())
}

fn back_id(subst: &PidSubst, s: &str) -> String {
    // "<id>" or "<id>.<suffix>"
    let (base, rest) = match s.find('.') {
        Some(i) => (&s[..i], &s[i..]),
        None => (s, ""),
    };
    match base.parse::<u32>() {
        Ok(id) => match subst.pairs.iter().find(|p| p.1 == id) {
            Some(p) => format!("{}{}", p.0, rest),
            None => s.to_string(),
        },
        Err(_) => s.to_string(),
    }
}

pub fn extract_views_subst(p: &Value, subst: &PidSubst) -> Result<Vec<View>, String> {
    let libs = p["libs"].as_array().ok_or("no libs")?;
    let mut views = Vec::new();
    for t in p["threads"].as_array().ok_or("no threads")? {
        let strings: Vec<&str> = t["stringArray"].as_array().map(|a| a.iter().map(|s| s.as_str().unwrap_or("")).collect()).unwrap_or_default();
        let ft = &t["frameTable"];
        let fu = &t["funcTable"];
        let rt = &t["resourceTable"];
        let st = &t["stackTable"];
        let frame_of = |f: usize| -> Frame {
            let func = ft["func"][f].as_u64().unwrap_or(0) as usize;
            let res = fu["resource"][func].as_i64().unwrap_or(-1);
            if res >= 0 {
                let lib = rt["lib"][res as usize].as_u64().unwrap_or(0) as usize;
                let path = subst.back_str(libs.get(lib).and_then(|l| l["path"].as_str()).unwrap_or("?"));
                Frame::Lib(path, ft["address"][f].as_i64().unwrap_or(-1) as u64)
            } else {
                let name = fu["name"][func].as_u64().and_then(|i| strings.get(i as usize).copied()).unwrap_or("");
                if fu["isJS"][func].as_bool() == Some(true) {
                    return Frame::JsLabel(subst.back_str(name));
                }
                if let Some(h) = name.strip_prefix("0x") {
                    if let Ok(a) = u64::from_str_radix(h, 16) {
                        return Frame::Raw(a);
                    }
                }
                if let Some(rest) = name.strip_prefix('(') {
                    if let Some(n) = rest.strip_suffix(" frames elided)") {
                        if let Ok(c) = n.parse() {
                            return Frame::Elided(c);
                        }
                    }
                }
                Frame::Label(subst.back_str(name))
            }
        };
        let stack_frames = |start: Option<u64>| -> Result<Vec<Frame>, String> {
            let mut frames = Vec::new();
            let mut cur = start;
            let mut guard = 0;
            while let Some(si) = cur {
                frames.push(frame_of(st["frame"][si as usize].as_u64().unwrap_or(0) as usize));
                cur = st["prefix"][si as usize].as_u64();
                guard += 1;
                if guard > 100_000 {
                    return Err("stack cycle".into());
                }
            }
            frames.reverse();
            Ok(frames)
        };
        // markers made by `handle_other_event_sample` (type "Other event"), with their cause stack
        let mut markers = Vec::new();
        let m = &t["markers"];
        for i in 0..m["length"].as_u64().unwrap_or(0) as usize {
            let d = &m["data"][i];
            if d["type"].as_str() != Some("Other event") {
                continue;
            }
            let start = ms_to_ns(&m["startTime"][i]).unwrap_or(0);
            let stack = match d["cause"]["stack"].as_u64() {
                Some(si) => Some(stack_frames(Some(si))?),
                None => None,
            };
            markers.push((start, stack));
        }
        let mut samples = Vec::new();
        let s = &t["samples"];
        let n = s["length"].as_u64().unwrap_or(0) as usize;
        let mut time = 0u64;
        for i in 0..n {
            time += ms_to_ns(&s["timeDeltas"][i]).ok_or("bad delta")?;
            let frames = stack_frames(s["stack"][i].as_u64())?;
            samples.push(OutSample {
                t: time,
                weight: s["weight"][i].as_i64().unwrap_or(0),
                // threadCPUDelta is in µs in the JSON
                cpu: s["threadCPUDelta"][i].as_u64().unwrap_or(0),
                frames,
            });
        }
        views.push(View {
            pid: back_id(subst, &t["pid"].as_str().map(|s| s.to_string()).unwrap_or_else(|| t["pid"].to_string())),
            tid: back_id(subst, &t["tid"].as_str().map(|s| s.to_string()).unwrap_or_else(|| t["tid"].to_string())),
            is_main: t["isMainThread"].as_bool().unwrap_or(false),
            name: subst.back_str(t["name"].as_str().unwrap_or("")),
            process_name: subst.back_str(t["processName"].as_str().unwrap_or("")),
            start: ms_to_ns(&t["registerTime"]).unwrap_or(0),
            end: ms_to_ns(&t["unregisterTime"]),
            pstart: ms_to_ns(&t["processStartupTime"]).unwrap_or(0),
            pend: ms_to_ns(&t["processShutdownTime"]),
            samples,
            markers,
        });
    }
    Ok(views)
}

#[derive(Clone, Copy, PartialEq, Eq, Debug)]
pub enum Proj {
    C01,
    C17,
    C02,
    C14,
    Full,
    /// context-switch families (C12 `conv` mode, C01): `s <t> <on|off> <weight> <cpuDelta µs>`
    Cs,
}

/// Call-chain addresses of generated `sched:sched_switch` samples lie in this range and nowhere else, so that
/// an output sample carrying the stored off-CPU stack can be told from an on-CPU sample (an off-CPU stack
/// without user frames is empty; the stack of an on-CPU sample never is).
pub const OFF_STACK_BASE: u64 = 0x0ff0_0000;
pub const OFF_STACK_END: u64 = 0x0ff1_0000;

pub fn is_off_stack(fs: &[Frame]) -> bool {
    fs.iter().all(|f| matches!(f, Frame::Raw(a) if (OFF_STACK_BASE..OFF_STACK_END).contains(a)))
}

pub fn show_frame(f: &Frame) -> String {
    match f {
        Frame::Lib(p, r) => format!("l:{}:{}", hex_str(p), r),
        Frame::Raw(a) => format!("r:{a}"),
        Frame::Elided(c) => format!("e:{c}"),
        Frame::Label(s) => format!("x:{}", hex_str(s)),
        Frame::JsLabel(s) => format!("j:{}", hex_str(s)),
    }
}

pub fn show_frames(fs: &[Frame]) -> String {
    if fs.is_empty() {
        "-".to_string()
    } else {
        fs.iter().map(show_frame).collect::<Vec<_>>().join(" ")
    }
}

pub fn show_frames_c14(fs: &[Frame]) -> String {
    let n = fs.len();
    let pick = |l: &[Frame]| l.iter().map(show_frame).collect::<Vec<_>>().join(" ");
    match fs.iter().position(|f| matches!(f, Frame::Elided(_))) {
        None => {
            if n <= 8 {
                format!("d={n} {}", show_frames(fs))
            } else {
                format!("d={n} {} .. {}", pick(&fs[..3]), pick(&fs[n - 3..]))
            }
        }
        Some(i) => {
            let lo = i.saturating_sub(2);
            let mid: Vec<Frame> = fs[lo..].iter().take(5).cloned().collect();
            format!("d={n} at={i} {} .. {} .. {}", pick(&fs[..2.min(n)]), pick(&mid), pick(&fs[n.saturating_sub(2)..]))
        }
    }
}

fn opt(o: Option<u64>) -> String {
    o.map(|v| v.to_string()).unwrap_or_else(|| "none".to_string())
}

pub fn render(proj: Proj, views: &[View]) -> Vec<String> {
    let mut vs: Vec<&View> = views.iter().collect();
    vs.sort_by(|a, b| format!("{} {}", a.pid, a.tid).cmp(&format!("{} {}", b.pid, b.tid)));
    let mut out = Vec::new();
    for v in vs {
        let mut samples: Vec<&OutSample> = v.samples.iter().collect();
        if proj == Proj::Cs {
            samples.sort_by_key(|o| (o.t, !is_off_stack(&o.frames), o.weight, o.cpu));
        } else {
            samples.sort_by_key(|o| format!("{} {}", 1_000_000_000_000_000_000_000u128 + o.t as u128, show_frames(&o.frames)));
        }
        let full_head = format!(
            "thread {} {} main={} name={} pname={} start={} end={} pstart={} pend={}",
            v.pid,
            v.tid,
            v.is_main as u8,
            hex_str(&v.name),
            hex_str(&v.process_name),
            v.start,
            opt(v.end),
            v.pstart,
            opt(v.pend)
        );
        match proj {
            Proj::C17 => out.push(full_head),
            Proj::Full => out.push(format!("{full_head} n={}", v.samples.len())),
            _ => out.push(format!("thread {} {} n={}", v.pid, v.tid, v.samples.len())),
        }
        for o in samples {
            let mut l = String::new();
            match proj {
                Proj::C01 => write!(l, "s {} {}", o.t, o.weight).unwrap(),
                Proj::C17 => continue,
                Proj::C02 => write!(l, "s {} {}", o.t, show_frames(&o.frames)).unwrap(),
                Proj::C14 => write!(l, "s {} {}", o.t, show_frames_c14(&o.frames)).unwrap(),
                // threadCPUDelta is serialized in µs: compare period / 1000
                Proj::Full => write!(l, "s {} {} {} {}", o.t, o.weight, o.cpu, show_frames(&o.frames)).unwrap(),
                Proj::Cs => write!(l, "s {} {} {} {}", o.t, if is_off_stack(&o.frames) { "off" } else { "on" }, o.weight, o.cpu).unwrap(),
            }
            out.push(l);
        }
        // marker stacks (extra lines; only recordings with `oev` ops have such markers)
        if proj != Proj::C17 {
            let mut ms: Vec<String> = v
                .markers
                .iter()
                .map(|(t, st)| match (proj, st) {
                    (_, None) => format!("m {t} nostack"),
                    (Proj::C14, Some(f)) => format!("m {t} {}", show_frames_c14(f)),
                    (Proj::C02 | Proj::Full, Some(f)) => format!("m {t} {}", show_frames(f)),
                    (_, Some(_)) => format!("m {t}"),
                })
                .collect();
            ms.sort();
            out.extend(ms);
        }
    }
    out
}

/// `samply import` + projection; errors become a single line.
pub fn import_and_render(h: &History, proj: Proj, dir: &Path, tag: &str, stats: &mut Stats) -> Vec<String> {
    match run_import_subst(h, dir, tag, &[]) {
        Ok((json, subst)) => match extract_views_subst(&json, &subst) {
            Ok(v) => {
                stats.add("thread_entries", v.len() as u64);
                stats.add("output_samples", v.iter().map(|x| x.samples.len() as u64).sum());
                render(proj, &v)
            }
            Err(e) => vec![format!("err:extract:{e}")],
        },
        Err(e) => {
            stats.bump(&format!("import_{}", e.split(':').next().unwrap_or("err")));
            vec![e]
        }
    }
}

/// counters over the records of a history
pub fn count_history(h: &History, stats: &mut Stats) {
    let mut kinds: BTreeMap<&str, u64> = BTreeMap::new();
    for r in &h.recs {
        *kinds
            .entry(match r {
                Rec::Sample { .. } => "rec_sample",
                Rec::Fork { .. } => "rec_fork",
                Rec::Exit { .. } => "rec_exit",
                Rec::Comm { exec: true, .. } => "rec_exec",
                Rec::Comm { .. } => "rec_comm",
                Rec::Mmap2 { .. } => "rec_mmap2",
                Rec::SwitchIn { .. } => "rec_switch_in",
                Rec::SwitchOut { preempt: true, .. } => "rec_switch_out_preempt",
                Rec::SwitchOut { .. } => "rec_switch_out",
                Rec::Sched { .. } => "rec_sched_switch",
                Rec::Other { .. } => "rec_other_event",
            })
            .or_insert(0) += 1;
    }
    for (k, v) in kinds {
        stats.add(k, v);
    }
    if h.reuse {
        stats.bump("cfg_reuse");
    }
    if h.fold {
        stats.bump("cfg_fold");
    }
    if h.ref_time != 0 {
        stats.bump("cfg_sample_time_feature");
    }
}

// ---------------------------------------------------------------------------------------------
// history generator

#[derive(Clone, Debug)]
pub struct Shape {
    /// upper bound on the number of records
    pub max_len: u64,
    /// emit MMAP2 records and call chains with mapped / unmapped / boundary addresses
    pub mappings: bool,
    /// percentage of cases drawn from the grammar-violating stream
    pub violate_pct: u64,
    /// allow `--reuse-threads`
    pub allow_reuse: bool,
    /// allow `--fold-recursive-prefix`
    pub allow_fold: bool,
    /// ELF files present on disk that MMAP2 records may name (empty = offset-based attribution only)
    pub files: Vec<ElfDecl>,
    /// generate `/tmp/perf-<pid>.map` files for some pids and call-chain addresses in / around their functions
    pub jit: bool,
}

/// Names for perf-map functions: every branch of `JitCategoryManager::classify_jit_symbol` and of
/// `handle_for_js_name` (JS prefixes of the table, non-JS prefixes, baseline interpreter / stub / BlinterpOp,
/// IonIC with and without a function, V8 wasm names, self-hosted names, JSC `[Call …]` names, plain names).
pub const JIT_NAMES: [&str; 46] = [
    "py::f",
    "py::g (file.py:12)",
    "py::",
    "JS:~foo app.js:1:2",
    "JS:^bar",
    "JS:+m",
    "JS:*t",
    "JS:?q",
    "Script:~top",
    "Builtin:ArrayPush",
    "BytecodeHandler:Ldar",
    "Interpreter: run (a.js:3:4)",
    "BaselineThunk: x",
    "Baseline: b (a.js:1:1)",
    "PolymorphicCallStubBaseline: p",
    "PolymorphicAccessStubBaseline: pa",
    "Ion: ionf (a.js:9:9)",
    "Wasm: w",
    "BaselineIC: ic",
    "IC: ic2",
    "Trampoline: tr",
    "WasmTrampoline: wt",
    "VMWrapper: vm",
    "Baseline JIT code for jscf",
    "DFG JIT code for DFG: dfgf",
    "FTL B3 code for FTL: ftlf",
    "LLInt: ll",
    "BaselineInterpreter",
    "BlinterpOp: JumpTarget",
    "BaselineInterpreter: stubbed (a.js:5:5)",
    "BaselineInterpreter: map (self-hosted:12:3)",
    "IonIC: SetElem : AccessibleButton (main.js:3560:25)",
    "IonIC: GetProp",
    "JS:wasm-function[5206]-5206-liftoff",
    "JS:SceneBuilder._pushLayer-10063-turbofan",
    "JS:noindex-liftoff",
    "JS:plain",
    "Ion: forEach[Call (StrictMode)]",
    "Interpreter: diffProps[Call (StrictMode)] /home/index.js:123:12",
    "Ion: mk[Construct] a.js:1:1",
    "Ion: br[Call",
    "Ion: map (self-hosted:12:3)",
    "Ion: valueIsFalsey",
    "Baseline: xvalueIsTruthy",
    "plain_native_jit",
    "run_wasm_sm.js line 41 > WebAssembly.Module:916249: Function Element.updateChild",
];

/// Lines that `process_perf_map_line` rejects, and unusual spellings it accepts.
pub const PERF_MAP_ODD_LINES: [&str; 16] = [
    "",
    "garbage",
    "5000f000 20",
    "5000f000 20 ",
    "5000f000  20 py::doublespace",
    "G000f000 20 py::badhex",
    "5000f000 2z py::badlen",
    "-5000f000 20 py::minus",
    " 5000f000 20 py::leadingspace",
    "10000000000000000 20 py::toolong",
    "0x5000f000 0x20 py::with0x",
    "0x0x5000f040 0x0x20 py::twice0x",
    "+5000f080 +20 py::plus",
    "5000F0C0 2A py::UPPER",
    "5000f100 20 py::name with  spaces ",
    "0x 20 py::empty-after-0x",
];

/// A perf map file: lines in file order, and the address ranges `(start, end)` its well-formed lines
/// declare (for aiming call-chain addresses; the harness does not interpret the file any further).
pub fn gen_perf_map(rng: &mut Rng) -> (Vec<PerfMapLine>, Vec<(u64, u64)>) {
    let mut lines = Vec::new();
    let mut ranges: Vec<(u64, u64)> = Vec::new();
    let mut cursor = 0x5000_0000u64 + 0x100 * rng.below(16);
    let n = rng.range(1, 10);
    let name = |rng: &mut Rng| -> String {
        // JS-classified names are the interesting ones: bias towards them
        match rng.below(4) {
            0 => "py::f".to_string(),
            _ => rng.pick(&JIT_NAMES).to_string(),
        }
    };
    let len_of = |rng: &mut Rng| -> u64 { *rng.pick(&[1u64, 2, 0x10, 0x10, 0x40, 0x123, 0x1000]) };
    for _ in 0..n {
        match rng.below(100) {
            0..=54 => {
                let len = len_of(rng);
                lines.push(PerfMapLine::Fn { addr: cursor, len, name: name(rng) });
                ranges.push((cursor, cursor + len));
                cursor += len + *rng.pick(&[0u64, 0, 1, 0x10]);
            }
            55..=68 if !ranges.is_empty() => {
                // overlap an earlier function: same start, inside, across its end, containing it
                let (s, e) = ranges[rng.below(ranges.len() as u64) as usize];
                let l0 = (e - s).max(1);
                let (addr, len) = match rng.below(5) {
                    0 => (s, len_of(rng)),
                    1 => (s + l0 / 2, len_of(rng)),
                    2 => (e - 1, 2),
                    3 => (s.saturating_sub(1), l0 + 2),
                    _ => (s + 1, l0.saturating_sub(2)),
                };
                lines.push(PerfMapLine::Fn { addr, len, name: name(rng) });
                ranges.push((addr, addr + len));
            }
            69..=75 => {
                // zero-length function: at a fresh address or at the start / inside / end of an earlier one
                let addr = if ranges.is_empty() || rng.chance(1, 3) {
                    cursor
                } else {
                    let (s, e) = ranges[rng.below(ranges.len() as u64) as usize];
                    *rng.pick(&[s, (s + e) / 2, e])
                };
                lines.push(PerfMapLine::Fn { addr, len: 0, name: name(rng) });
                ranges.push((addr, addr));
            }
            76..=85 => {
                // inside the address grid of the regular mappings (a regular mapping wins where both cover)
                let addr = 0x40_0000 + rng.below(0x48000);
                let len = len_of(rng);
                lines.push(PerfMapLine::Fn { addr, len, name: name(rng) });
                ranges.push((addr, addr + len));
            }
            _ => {
                let l = rng.pick(&PERF_MAP_ODD_LINES).to_string();
                // the spellings the parser accepts declare functions in this range
                ranges.push((0x5000_f000, 0x5000_f120));
                lines.push(PerfMapLine::Raw(l));
            }
        }
    }
    (lines, ranges)
}

/// Harness-side mirror of which (pid, tid) incarnations are alive in the eager reading of a history
/// (`ConvSpec.Life.step` in the Lean specification), and of the grammar clauses under which C17 is judged
/// (`ConvSpec.Life.stepOk`: a FORK never names a bound child, `tid != pid`, `tid != ptid`, EXEC on main threads
/// only). Used to steer the non-violating generator stream and to count the judged share of the cases; the
/// authoritative decision is the Lean judge's.
#[derive(Clone, Debug, Default)]
pub struct LifeTrack {
    /// alive processes: pid -> alive non-main tids (the main thread is alive exactly as long as the process)
    pub procs: BTreeMap<u32, Vec<u32>>,
    /// `current_sample_time` (starts at the reference time)
    pub cur: u64,
    pub ref_time: u64,
    /// (pid, tid) pairs that have exited (or whose process has exited / exec'd) and were not re-created since
    pub exited: Vec<(u32, u32)>,
}

impl LifeTrack {
    pub fn new(ref_time: u64) -> Self {
        LifeTrack { cur: ref_time, ref_time, ..Default::default() }
    }
    pub fn alive(&self, pid: u32, tid: u32) -> bool {
        self.procs.get(&pid).map(|t| tid == pid || t.contains(&tid)).unwrap_or(false)
    }
    fn ensure_thread(&mut self, pid: u32, tid: u32) {
        let e = self.procs.entry(pid).or_default();
        if tid != pid && !e.contains(&tid) {
            e.push(tid);
        }
        self.exited.retain(|x| *x != (pid, tid) && *x != (pid, pid));
    }
    fn end_proc(&mut self, pid: u32) {
        if let Some(tids) = self.procs.remove(&pid) {
            self.exited.push((pid, pid));
            for t in tids {
                self.exited.push((pid, t));
            }
        }
    }
    /// `Life.stepOk` evaluated in the state before the record
    pub fn step_ok(&self, r: &Rec) -> bool {
        match r {
            Rec::Fork { pid, tid, ppid, ptid, .. } => {
                if pid != ppid {
                    !self.procs.contains_key(pid)
                } else {
                    tid != pid && tid != ptid && !self.alive(*pid, *tid)
                }
            }
            Rec::Comm { pid, tid, exec, .. } => !*exec || pid == tid,
            _ => true,
        }
    }
    /// does the record mention a (pid, tid) that has exited and was not re-created (the converter then
    /// creates a fresh on-demand entry)?
    pub fn mentions_exited(&self, r: &Rec) -> bool {
        let (pid, tid) = match r {
            Rec::Sample { pid, tid, .. }
            | Rec::Exit { pid, tid, .. }
            | Rec::Comm { pid, tid, .. }
            | Rec::Mmap2 { pid, tid, .. }
            | Rec::SwitchIn { pid, tid, .. }
            | Rec::SwitchOut { pid, tid, .. }
            | Rec::Sched { pid, tid, .. }
            | Rec::Other { pid, tid, .. } => (*pid, *tid),
            Rec::Fork { ppid, ptid, .. } => (*ppid, *ptid),
        };
        self.exited.contains(&(pid, tid)) || (self.exited.contains(&(pid, pid)) && !self.procs.contains_key(&pid))
    }
    /// a non-main thread's EXIT for a pid without live process (e.g. after the main thread's EXIT, the kernel's
    /// order for exit_group with a zombie leader): ignored by the converter since fix 8ede2c85
    /// (`handle_exit` -> `get_existing_by_pid`; before, `get_by_pid` created a phantom process entry)
    pub fn orphan_thread_exit(&self, r: &Rec) -> bool {
        matches!(r, Rec::Exit { pid, tid, .. } if pid != tid && !self.procs.contains_key(pid))
    }
    pub fn step(&mut self, r: &Rec) {
        match r {
            Rec::Sample { pid, tid, t, .. } => {
                if *tid != 0 {
                    self.cur = *t;
                    self.ensure_thread(*pid, *tid);
                }
            }
            Rec::Fork { pid, tid, ppid, ptid, .. } => {
                if pid != ppid {
                    self.ensure_thread(*ppid, *ppid);
                    if !self.procs.contains_key(pid) {
                        self.ensure_thread(*pid, *pid);
                    }
                } else {
                    self.ensure_thread(*ppid, *ptid);
                    self.ensure_thread(*pid, *tid);
                }
            }
            Rec::Exit { pid, tid, .. } => {
                if pid == tid {
                    self.end_proc(*pid);
                } else {
                    // an EXIT record creates nothing in the eager reading
                    if let Some(e) = self.procs.get_mut(pid) {
                        if e.contains(tid) {
                            e.retain(|x| x != tid);
                            self.exited.push((*pid, *tid));
                        }
                    }
                }
            }
            Rec::Comm { pid, tid, exec, .. } => {
                if *exec && pid == tid {
                    self.end_proc(*pid);
                }
                self.ensure_thread(*pid, *tid);
            }
            Rec::Mmap2 { pid, tid, exec, path, .. } => {
                if !(self.cur == self.ref_time || path.is_empty()) {
                    self.ensure_thread(*pid, *tid);
                }
                if *exec {
                    self.ensure_thread(*pid, *pid);
                }
            }
            Rec::SwitchIn { pid, tid, .. } | Rec::SwitchOut { pid, tid, .. } => {
                if *tid != 0 {
                    self.ensure_thread(*pid, *tid);
                }
            }
            Rec::Sched { pid, tid, .. } | Rec::Other { pid, tid, .. } => self.ensure_thread(*pid, *tid),
        }
    }
}

/// Is the history inside the grammar under which the C17 judge applies (default options, `Life.grammarOk`)?
pub fn c17_judged(h: &History) -> bool {
    if h.reuse {
        return false;
    }
    let mut lt = LifeTrack::new(h.ref_time);
    for r in &h.recs {
        if !lt.step_ok(r) {
            return false;
        }
        lt.step(r);
    }
    true
}

struct Sim {
    /// live processes: pid -> live non-main tids
    live: BTreeMap<u32, Vec<u32>>,
    maps: BTreeMap<u32, Vec<(u64, u64)>>,
    t: u64,
    next_new_pid: u32,
}

// the last five: non-ASCII (2- and 3-byte UTF-8), 15 bytes (TASK_COMM_LEN - 1, the longest the kernel writes),
// 16 bytes, empty
const NAMES: [&str; 12] = ["a", "b", "proc", "worker", "sh", "render thread", "x", "caf\u{e9}-thr\u{e9}ad", "\u{65e5}\u{672c}\u{8a9e}", "fifteen-bytes-x", "sixteen-bytes-xy", ""];
// two of the paths share a file name (libraries are identified by path, not by name)
const PATHS: [&str; 6] = [
    "/nonexistent-verif/bin/app",
    "/nonexistent-verif/lib/libfoo.so",
    "/nonexistent-verif/lib/libbar.so.1",
    "/nonexistent-verif/opt/tool",
    "/nonexistent-verif/opt/app/lib/libfoo.so",
    "/nonexistent-verif/opt/app/bin/app",
];

pub fn gen_history(rng: &mut Rng, shape: &Shape) -> History {
    let violate = rng.below(100) < shape.violate_pct;
    let mut h = History {
        reuse: shape.allow_reuse && rng.chance(1, 3),
        fold: shape.allow_fold && rng.chance(1, 4),
        ref_time: 0,
        recs: Vec::new(),
        files: shape.files.clone(),
        ..Default::default()
    };
    let base_t = 1_000_000 * rng.range(1, 50);
    let mut sim = Sim { live: BTreeMap::new(), maps: BTreeMap::new(), t: base_t, next_new_pid: 300 };
    let pid_pool: Vec<u32> = vec![100, 101, 200, 250];
    // perf map files (not with --reuse-threads: the JIT function recycler is not modelled)
    let mut jit: BTreeMap<u32, Vec<(u64, u64)>> = BTreeMap::new();
    if shape.jit && !h.reuse && rng.chance(3, 5) {
        for pid in [100u32, 101, 200, 250, 301, 302] {
            if rng.chance(1, 3) {
                let (lines, ranges) = gen_perf_map(rng);
                for l in lines {
                    h.perf_maps.push((pid, l));
                }
                jit.insert(pid, ranges);
            }
        }
    }
    let len = if rng.chance(1, 8) { rng.range(shape.max_len / 2, shape.max_len) } else { rng.range(3, (shape.max_len / 4).max(6)) };
    // time step: mostly a few µs..ms, with frequent zero steps (ties)
    let step = |rng: &mut Rng| -> u64 {
        match rng.below(6) {
            0 => 0,
            1 => 1,
            2 => rng.range(1, 999),
            _ => 1000 * rng.range(1, 3000),
        }
    };
    let gen_chain = |rng: &mut Rng, sim: &Sim, pid: u32, shape: &Shape| -> (bool, u64, Vec<u64>) {
        let kernel_mode = rng.chance(1, 8);
        if !shape.mappings {
            let ip = 0x1000 + rng.below(0x100);
            if rng.chance(1, 2) {
                return (kernel_mode, ip, vec![]);
            }
            let n = rng.range(1, 4);
            let mut c = vec![if kernel_mode { CTX_KERNEL } else { CTX_USER }];
            for _ in 0..n {
                c.push(0x1000 + rng.below(0x100));
            }
            return (kernel_mode, ip, c);
        }
        let maps = sim.maps.get(&pid).cloned().unwrap_or_default();
        let jit_ranges = jit.get(&pid).cloned().unwrap_or_default();
        let addr = |rng: &mut Rng| -> u64 {
            if !jit_ranges.is_empty() && rng.chance(1, 2) {
                // in / around a perf-map function: first and last byte, one past the end (as a return address
                // it is looked up at end - 1, inside), one before the start
                let (s, e) = jit_ranges[rng.below(jit_ranges.len() as u64) as usize];
                return match rng.below(8) {
                    0 => s,
                    1 => s + 1,
                    2 => e.saturating_sub(1),
                    3 => e,
                    4 => e + 1,
                    5 => s.saturating_sub(1),
                    _ => s + rng.below((e - s).max(1)),
                };
            }
            if !maps.is_empty() && rng.chance(4, 5) {
                let (s, e) = maps[rng.below(maps.len() as u64) as usize];
                match rng.below(8) {
                    0 => s,
                    1 => s + 1,
                    2 => e - 1,
                    3 => e,
                    4 => e + 1,
                    5 => s.saturating_sub(1),
                    _ => s + rng.below(e - s),
                }
            } else {
                match rng.below(4) {
                    0 => 0,
                    1 => 1,
                    2 => 0x7000_0000 + rng.below(0x1000),
                    _ => 0x40_0000 + 0x1000 * rng.below(64) + rng.below(16),
                }
            }
        };
        let ip = addr(rng);
        let mut c = Vec::new();
        let n = rng.below(7);
        if n == 0 && rng.chance(1, 2) {
            return (kernel_mode, ip, c);
        }
        let mut repeated: Option<u64> = None;
        if rng.chance(1, 3) {
            c.push(CTX_KERNEL);
            for _ in 0..rng.below(3) {
                c.push(0xffff_ffff_8100_0000 + rng.below(0x1000));
            }
        }
        if rng.chance(5, 6) {
            c.push(*rng.pick(&[CTX_USER, CTX_USER, CTX_USER, CTX_GUEST, CTX_GUEST_USER, CTX_HV]));
        }
        for _ in 0..n {
            let a = match repeated {
                Some(a) if rng.chance(1, 2) => a,
                _ => addr(rng),
            };
            if rng.chance(1, 4) {
                repeated = Some(a);
            }
            c.push(a);
        }
        // recursion at the root end (exercises --fold-recursive-prefix)
        if let (Some(&last), true) = (c.last(), rng.chance(1, 4)) {
            if last < CTX_GUEST_USER {
                for _ in 0..rng.range(1, 3) {
                    c.push(last);
                }
            }
        }
        (kernel_mode, ip, c)
    };

    // perf's synthesized records for tasks that already run when the recording starts: COMM / FORK / MMAP2
    // stamped 0 at the head of the file (the `Some(0) | None => current_sample_time` arms of handle_exec /
    // handle_thread_rename, converter.rs:1031-1034, 1085-1088; MMAP2 queued with timestamp 0)
    if rng.chance(1, 5) {
        for _ in 0..rng.range(1, 3) {
            let pid = *rng.pick(&pid_pool);
            if sim.live.contains_key(&pid) {
                continue;
            }
            h.recs.push(Rec::Comm { pid, tid: pid, name: rng.pick(&NAMES).to_string(), exec: violate && rng.chance(1, 6), t: 0 });
            sim.live.entry(pid).or_default();
            for k in 0..rng.below(3) as u32 {
                let tid = pid + 1 + k;
                h.recs.push(Rec::Fork { pid, tid, ppid: pid, ptid: pid, t: 0 });
                if rng.chance(2, 3) {
                    h.recs.push(Rec::Comm { pid, tid, name: rng.pick(&NAMES).to_string(), exec: false, t: 0 });
                }
                sim.live.get_mut(&pid).unwrap().push(tid);
            }
            if rng.chance(2, 3) {
                let page = 0x1000u64;
                let addr = 0x40_0000 + page * rng.below(64);
                let len = page * rng.range(1, 8);
                h.recs.push(Rec::Mmap2 { pid, tid: pid, addr, len, pgoff: page * rng.below(3), exec: true, path: rng.pick(&PATHS).to_string(), t: 0 });
                sim.maps.entry(pid).or_default().push((addr, addr + len));
            }
        }
    }
    for _ in 0..len {
        sim.t += step(rng);
        let t = sim.t;
        let live_pids: Vec<u32> = sim.live.keys().copied().collect();
        let some_pid = |rng: &mut Rng, sim: &Sim| -> u32 {
            let live: Vec<u32> = sim.live.keys().copied().collect();
            if !live.is_empty() && rng.chance(5, 6) {
                live[rng.below(live.len() as u64) as usize]
            } else {
                *rng.pick(&pid_pool)
            }
        };
        let some_tid = |rng: &mut Rng, sim: &Sim, pid: u32| -> u32 {
            let tids = sim.live.get(&pid).cloned().unwrap_or_default();
            match rng.below(6) {
                0 | 1 => pid,
                2 | 3 | 4 if !tids.is_empty() => tids[rng.below(tids.len() as u64) as usize],
                _ => pid + 1 + rng.below(3) as u32,
            }
        };
        let choice = rng.below(100);
        if live_pids.is_empty() && !violate && choice >= 10 {
            // start with a process announced by COMM or FORK
            let pid = *rng.pick(&pid_pool);
            if rng.chance(1, 2) {
                h.recs.push(Rec::Comm { pid, tid: pid, name: rng.pick(&NAMES).to_string(), exec: rng.chance(1, 3), t });
            } else {
                h.recs.push(Rec::Fork { pid, tid: pid, ppid: 1, ptid: 1, t });
            }
            sim.live.entry(pid).or_default();
            continue;
        }
        match choice {
            0..=39 => {
                // sample
                let pid = some_pid(rng, &sim);
                let mut tid = some_tid(rng, &sim, pid);
                if !violate && !sim.live.contains_key(&pid) {
                    continue;
                }
                if !violate && tid != pid && !sim.live[&pid].contains(&tid) {
                    tid = pid;
                }
                if violate && rng.chance(1, 15) {
                    tid = 0;
                }
                let (kernel, ip, chain) = gen_chain(rng, &sim, pid, shape);
                let period = *rng.pick(&[1_000_000u64, 1_000_000, 250_000, 0]);
                let r = Rec::Sample { pid, tid, t, kernel, period, ip, chain };
                h.recs.push(r.clone());
                if rng.chance(1, 10) {
                    // exact repeat (same thread, same timestamp)
                    h.recs.push(r);
                }
                if violate {
                    sim.live.entry(pid).or_default();
                }
            }
            40..=49 => {
                // new thread by FORK
                let pid = some_pid(rng, &sim);
                if !sim.live.contains_key(&pid) && !violate {
                    continue;
                }
                let tid = pid + 1 + rng.below(4) as u32;
                if !violate && sim.live[&pid].contains(&tid) {
                    continue;
                }
                let mut ptid = some_tid(rng, &sim, pid);
                if !violate && (ptid == tid || (ptid != pid && !sim.live[&pid].contains(&ptid))) {
                    // the forking thread is alive and is not the child
                    ptid = pid;
                }
                h.recs.push(Rec::Fork { pid, tid, ppid: pid, ptid, t });
                let e = sim.live.entry(pid).or_default();
                if !e.contains(&tid) {
                    e.push(tid);
                }
            }
            50..=57 => {
                // new process by FORK
                let ppid = some_pid(rng, &sim);
                if !sim.live.contains_key(&ppid) && !violate {
                    continue;
                }
                let pid = if rng.chance(1, 2) {
                    sim.next_new_pid += 1;
                    sim.next_new_pid
                } else {
                    *rng.pick(&pid_pool)
                };
                if sim.live.contains_key(&pid) && !violate {
                    continue;
                }
                if pid == ppid {
                    continue;
                }
                let ptid = some_tid(rng, &sim, ppid);
                let tid = if violate && rng.chance(1, 8) { pid + 1 } else { pid };
                h.recs.push(Rec::Fork { pid, tid, ppid, ptid, t });
                sim.live.entry(pid).or_default();
                let inherited = sim.maps.get(&ppid).cloned().unwrap_or_default();
                sim.maps.insert(pid, inherited);
            }
            58..=69 => {
                // COMM rename
                let pid = some_pid(rng, &sim);
                if !sim.live.contains_key(&pid) && !violate {
                    continue;
                }
                let mut tid = some_tid(rng, &sim, pid);
                if !violate && tid != pid && !sim.live[&pid].contains(&tid) {
                    tid = pid;
                }
                // (COMM records stamped 0 are generated by the synthesized head below and by `out_of_order`)
                h.recs.push(Rec::Comm { pid, tid, name: rng.pick(&NAMES).to_string(), exec: false, t });
                if violate {
                    let e = sim.live.entry(pid).or_default();
                    if tid != pid && !e.contains(&tid) {
                        e.push(tid);
                    }
                }
            }
            70..=75 => {
                // EXEC
                let pid = some_pid(rng, &sim);
                if !sim.live.contains_key(&pid) && !violate {
                    continue;
                }
                let tid = if violate && rng.chance(1, 6) { some_tid(rng, &sim, pid) } else { pid };
                h.recs.push(Rec::Comm { pid, tid, name: rng.pick(&NAMES).to_string(), exec: true, t });
                if tid == pid {
                    sim.live.insert(pid, Vec::new());
                    sim.maps.remove(&pid);
                }
            }
            76..=83 => {
                // thread EXIT
                let pid = some_pid(rng, &sim);
                let tids = sim.live.get(&pid).cloned().unwrap_or_default();
                if tids.is_empty() && !violate {
                    continue;
                }
                let tid = if tids.is_empty() { pid + 1 } else { tids[rng.below(tids.len() as u64) as usize] };
                h.recs.push(Rec::Exit { pid, tid, t });
                if let Some(e) = sim.live.get_mut(&pid) {
                    e.retain(|x| *x != tid);
                }
            }
            84..=89 => {
                // process EXIT (grammar: threads exit first; the violating stream leaves them)
                let pid = some_pid(rng, &sim);
                if !sim.live.contains_key(&pid) && !violate {
                    continue;
                }
                // threads exit first - or, the kernel's order for exit_group with a zombie leader, the main
                // thread's EXIT comes first and the siblings' EXITs find no process (ignored by the converter)
                let leader_first = rng.chance(1, 3);
                if leader_first {
                    h.recs.push(Rec::Exit { pid, tid: pid, t });
                }
                if !violate || leader_first {
                    for tid in sim.live.get(&pid).cloned().unwrap_or_default() {
                        h.recs.push(Rec::Exit { pid, tid, t });
                    }
                }
                if !leader_first {
                    h.recs.push(Rec::Exit { pid, tid: pid, t });
                }
                sim.live.remove(&pid);
                sim.maps.remove(&pid);
            }
            _ => {
                // MMAP2 (a process may be first seen through a mapping record)
                let pid = some_pid(rng, &sim);
                if !sim.live.contains_key(&pid) && !violate {
                    if rng.chance(2, 3) {
                        continue;
                    }
                    sim.live.entry(pid).or_default();
                }
                let mut tid = if rng.chance(3, 4) { pid } else { some_tid(rng, &sim, pid) };
                if !violate && tid != pid && !sim.live.get(&pid).map(|l| l.contains(&tid)).unwrap_or(false) {
                    tid = pid;
                }
                if !shape.mappings && !rng.chance(1, 3) {
                    continue;
                }
                let page = 0x1000u64;
                let mut addr = 0x40_0000 + page * rng.below(64);
                let mut len = page * rng.range(1, 8);
                let mut pgoff = page * rng.below(5).min(addr / page);
                let mut exec = rng.chance(5, 6);
                let mut path = if rng.chance(1, 12) { String::new() } else { rng.pick(&PATHS).to_string() };
                // special paths (`//anon`, `[heap]`, `[stack]`, `[vvar]`): the record is ignored by the converter.
                // Over the range of a live library (mostly) or anywhere. In recordings whose attribution is
                // judged (C02) only once the candidate finding is recorded.
                if rng.chance(1, 10) && (!shape.mappings || finding_enabled(FINDING_SPECIAL)) {
                    path = rng.pick(&SPECIAL_PATHS).to_string();
                    exec = rng.chance(5, 6);
                    if let Some(m) = sim.maps.get(&pid).filter(|m| !m.is_empty()) {
                        if rng.chance(3, 4) {
                            let (s0, e0) = m[rng.below(m.len() as u64) as usize];
                            match rng.below(3) {
                                0 => {
                                    addr = s0;
                                    len = e0 - s0;
                                }
                                1 => {
                                    addr = s0 + page * rng.below(((e0 - s0) / page).max(1));
                                    len = page;
                                }
                                _ => {
                                    addr = s0.saturating_sub(page).max(page);
                                    len = e0 - addr + page;
                                }
                            }
                            pgoff = 0;
                        }
                    }
                    h.recs.push(Rec::Mmap2 { pid, tid, addr, len, pgoff, exec, path, t });
                    // the generator keeps aiming addresses at the library that is (by the code) still there
                    if violate {
                        sim.live.entry(pid).or_default();
                    }
                    continue;
                }
                if !shape.files.is_empty() && rng.chance(1, 2) {
                    // a file present on disk: map its executable segment exactly / a superset / a page of it /
                    // a range that starts one page before the segment in the file (the `file_offset >` branch of
                    // compute_vma_bias_impl) / a range no segment relates to (compute_base_avma = None: ignored)
                    let f = &shape.files[rng.below(shape.files.len() as u64) as usize];
                    let (svma, off, size) = f.segs[f.exec_seg];
                    let size_pages = size.div_ceil(page) * page;
                    // (a mapping that starts before the image base - the first mapped byte would have a stated
                    // address below `relative_address_base` - underflows `mapping_start_avma - base_avma`: the
                    // fixed family `mapping-before-image-base` of C02, candidate finding C02-mmap-arith-panic)
                    let (o, l) = match rng.below(8) {
                        0 | 1 => (off, size_pages),
                        2 | 3 => (off, size_pages + page),
                        4 if off >= page && svma >= f.base_svma + page => (off - page, size_pages + 2 * page),
                        5 if rng.chance(1, 2) => (off + size_pages + 16 * page, page),
                        _ => (off + page * rng.below(size_pages / page), page),
                    };
                    pgoff = o;
                    len = l;
                    addr = 0x40_0000 + page * rng.below(64);
                    exec = true;
                    path = f.path.clone();
                }
                if path.is_empty() && exec {
                    continue;
                }
                h.recs.push(Rec::Mmap2 { pid, tid, addr, len, pgoff, exec, path, t });
                if exec {
                    let m = sim.maps.entry(pid).or_default();
                    m.retain(|(s, e)| !(*s < addr + len && addr < *e));
                    m.push((addr, addr + len));
                }
                if violate {
                    sim.live.entry(pid).or_default();
                }
            }
        }
    }
    // time origin: the SAMPLE_TIME feature section names the first sample time (as perf writes it);
    // sometimes omit it (reference 0) or put it after the first records
    let first_sample = h.recs.iter().find_map(|r| if let Rec::Sample { t, .. } = r { Some(*t) } else { None });
    let sample_times: Vec<u64> = h.recs.iter().filter_map(|r| if let Rec::Sample { t, .. } = r { Some(*t) } else { None }).collect();
    h.ref_time = match (first_sample, rng.below(7)) {
        (Some(t), 0..=3) => t,
        (Some(t), 4) => t.saturating_sub(1000 * rng.below(5000)).max(1),
        // SAMPLE_TIME later than the first samples (the first attr is not the main event): sample times
        // before the reference saturate to profile time 0
        (Some(_), 5) => *rng.pick(&sample_times),
        (None, 0..=2) => base_t,
        _ => 0,
    };
    sanitize(&mut h, violate);
    h
}

/// Which records `out_of_order` may back-date.
#[derive(Clone, Copy, Debug, Default)]
pub struct OooKinds {
    pub samples: bool,
    pub mmap2: bool,
    /// FORK / EXIT / COMM
    pub lifecycle: bool,
    /// COMM / MMAP2 / FORK records stamped 0 (perf's synthesized records)
    pub zero: bool,
}

/// Turns a time-ordered history into one whose perf.data file violates the round contract of perf ("round N+2
/// is not older than round N"): the records are laid out in small rounds, some records of round k >= 2 get a
/// timestamp older than a record of a round <= k-2 (or 0), and `recs` becomes the order in which the reader's
/// sorter delivers that file (`sorter_delivery`), with the layout as explicit `layout` op line.
pub fn out_of_order(h: &mut History, rng: &mut Rng, kinds: OooKinds) {
    // A sample older than an earlier-delivered sample of the same thread makes the debug build panic
    // (shared/context_switch.rs:147, `timestamp - last_observed_on_timestamp`; the model says `panic` too and
    // the judges do not apply): keep that to about a fifth of the histories so that the others are judged.
    let orig = h.clone();
    for attempt in 0..4 {
        *h = orig.clone();
        let k = if attempt == 3 { OooKinds { samples: false, ..kinds } } else { kinds };
        out_of_order_once(h, rng, k);
        let mut last: BTreeMap<(u32, u32), u64> = BTreeMap::new();
        let mut decreasing = false;
        for r in &h.recs {
            if let Rec::Sample { pid, tid, t, .. } = r {
                if let Some(t0) = last.insert((*pid, *tid), *t) {
                    decreasing |= t0 > *t;
                }
            }
        }
        if !decreasing || (kinds.samples && rng.chance(1, 5)) {
            return;
        }
    }
}

fn out_of_order_once(h: &mut History, rng: &mut Rng, kinds: OooKinds) {
    let n = h.recs.len();
    if n < 3 {
        return;
    }
    // rounds of the file, as indices into the (time-ordered) original
    let mut rounds: Vec<Vec<usize>> = Vec::new();
    let mut i = 0;
    while i < n {
        let len = (1 + rng.below(5) as usize).min(n - i);
        rounds.push((i..i + len).collect());
        i += len;
    }
    let mut recs = h.recs.clone();
    let allowed = |r: &Rec| match r {
        Rec::Sample { .. } => kinds.samples,
        Rec::Mmap2 { .. } => kinds.mmap2,
        Rec::Fork { .. } | Rec::Exit { .. } | Rec::Comm { .. } => kinds.lifecycle,
        _ => false,
    };
    let set_time = |r: &mut Rec, nt: u64| match r {
        Rec::Sample { t, .. } | Rec::Fork { t, .. } | Rec::Exit { t, .. } | Rec::Comm { t, .. } | Rec::Mmap2 { t, .. } | Rec::SwitchIn { t, .. } | Rec::SwitchOut { t, .. } | Rec::Sched { t, .. } | Rec::Other { t, .. } => *t = nt,
    };
    for k in 2..rounds.len() {
        let whole_round = rng.chance(1, 6);
        for &idx in &rounds[k].clone() {
            if !allowed(&recs[idx]) || !(whole_round || rng.chance(1, 5)) {
                continue;
            }
            let zero_ok = kinds.zero && matches!(recs[idx], Rec::Comm { .. } | Rec::Mmap2 { .. } | Rec::Fork { .. });
            let nt = if zero_ok && rng.chance(1, 4) {
                0
            } else {
                // older than a record two or more rounds back
                let back = &rounds[rng.below(k as u64 - 1) as usize];
                let anchor = recs[back[rng.below(back.len() as u64) as usize]].time();
                anchor.saturating_sub(*rng.pick(&[0u64, 1, 1000, 50_000, 2_000_000])).max(1)
            };
            set_time(&mut recs[idx], nt);
        }
    }
    let file: Vec<Vec<(u64, usize)>> = rounds.iter().map(|r| r.iter().map(|i| (recs[*i].time(), *i)).collect()).collect();
    let order = sorter_delivery(&file);
    // position of every original index in the delivery order
    let mut pos = vec![0usize; n];
    for (p, idx) in order.iter().enumerate() {
        pos[*idx] = p;
    }
    h.recs = order.iter().map(|i| recs[*i].clone()).collect();
    h.layout = rounds.iter().map(|r| r.iter().map(|i| pos[*i]).collect()).collect();
    debug_assert!(layout_consistent(h));
}

/// A history given by the rounds of its perf.data file (records in file order): `recs` becomes the order in
/// which the reader's sorter delivers them, `layout` the rounds as indices into that order.
pub fn history_from_file_rounds(ref_time: u64, rounds: Vec<Vec<Rec>>) -> History {
    let flat: Vec<Rec> = rounds.iter().flatten().cloned().collect();
    let mut file: Vec<Vec<(u64, usize)>> = Vec::new();
    let mut k = 0;
    for r in &rounds {
        file.push(r.iter().map(|x| { k += 1; (x.time(), k - 1) }).collect());
    }
    let order = sorter_delivery(&file);
    let mut pos = vec![0usize; flat.len()];
    for (p, idx) in order.iter().enumerate() {
        pos[*idx] = p;
    }
    let mut h = History { ref_time, recs: order.iter().map(|i| flat[*i].clone()).collect(), ..Default::default() };
    h.layout = file.iter().map(|r| r.iter().map(|(_, i)| pos[*i]).collect()).collect();
    h
}

/// Is the candidate finding `id` recorded in KNOWN_FINDINGS.txt (or is `CONV_FINDINGS=1` set)? Families that
/// show a candidate finding are generated only then, so that the checks are green before and after the lead's
/// decision; the judges condemn such outputs unconditionally.
pub fn finding_enabled(id: &str) -> bool {
    if let Ok(v) = std::env::var("CONV_FINDINGS") {
        return v == "1";
    }
    let root = std::env::var("VERIF_ROOT").unwrap_or_else(|_| concat!(env!("CARGO_MANIFEST_DIR"), "/..").to_string());
    std::fs::read_to_string(format!("{root}/KNOWN_FINDINGS.txt")).map(|t| t.contains(id)).unwrap_or(false)
}

pub const FINDING_SPECIAL: &str = "C02-special-path-not-evicting";
pub const FINDING_BACKDATED: &str = "C02-backdated-record";
pub const FINDING_MMAP_ARITH: &str = "C02-mmap-arith-panic";

/// paths for which `DsoKey::detect` returns `None`: `handle_mmap2` ignores the record (`[vdso]` is not among
/// them and is never generated: it would be resolved through the vdso of the samply process itself)
pub const SPECIAL_PATHS: [&str; 4] = ["//anon", "[heap]", "[stack]", "[vvar]"];

/// Final pass over a generated history with the exact lifecycle tracker (the reference time is known only
/// now): the non-violating stream keeps only records inside the judged grammar (`Life.stepOk`). EXIT records of
/// threads whose process is not alive stay in (repaired by 8ede2c85: they are ignored by the converter and
/// judged like everything else).
fn sanitize(h: &mut History, violate: bool) {
    let mut lt = LifeTrack::new(h.ref_time);
    let mut kept = Vec::with_capacity(h.recs.len());
    for r in h.recs.drain(..) {
        if !violate && !lt.step_ok(&r) {
            continue;
        }
        lt.step(&r);
        kept.push(r);
    }
    h.recs = kept;
}

// ---------------------------------------------------------------------------------------------
// context-switch histories (C12 `conv` mode, C01)

/// Shape of a generated context-switch history.
#[derive(Clone, Debug)]
pub struct CsShape {
    /// upper bound on the number of generated steps
    pub max_len: u64,
    /// EXIT / EXEC / FORK records (thread incarnations end and restart)
    pub lifecycle: bool,
    /// allow `--reuse-threads`
    pub allow_reuse: bool,
}

pub const CS_INTERVALS: [u64; 9] = [1_000, 2_000, 3_000, 10_000, 250_000, 1_000_000, 1, 7, 999];

/// a `sched:sched_switch` call chain: user frames inside the off-CPU marker range, sometimes kernel frames in
/// front (removed by the converter), sometimes no user frame at all (the stored stack is empty)
fn gen_off_chain(rng: &mut Rng) -> (bool, u64, Vec<u64>) {
    let a = |rng: &mut Rng| OFF_STACK_BASE + 0x10 + rng.below(0xff00);
    match rng.below(6) {
        0 => (false, a(rng), vec![]),
        1 => (true, 0xffff_ffff_8100_0000 + rng.below(0x1000), vec![CTX_KERNEL, 0xffff_ffff_8100_0000 + rng.below(0x1000)]),
        2 => {
            let mut c = vec![CTX_KERNEL, 0xffff_ffff_8100_0000 + rng.below(0x1000), CTX_USER];
            for _ in 0..rng.range(1, 3) {
                c.push(a(rng));
            }
            (true, 0xffff_ffff_8100_0000, c)
        }
        _ => {
            let mut c = vec![CTX_USER];
            for _ in 0..rng.range(1, 4) {
                c.push(a(rng));
            }
            (false, a(rng), c)
        }
    }
}

/// Record histories with context switches. Threads run, get sampled, are switched out (mostly announced by a
/// `sched_switch` sample when the recording has that event), sleep for less than / exactly / several / thousands
/// of sampling intervals and wake up through a switch-in or directly through a sample; plus the irregular
/// shapes: repeated switch-out, sample before the switch-in, switch-in while running, sched_switch without
/// switch-out, duplicate samples, idle-thread (tid 0) records, threads first seen through any record kind,
/// and (with `lifecycle`) EXIT / EXEC / FORK in between.
pub fn gen_cs_history(rng: &mut Rng, shape: &CsShape) -> History {
    let interval = *rng.pick(&CS_INTERVALS);
    let mode = rng.below(20);
    let cs = CsCfg {
        ctx: mode != 0 && mode != 1,
        sched: mode < 14,
        hw: mode == 2,
        freq: mode == 3,
        wide: rng.chance(1, 3),
        period: interval,
    };
    // mode 3: frequency such that 1e9 / f is the interval (or close: integer division)
    let (cs, interval) = if cs.freq {
        let f = *rng.pick(&[1_000u64, 4_000, 999, 1_000_000, 3]);
        (CsCfg { period: f, ..cs }, 1_000_000_000 / f)
    } else if cs.hw {
        (cs, 1_000_000)
    } else {
        (cs, interval)
    };
    let mut h = History { reuse: shape.allow_reuse && rng.chance(1, 8), cs: Some(cs.clone()), ..Default::default() };
    // whole microseconds in most histories (cpu deltas are stored in µs)
    let grid: u64 = if rng.chance(3, 4) { 1000 } else { 1 };
    let base_t = 1_000_000 * rng.range(1, 50);
    let mut t = base_t;
    let threads: Vec<(u32, u32)> = vec![(100, 100), (100, 101), (100, 102), (200, 200), (200, 205)];
    let nthreads = rng.range(1, threads.len() as u64) as usize;
    // what the generator believes a thread is doing (only steers the choice of the next record)
    let mut running: BTreeMap<(u32, u32), bool> = BTreeMap::new();
    if rng.chance(1, 2) {
        h.recs.push(Rec::Comm { pid: 100, tid: 100, name: "app".to_string(), exec: false, t });
    }
    let len = if rng.chance(1, 8) { rng.range(shape.max_len / 2, shape.max_len) } else { rng.range(3, (shape.max_len / 3).max(8)) };
    let unit = (interval / grid).max(1);
    for _ in 0..len {
        let step = match rng.below(12) {
            0 => 0,
            1 => 1,
            2 => rng.range(1, 5),
            3 => unit,
            4 => unit - 1,
            5 => unit + 1,
            6 => unit * rng.range(2, 6),
            7 => unit * rng.range(2, 6) + rng.below(unit),
            8 => unit / 2,
            9 if rng.chance(1, 6) => unit * 5000 + rng.below(unit),
            _ => rng.below(unit * 2 + 1),
        };
        t += step * grid;
        let (pid, tid) = threads[rng.below(nthreads as u64) as usize];
        let is_running = running.get(&(pid, tid)).copied().unwrap_or(false);
        let (kernel, ip) = (rng.chance(1, 8), 0x1000 + rng.below(0x100));
        let sample = |rng: &mut Rng| {
            let chain = if rng.chance(1, 2) { vec![] } else { vec![CTX_USER, 0x1000 + rng.below(0x100), 0x1000 + rng.below(0x100)] };
            Rec::Sample { pid, tid, t, kernel, period: *rng.pick(&[1_000_000u64, 250_000, 0]), ip, chain }
        };
        let choice = rng.below(100);
        if shape.lifecycle && choice >= 94 {
            match rng.below(4) {
                0 if tid != pid => h.recs.push(Rec::Exit { pid, tid, t }),
                1 => h.recs.push(Rec::Comm { pid, tid: pid, name: "execd".to_string(), exec: true, t }),
                2 if tid != pid => h.recs.push(Rec::Fork { pid, tid, ppid: pid, ptid: pid, t }),
                _ => h.recs.push(Rec::Comm { pid, tid, name: rng.pick(&NAMES).to_string(), exec: false, t }),
            }
            running.remove(&(pid, tid));
            continue;
        }
        if choice >= 91 {
            // the idle thread: ignored by the sample path and by switch records
            match rng.below(3) {
                0 => h.recs.push(Rec::SwitchIn { pid: 0, tid: 0, t }),
                1 => h.recs.push(Rec::SwitchOut { pid: 0, tid: 0, t, preempt: false }),
                _ => h.recs.push(Rec::Sample { pid, tid: 0, t, kernel, period: 1, ip, chain: vec![] }),
            }
            continue;
        }
        if is_running {
            match choice {
                0..=39 => {
                    let r = sample(rng);
                    h.recs.push(r.clone());
                    if rng.chance(1, 10) {
                        h.recs.push(r);
                    }
                }
                40..=74 => {
                    // going to sleep: sched_switch sample (when the event exists), then the switch-out
                    if cs.sched && rng.chance(5, 6) {
                        let (k, ip, chain) = gen_off_chain(rng);
                        h.recs.push(Rec::Sched { pid, tid, t, kernel: k, ip, chain });
                    }
                    if cs.ctx || rng.chance(1, 3) {
                        h.recs.push(Rec::SwitchOut { pid, tid, t, preempt: rng.chance(1, 3) });
                    }
                    running.insert((pid, tid), false);
                }
                75..=82 => h.recs.push(Rec::SwitchIn { pid, tid, t }),
                83..=86 if cs.sched => {
                    // sched_switch sample not followed by a switch-out
                    let (k, ip, chain) = gen_off_chain(rng);
                    h.recs.push(Rec::Sched { pid, tid, t, kernel: k, ip, chain });
                }
                _ => {
                    h.recs.push(Rec::SwitchOut { pid, tid, t, preempt: false });
                    running.insert((pid, tid), false);
                }
            }
        } else {
            match choice {
                0..=49 => {
                    if cs.ctx || rng.chance(1, 3) {
                        h.recs.push(Rec::SwitchIn { pid, tid, t });
                    } else {
                        let r = sample(rng);
                        h.recs.push(r);
                    }
                    running.insert((pid, tid), true);
                }
                50..=64 => {
                    // the sample arrives before the switch-in
                    let r = sample(rng);
                    h.recs.push(r);
                    if rng.chance(1, 2) {
                        h.recs.push(Rec::SwitchIn { pid, tid, t: t + 0 });
                    }
                    running.insert((pid, tid), true);
                }
                65..=76 => h.recs.push(Rec::SwitchOut { pid, tid, t, preempt: rng.chance(1, 2) }),
                77..=84 if cs.sched => {
                    let (k, ip, chain) = gen_off_chain(rng);
                    h.recs.push(Rec::Sched { pid, tid, t, kernel: k, ip, chain });
                }
                _ => {
                    h.recs.push(Rec::SwitchIn { pid, tid, t });
                    running.insert((pid, tid), true);
                }
            }
        }
    }
    let first_sample = h.recs.iter().find_map(|r| if let Rec::Sample { t, .. } = r { Some(*t) } else { None });
    h.ref_time = match (first_sample, rng.below(6)) {
        (_, 0..=2) => base_t,
        (Some(t), 3) => t,
        (_, 4) => base_t - 1000 * rng.below(900),
        _ => 0,
    };
    h
}
