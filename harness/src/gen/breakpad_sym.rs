//! Abstract Breakpad `.sym` files: a record-level description (`SymFile`), its rendering to bytes in
//! the dialect that `dump_syms` writes, a random generator of well-formed (and deliberately slightly
//! ill-formed) files, a strict describer of standard-rendered text lines, and an independent,
//! bounds-checked decoder of the `.symindex` byte layout of samply-symbols.
//!
//! Every rendered line carries a *protocol description* `"<kind> <fields…>"` (all numbers decimal,
//! byte strings as `common::hex`) of the abstract record it renders:
//!
//!     module <oshex> <archhex> <idhex> <namehex>      info <resthex>        stack        junk
//!     file <idx> <namehex>                             origin <idx> <namehex>
//!     public <m 0|1> <addr> <psize> <namehex>          func <m 0|1> <addr> <size> <psize> <namehex>
//!     line <addr> <size> <line> <file>                 inline <depth> <call_line> <call_file> <origin> (<addr> <size>)+
//!
//! Numbers are the abstract values (a PUBLIC address may exceed 2^32; consumers truncate).
use crate::common::{hex, Rng};
use std::collections::BTreeSet;

// ---------------------------------------------------------------------------------------------
// abstract file
// ---------------------------------------------------------------------------------------------

/// Line terminator styles. A line's bytes are its content followed by the terminator.
#[derive(Clone, Copy, Debug, PartialEq, Eq)]
pub enum Term {
    Lf,
    CrLf,
    CrCrLf,
}

impl Term {
    pub fn bytes(self) -> &'static [u8] {
        match self {
            Term::Lf => b"\n",
            Term::CrLf => b"\r\n",
            Term::CrCrLf => b"\r\r\n",
        }
    }
}

#[derive(Clone, Debug)]
pub struct Module {
    pub os: Vec<u8>,
    pub arch: Vec<u8>,
    pub id: Vec<u8>,
    pub name: Vec<u8>,
}

/// Lines owned by a FUNC record (everything up to the next FUNC / PUBLIC / STACK / INFO line).
#[derive(Clone, Debug)]
pub enum Body {
    Line { addr: u64, size: u64, line: u64, file: u64 },
    Inline { depth: u64, call_line: u64, call_file: u64, origin: u64, ranges: Vec<(u64, u64)> },
    /// FILE records may legitimately sit inside a FUNC block (they do not end it).
    File { idx: u64, name: Vec<u8> },
    /// INLINE_ORIGIN inside a FUNC block (family origin-in-func).
    Origin { idx: u64, name: Vec<u8> },
    /// Arbitrary content (no terminator) with an explicit protocol description (usually "junk").
    Raw { bytes: Vec<u8>, desc: String },
}

#[derive(Clone, Debug)]
pub enum Record {
    /// `INFO <rest>`
    Info { rest: Vec<u8> },
    File { idx: u64, name: Vec<u8> },
    Origin { idx: u64, name: Vec<u8> },
    Public { m: bool, addr: u64, psize: u64, name: Vec<u8> },
    Func { m: bool, addr: u64, size: u64, psize: u64, name: Vec<u8>, body: Vec<Body> },
    /// `STACK <rest>`
    Stack { rest: Vec<u8> },
    Raw { bytes: Vec<u8>, desc: String },
}

#[derive(Clone, Debug)]
pub struct SymFile {
    /// `None`: no MODULE line is rendered.
    pub module: Option<Module>,
    pub records: Vec<Record>,
    /// Terminator of rendered line `i` is `terms[i % terms.len()]` (`[Lf]` = whole-file LF, …).
    pub terms: Vec<Term>,
    /// `false`: the last line has no terminator.
    pub final_newline: bool,
    /// Render hexadecimal fields in upper case.
    pub upper_hex: bool,
}

/// One line: content without terminator + protocol description.
pub type Line = (Vec<u8>, String);

#[derive(Clone, Debug)]
pub struct RenderedLine {
    /// Byte offset of the line start in the file.
    pub offset: usize,
    /// Length of the content (terminator and trailing CRs excluded).
    pub content_len: usize,
    /// Content + terminator.
    pub bytes: Vec<u8>,
    /// Protocol description `<kind> <fields…>`.
    pub desc: String,
}

#[derive(Clone, Debug, Default)]
pub struct Rendered {
    pub bytes: Vec<u8>,
    pub lines: Vec<RenderedLine>,
}

fn cat(parts: &[&[u8]]) -> Vec<u8> {
    let mut v = Vec::new();
    for (i, p) in parts.iter().enumerate() {
        if i > 0 {
            v.push(b' ');
        }
        v.extend_from_slice(p);
    }
    v
}

impl SymFile {
    fn hx(&self, v: u64) -> Vec<u8> {
        if self.upper_hex { format!("{v:X}") } else { format!("{v:x}") }.into_bytes()
    }

    fn file_line(tag: &[u8], kind: &str, idx: u64, name: &[u8]) -> Line {
        (cat(&[tag, idx.to_string().as_bytes(), name]), format!("{kind} {idx} {}", hex(name)))
    }

    /// All lines of the file, in order, without terminators.
    pub fn lines(&self) -> Vec<Line> {
        let mut out: Vec<Line> = Vec::new();
        if let Some(m) = &self.module {
            out.push((
                cat(&[b"MODULE", &m.os, &m.arch, &m.id, &m.name]),
                format!("module {} {} {} {}", hex(&m.os), hex(&m.arch), hex(&m.id), hex(&m.name)),
            ));
        }
        for r in &self.records {
            match r {
                Record::Info { rest } => out.push((cat(&[b"INFO", rest]), format!("info {}", hex(rest)))),
                Record::Stack { rest } => out.push((cat(&[b"STACK", rest]), "stack".to_string())),
                Record::File { idx, name } => out.push(Self::file_line(b"FILE", "file", *idx, name)),
                Record::Origin { idx, name } => out.push(Self::file_line(b"INLINE_ORIGIN", "origin", *idx, name)),
                Record::Raw { bytes, desc } => out.push((bytes.clone(), desc.clone())),
                Record::Public { m, addr, psize, name } => {
                    let mut parts: Vec<Vec<u8>> = vec![b"PUBLIC".to_vec()];
                    if *m {
                        parts.push(b"m".to_vec());
                    }
                    parts.extend([self.hx(*addr), self.hx(*psize), name.clone()]);
                    let refs: Vec<&[u8]> = parts.iter().map(|p| &p[..]).collect();
                    out.push((cat(&refs), format!("public {} {addr} {psize} {}", *m as u8, hex(name))));
                }
                Record::Func { m, addr, size, psize, name, body } => {
                    let mut parts: Vec<Vec<u8>> = vec![b"FUNC".to_vec()];
                    if *m {
                        parts.push(b"m".to_vec());
                    }
                    parts.extend([self.hx(*addr), self.hx(*size), self.hx(*psize), name.clone()]);
                    let refs: Vec<&[u8]> = parts.iter().map(|p| &p[..]).collect();
                    out.push((cat(&refs), format!("func {} {addr} {size} {psize} {}", *m as u8, hex(name))));
                    for b in body {
                        match b {
                            Body::Line { addr, size, line, file } => out.push((
                                cat(&[&self.hx(*addr), &self.hx(*size), line.to_string().as_bytes(), file.to_string().as_bytes()]),
                                format!("line {addr} {size} {line} {file}"),
                            )),
                            Body::Inline { depth, call_line, call_file, origin, ranges } => {
                                let mut text = format!("INLINE {depth} {call_line} {call_file} {origin}").into_bytes();
                                let mut desc = format!("inline {depth} {call_line} {call_file} {origin}");
                                for (a, s) in ranges {
                                    text.push(b' ');
                                    text.extend(self.hx(*a));
                                    text.push(b' ');
                                    text.extend(self.hx(*s));
                                    desc.push_str(&format!(" {a} {s}"));
                                }
                                out.push((text, desc));
                            }
                            Body::File { idx, name } => out.push(Self::file_line(b"FILE", "file", *idx, name)),
                            Body::Origin { idx, name } => out.push(Self::file_line(b"INLINE_ORIGIN", "origin", *idx, name)),
                            Body::Raw { bytes, desc } => out.push((bytes.clone(), desc.clone())),
                        }
                    }
                }
            }
        }
        out
    }

    pub fn render(&self) -> Rendered {
        assemble(&self.lines(), &self.terms, self.final_newline)
    }

    /// Addresses worth looking up: around every symbol start/end, every line record and inline
    /// range (start, end-1, end), midpoints of the gaps between consecutive symbols, 0, 1, u32::MAX.
    pub fn interesting_addresses(&self) -> Vec<u32> {
        let lines = self.lines();
        addresses_of_descs(lines.iter().map(|l| l.1.as_str()), false)
    }

    /// The subset of `interesting_addresses` at symbol boundaries (start, end-1, end), 0, u32::MAX.
    pub fn boundary_addresses(&self) -> Vec<u32> {
        let lines = self.lines();
        addresses_of_descs(lines.iter().map(|l| l.1.as_str()), true)
    }
}

/// Concatenate lines with terminators `terms[i % len]`; the last line gets none unless
/// `final_newline`. A last line that would be zero bytes long is dropped.
pub fn assemble(lines: &[Line], terms: &[Term], final_newline: bool) -> Rendered {
    let mut r = Rendered::default();
    for (i, (content, desc)) in lines.iter().enumerate() {
        let mut bytes = content.clone();
        if i + 1 < lines.len() || final_newline {
            let t = if terms.is_empty() { Term::Lf } else { terms[i % terms.len()] };
            bytes.extend_from_slice(t.bytes());
        }
        if bytes.is_empty() {
            continue;
        }
        r.lines.push(RenderedLine { offset: r.bytes.len(), content_len: content.len(), bytes: bytes.clone(), desc: desc.clone() });
        r.bytes.extend_from_slice(&bytes);
    }
    r
}

/// Content of a raw line: its bytes without the trailing `\n` and without the `\r`s before it
/// (exactly what the code under test strips).
pub fn strip_terminator(line: &[u8]) -> &[u8] {
    let mut l = line;
    if l.last() == Some(&b'\n') {
        l = &l[..l.len() - 1];
    }
    while l.last() == Some(&b'\r') {
        l = &l[..l.len() - 1];
    }
    l
}

/// Build a `Rendered` from raw lines (each with its terminator; only the last may lack one), the
/// descriptions coming from `describe_std_line`.
pub fn render_raw_lines(raw: &[Vec<u8>]) -> Rendered {
    let mut r = Rendered::default();
    let mut in_func = false;
    for bytes in raw {
        if bytes.is_empty() {
            continue;
        }
        let content = strip_terminator(bytes);
        let desc = describe_std_line(content, &mut in_func);
        r.lines.push(RenderedLine { offset: r.bytes.len(), content_len: content.len(), bytes: bytes.clone(), desc });
        r.bytes.extend_from_slice(bytes);
    }
    r
}

// ---------------------------------------------------------------------------------------------
// strict describer of standard-rendered lines
// ---------------------------------------------------------------------------------------------

fn dec_tok(t: &[u8]) -> Option<u64> {
    if t.is_empty() || t.len() > 10 || !t.iter().all(|c| c.is_ascii_digit()) {
        return None;
    }
    let v: u64 = std::str::from_utf8(t).ok()?.parse().ok()?;
    (v <= u32::MAX as u64).then_some(v)
}

fn hex_tok(t: &[u8], max_digits: usize) -> Option<u64> {
    if t.is_empty() || t.len() > max_digits || !t.iter().all(|c| c.is_ascii_hexdigit()) {
        return None;
    }
    u64::from_str_radix(std::str::from_utf8(t).ok()?, 16).ok()
}

/// Is `id` a debug id that `DebugId::from_breakpad` accepts (9..=16 or 33..=40 hex digits)?
pub fn valid_breakpad_id(id: &[u8]) -> bool {
    id.iter().all(|c| c.is_ascii_hexdigit()) && ((9..=16).contains(&id.len()) || (33..=40).contains(&id.len()))
}

/// Protocol description of one line (no terminator) if it is a *clean* record in the standard
/// rendering (single spaces, hex of at most 8 resp. 16 digits, decimals that fit u32), else "junk".
/// `in_func` tracks whether the line lies inside a FUNC block (line / INLINE records only count there).
pub fn describe_std_line(content: &[u8], in_func: &mut bool) -> String {
    let junk = || "junk".to_string();
    // a trailing name that starts with a blank is not clean (the parsers skip any run of blanks)
    let clean = |name: &[u8]| !matches!(name.first(), Some(b' ') | Some(b'\t'));
    let split = |s: &[u8], n: usize| -> Vec<Vec<u8>> { s.splitn(n, |c| *c == b' ').map(|t| t.to_vec()).collect() };
    if let Some(r) = content.strip_prefix(b"MODULE ") {
        let f = split(r, 4);
        if f.len() == 4 && !f[0].is_empty() && !f[1].is_empty() && valid_breakpad_id(&f[2]) && clean(&f[3]) && f.iter().all(|t| std::str::from_utf8(t).is_ok()) {
            return format!("module {} {} {} {}", hex(&f[0]), hex(&f[1]), hex(&f[2]), hex(&f[3]));
        }
        return junk();
    }
    if let Some(r) = content.strip_prefix(b"INFO ") {
        *in_func = false;
        return format!("info {}", hex(r));
    }
    if content.starts_with(b"STACK ") {
        *in_func = false;
        return "stack".to_string();
    }
    for (tag, kind) in [(&b"FILE "[..], "file"), (&b"INLINE_ORIGIN "[..], "origin")] {
        if let Some(r) = content.strip_prefix(tag) {
            let f = split(r, 2);
            return match (f.len(), dec_tok(&f[0])) {
                (2, Some(idx)) if clean(&f[1]) => format!("{kind} {idx} {}", hex(&f[1])),
                _ => junk(),
            };
        }
    }
    if let Some(r) = content.strip_prefix(b"PUBLIC ") {
        let (m, r) = match r.strip_prefix(b"m ") {
            Some(r2) => (1, r2),
            None => (0, r),
        };
        let f = split(r, 3);
        if f.len() == 3 && clean(&f[2]) {
            if let (Some(a), Some(p)) = (hex_tok(&f[0], 16), hex_tok(&f[1], 8)) {
                *in_func = false;
                return format!("public {m} {a} {p} {}", hex(&f[2]));
            }
        }
        return junk();
    }
    if let Some(r) = content.strip_prefix(b"FUNC ") {
        let (m, r) = match r.strip_prefix(b"m ") {
            Some(r2) => (1, r2),
            None => (0, r),
        };
        let f = split(r, 4);
        if f.len() == 4 && clean(&f[3]) {
            if let (Some(a), Some(s), Some(p)) = (hex_tok(&f[0], 8), hex_tok(&f[1], 8), hex_tok(&f[2], 8)) {
                *in_func = true;
                return format!("func {m} {a} {s} {p} {}", hex(&f[3]));
            }
        }
        return junk();
    }
    if !*in_func {
        return junk();
    }
    let toks: Vec<&[u8]> = content.split(|c| *c == b' ').collect();
    if toks[0] == b"INLINE" {
        if toks.len() >= 7 && (toks.len() - 5) % 2 == 0 {
            let head: Option<Vec<u64>> = toks[1..5].iter().map(|t| dec_tok(t)).collect();
            let rng: Option<Vec<u64>> = toks[5..].iter().map(|t| hex_tok(t, 8)).collect();
            if let (Some(h), Some(r)) = (head, rng) {
                let all: Vec<String> = h.iter().chain(r.iter()).map(|v| v.to_string()).collect();
                return format!("inline {}", all.join(" "));
            }
        }
        return junk();
    }
    if toks.len() == 4 {
        if let (Some(a), Some(s), Some(l), Some(f)) = (hex_tok(toks[0], 16), hex_tok(toks[1], 8), dec_tok(toks[2]), dec_tok(toks[3])) {
            return format!("line {a} {s} {l} {f}");
        }
    }
    junk()
}

// ---------------------------------------------------------------------------------------------
// interesting addresses
// ---------------------------------------------------------------------------------------------

/// See `SymFile::interesting_addresses`; works on protocol descriptions so that it can also be
/// used on files that exist only as described lines.
pub fn addresses_of_descs<'a>(descs: impl Iterator<Item = &'a str>, boundary_only: bool) -> Vec<u32> {
    let mut set: BTreeSet<u32> = BTreeSet::new();
    let mut add = |v: i128| {
        if (0..=u32::MAX as i128).contains(&v) {
            set.insert(v as u32);
        }
    };
    let mut starts: BTreeSet<u32> = BTreeSet::new();
    for d in descs {
        let w: Vec<&str> = d.split(' ').collect();
        let n = |i: usize| -> i128 { w.get(i).and_then(|s| s.parse::<u64>().ok()).unwrap_or(0) as i128 };
        match w[0] {
            "func" | "public" => {
                let a = n(2) & 0xffff_ffff; // the code truncates addresses to u32
                let s = if w[0] == "func" { n(3) } else { 0 };
                starts.insert(a as u32);
                for v in [a, a + s - 1, a + s] {
                    add(v);
                }
                if !boundary_only {
                    for v in [a - 1, a + 1, a + s + 1] {
                        add(v);
                    }
                }
            }
            "line" if !boundary_only => {
                let (a, s) = (n(1) & 0xffff_ffff, n(2));
                for v in [a, a + s - 1, a + s] {
                    add(v);
                }
            }
            "inline" if !boundary_only => {
                let mut i = 5;
                while i + 1 < w.len() {
                    let (a, s) = (n(i), n(i + 1));
                    for v in [a, a + s - 1, a + s] {
                        add(v);
                    }
                    i += 2;
                }
            }
            _ => {}
        }
    }
    if !boundary_only {
        let st: Vec<u32> = starts.iter().copied().collect();
        for p in st.windows(2) {
            add((p[0] as i128 + p[1] as i128) / 2);
        }
        add(1);
    }
    add(0);
    add(u32::MAX as i128);
    set.into_iter().collect()
}

// ---------------------------------------------------------------------------------------------
// random generator
// ---------------------------------------------------------------------------------------------

#[derive(Clone, Debug)]
pub struct GenOptions {
    /// Upper bound of the number of symbols (FUNC + PUBLIC).
    pub max_symbols: u64,
    /// Put INLINE_ORIGIN lines directly after some FUNC bodies (they then lie inside the FUNC block).
    pub origin_in_func: bool,
    /// Line records with gaps between them and / or ending before the function end.
    pub line_gaps: bool,
    /// Duplicate symbol addresses and duplicate FILE / INLINE_ORIGIN indexes.
    pub dups: bool,
    /// 0 = never, otherwise one case in `long_line` gets a 70 000-byte FUNC or FILE name.
    pub long_line: u64,
    /// 0 = never, otherwise one case in `medium_line` gets a 1000–4000-byte FUNC or FILE name.
    pub medium_line: u64,
    /// FUNC bodies as dump_syms writes them for big functions: INLINE records with 3..12 ranges, nesting
    /// up to depth 6, up to 60 line records
    pub dense: bool,
}

impl Default for GenOptions {
    fn default() -> Self {
        GenOptions { max_symbols: 40, origin_in_func: false, line_gaps: false, dups: false, long_line: 0, medium_line: 0, dense: false }
    }
}

const OSES: [&str; 5] = ["Linux", "windows", "mac", "Android", "Fuchsia"];
const ARCHES: [&str; 5] = ["x86_64", "x86", "arm64", "arm", "ppc64"];
const IDENTS: [&str; 12] = ["main", "f", "g", "run", "init", "alloc", "drop", "poll", "parse", "lookup", "Foo", "detail"];
const FILE_NAMES: [&str; 8] = [
    "/builds/worker/checkouts/gecko/xpcom/base/nsCOMPtr.h",
    "hg:hg.mozilla.org/mozilla-central:security/sandbox/chromium/base/strings/safe_sprintf.cc:f150bc1f71d09e1e1941065951f0f5a38628f080",
    "C:\\b\\s\\w\\ir\\cache\\builder\\src\\base\\win\\scoped_handle.cc",
    "/rustc/69f9c33d71c871fc16ac445211281c6e7a340943/library/core/src/ptr/const_ptr.rs",
    "src/my file with spaces.c",
    "a.c",
    "git:github.com/rust-lang/rust:library/std/src/io/mod.rs:4b91a6ea7258a947e59c6522cd5898e7c0a6a88f",
    "/tmp/D\u{e9}j\u{e0} vu/\u{30d5}\u{30a1}\u{30a4}\u{30eb}.cpp",
];

/// A debug id that `DebugId::from_breakpad` accepts: mostly 33 hex digits, sometimes the
/// PDB 2.0 form (9..=16 digits) or a longer appendix (34..=40 digits).
pub fn random_debug_id(rng: &mut Rng) -> Vec<u8> {
    let n = match rng.below(10) {
        0 => rng.range(9, 16),
        1 => rng.range(34, 40),
        _ => 33,
    };
    let digits: &[u8] = if rng.chance(1, 6) { b"0123456789abcdef" } else { b"0123456789ABCDEF" };
    (0..n).map(|_| *rng.pick(digits)).collect()
}

/// Function-like names: never containing `\n` / `\r`, never starting with a space.
pub fn random_func_name(rng: &mut Rng) -> Vec<u8> {
    let id = |rng: &mut Rng| format!("{}{}", rng.pick(&IDENTS), rng.below(1000));
    match rng.below(12) {
        0 => String::new(),
        1 => format!("\u{dc}n\u{ef}c\u{f6}d\u{e9}::\u{3bb}{}(int)", rng.below(100)),
        2 => format!("\u{540d}\u{524d}::\u{95a2}\u{6570}{}()", rng.below(100)),
        3 | 4 => format!("{}::{}<{}, unsigned long>::{}(int, char const*) const", id(rng), id(rng), id(rng), id(rng)),
        5 => format!("operator new(unsigned long) [clone .{}]", id(rng)),
        6 => format!("<{} as core::fmt::Debug>::fmt::h{:016x}", id(rng), rng.next_u64()),
        7 => format!("_ZN{}E", id(rng)),
        8 => format!("{} ", id(rng)), // trailing space belongs to the name
        _ => id(rng),
    }
    .into_bytes()
}

pub fn random_file_name(rng: &mut Rng) -> Vec<u8> {
    match rng.below(12) {
        0 => Vec::new(),
        1 => format!("dir{}/file{}.rs", rng.below(10), rng.below(1000)).into_bytes(),
        _ => rng.pick(&FILE_NAMES).as_bytes().to_vec(),
    }
}

fn long_name(len: usize) -> Vec<u8> {
    (0..len).map(|i| if i % 61 == 60 { b' ' } else { b'a' + (i % 26) as u8 }).collect()
}

/// `n` distinct indexes: dense `0..n`, sometimes sparse, sometimes ending in u32::MAX.
fn random_ids(rng: &mut Rng, n: u64) -> Vec<u64> {
    let sparse = rng.chance(1, 4);
    let mut ids = Vec::new();
    let mut cur = if sparse { rng.below(5) } else { 0 };
    for _ in 0..n {
        ids.push(cur);
        cur += if sparse { rng.range(1, 300) } else { 1 };
    }
    if n > 0 && rng.chance(1, 10) {
        *ids.last_mut().unwrap() = u32::MAX as u64;
    }
    ids
}

/// `k` distinct sorted points in `lo..=hi` (requires `hi - lo + 1 >= k`).
fn distinct_points(rng: &mut Rng, lo: u64, hi: u64, k: usize) -> Vec<u64> {
    let mut s = BTreeSet::new();
    while s.len() < k {
        s.insert(rng.range(lo, hi));
    }
    s.into_iter().collect()
}

/// An existing id most of the time, a dangling one sometimes (always if there is none).
fn pick_id(rng: &mut Rng, ids: &[u64]) -> u64 {
    if ids.is_empty() || rng.chance(1, 8) {
        *rng.pick(&[77777u64, 4294967295, 12345])
    } else {
        *rng.pick(ids)
    }
}

fn gen_lines(rng: &mut Rng, addr: u64, size: u64, file_ids: &[u64], gaps: bool, dense: bool) -> Vec<Body> {
    // the first record may start after the function start; the last one ends at the function end
    let lead = if size > 1 && rng.chance(1, 4) { rng.range(1, (size - 1).min(8)) } else { 0 };
    let (lo, hi) = (addr + lead, addr + size);
    let avail = hi - lo;
    if avail == 0 || rng.chance(1, 6) {
        return Vec::new();
    }
    let k = if dense { rng.range(avail.min(9), avail.min(60)) } else { rng.range(1, avail.min(8)) };
    let pieces = if gaps { (2 * k + 1).min(avail) } else { k };
    let mut bounds = vec![lo];
    if pieces > 1 {
        bounds.extend(distinct_points(rng, lo + 1, hi - 1, pieces as usize - 1));
    }
    bounds.push(hi);
    let mut keep: Vec<bool> = (0..pieces).map(|_| !gaps || rng.chance(3, 5)).collect();
    if gaps && pieces > 1 && keep.iter().all(|k| *k) {
        let i = rng.below(pieces) as usize;
        keep[i] = false;
    }
    let mut out = Vec::new();
    for (i, p) in bounds.windows(2).enumerate() {
        if keep[i] {
            let line = match rng.below(8) {
                0 => 0,
                1 => u32::MAX as u64,
                _ => rng.range(1, 9000),
            };
            out.push(Body::Line { addr: p[0], size: p[1] - p[0], line, file: pick_id(rng, file_ids) });
        }
    }
    out
}

/// INLINE records for the address range `lo..hi` at nesting level `depth` (and below).
fn gen_inlines(rng: &mut Rng, depth: u64, lo: u64, hi: u64, file_ids: &[u64], origin_ids: &[u64], dense: bool, out: &mut Vec<Body>) {
    if depth > if dense { 6 } else { 3 } || hi <= lo {
        return;
    }
    let span = hi - lo;
    let ranges: Vec<(u64, u64)> = if dense && span >= 8 && rng.chance(2, 3) {
        // 3..12 ranges (some adjacent), as one record or split over several records of the same depth
        let k = rng.range(3, 12.min(span / 2)) as usize;
        let p = distinct_points(rng, lo, hi, 2 * k);
        let mut r: Vec<(u64, u64)> = p.chunks(2).map(|c| (c[0], c[1])).collect();
        for i in 1..r.len() {
            if rng.chance(1, 4) {
                r[i].0 = r[i - 1].1; // adjacent to the previous range
            }
        }
        r
    } else if span >= 3 && rng.chance(1, 3) {
        if rng.chance(1, 3) {
            let p = distinct_points(rng, lo, hi, 3); // two adjacent ranges
            vec![(p[0], p[1]), (p[1], p[2])]
        } else {
            let p = distinct_points(rng, lo, hi, 4);
            vec![(p[0], p[1]), (p[2], p[3])]
        }
    } else {
        let p = distinct_points(rng, lo, hi, 2);
        vec![(p[0], p[1])]
    };
    let rec = |rng: &mut Rng, rs: Vec<(u64, u64)>| Body::Inline {
        depth,
        call_line: if rng.chance(1, 10) { 0 } else { rng.range(1, 9000) },
        call_file: pick_id(rng, file_ids),
        origin: pick_id(rng, origin_ids),
        ranges: rs.iter().map(|(a, b)| (*a, b - a)).collect(),
    };
    if ranges.len() > 2 {
        // text order of the ranges inside a record and of the records is not the address order
        let mut rs = ranges.clone();
        if rng.chance(1, 2) {
            rng.shuffle(&mut rs);
        }
        let cut = if rng.chance(1, 2) { rs.len() } else { rng.range(1, rs.len() as u64 - 1) as usize };
        out.push(rec(rng, rs[..cut].to_vec()));
        if cut < rs.len() {
            out.push(rec(rng, rs[cut..].to_vec()));
        }
    } else if ranges.len() == 2 && rng.chance(1, 2) {
        out.push(rec(rng, ranges.clone())); // one record with two ranges
    } else {
        for r in &ranges {
            out.push(rec(rng, vec![*r]));
        }
    }
    for (a, b) in ranges {
        if rng.chance(1, 2) {
            gen_inlines(rng, depth + 1, a, b, file_ids, origin_ids, dense, out);
        }
    }
}

fn gen_func(rng: &mut Rng, addr: u64, size: u64, file_ids: &[u64], origin_ids: &[u64], o: &GenOptions) -> Record {
    let mut inl = Vec::new();
    if size > 0 && rng.chance(1, 2) {
        gen_inlines(rng, 0, addr, addr + size, file_ids, origin_ids, o.dense, &mut inl);
    }
    let lines = if size > 0 { gen_lines(rng, addr, size, file_ids, o.line_gaps, o.dense) } else { Vec::new() };
    // dump_syms writes the INLINE records first; sometimes interleave (keeping the line order)
    let mut body = Vec::new();
    if rng.chance(1, 4) {
        let (mut i, mut l) = (inl.into_iter().peekable(), lines.into_iter().peekable());
        while i.peek().is_some() || l.peek().is_some() {
            if l.peek().is_none() || (i.peek().is_some() && rng.chance(1, 2)) {
                body.push(i.next().unwrap());
            } else {
                body.push(l.next().unwrap());
            }
        }
    } else {
        body.extend(inl);
        body.extend(lines);
    }
    Record::Func {
        m: rng.chance(1, 10),
        addr,
        size,
        psize: if rng.chance(1, 3) { rng.below(0x40) } else { 0 },
        name: random_func_name(rng),
        body,
    }
}

fn gen_public(rng: &mut Rng, addr: u64) -> Record {
    Record::Public { m: rng.chance(1, 10), addr, psize: if rng.chance(1, 3) { rng.below(0x40) } else { 0 }, name: random_func_name(rng) }
}

impl SymFile {
    /// A random file; with default options a well-formed one (family `wf` of C10):
    /// distinct symbol addresses, non-overlapping FUNCs, contiguous line records ending at the
    /// function end, nested disjoint INLINE ranges, distinct FILE / INLINE_ORIGIN indexes, no
    /// INLINE_ORIGIN inside a FUNC block.
    pub fn random(rng: &mut Rng, o: &GenOptions) -> SymFile {
        let module = Module {
            os: rng.pick(&OSES).as_bytes().to_vec(),
            arch: rng.pick(&ARCHES).as_bytes().to_vec(),
            id: random_debug_id(rng),
            name: match rng.below(8) {
                0 => Vec::new(),
                1 => b"lib with spaces.so".to_vec(),
                2 => "libf\u{fc}r.dylib".as_bytes().to_vec(),
                3 => b"firefox.pdb".to_vec(),
                _ => format!("lib{}.so", rng.pick(&IDENTS)).into_bytes(),
            },
        };
        let (nfiles, norigins) = (rng.below(7), rng.below(6));
        let file_ids = random_ids(rng, nfiles);
        let origin_ids = random_ids(rng, norigins);
        let mut files: Vec<Record> = file_ids.iter().map(|i| Record::File { idx: *i, name: random_file_name(rng) }).collect();
        let mut origins: Vec<Record> = origin_ids.iter().map(|i| Record::Origin { idx: *i, name: random_func_name(rng) }).collect();

        // --- symbols: walk a cursor upwards so that FUNC ranges never overlap
        let max = o.max_symbols;
        let nsym = if o.dups && rng.chance(1, 2) {
            rng.range(26u64.min(max), max) // > 20 elements: sort_unstable really is unstable
        } else if rng.chance(1, 6) {
            rng.range(0, max)
        } else {
            rng.range(0, max.min(8))
        };
        let mut cur: u64 = *rng.pick(&[0u64, 0, 1, 0x10, 0x1000, 0x1000, 0x2b754, 0x400000, 0x7fff_ff00, 0xfffe_0000, 0xffff_f000]);
        let mut funcs: Vec<Record> = Vec::new();
        let mut publics: Vec<Record> = Vec::new();
        let mut used: Vec<u64> = Vec::new();
        while (used.len() as u64) < nsym {
            let gap = match rng.below(6) {
                0 | 1 => 0, // directly after the previous symbol's end
                2 => 1,
                3 => rng.range(2, 0x40),
                _ => rng.range(0x41, 0x2000),
            };
            let addr = cur + gap;
            if rng.chance(3, 5) {
                let size = match if o.dense { 4 } else { rng.below(5) } {
                    0 => 1,
                    1 => rng.range(2, 4),
                    2 | 3 => rng.range(5, 0x60),
                    _ => rng.range(0x61, 0x400),
                };
                if addr + size > u32::MAX as u64 {
                    break;
                }
                funcs.push(gen_func(rng, addr, size, &file_ids, &origin_ids, o));
                used.push(addr);
                cur = addr + size;
                if size >= 2 && rng.chance(1, 6) {
                    let pa = addr + rng.range(1, size - 1); // PUBLIC inside the FUNC's range
                    publics.push(gen_public(rng, pa));
                    used.push(pa);
                }
            } else {
                if addr > u32::MAX as u64 {
                    break;
                }
                publics.push(gen_public(rng, addr));
                used.push(addr);
                cur = addr + 1;
            }
        }

        // --- duplicates (family dup)
        if o.dups {
            if used.is_empty() {
                used.push(0x1000);
                publics.push(gen_public(rng, 0x1000));
            }
            for _ in 0..rng.range(1, 3) {
                let a = *rng.pick(&used);
                for _ in 0..rng.range(1, 3) {
                    if rng.chance(1, 2) && a < u32::MAX as u64 {
                        let size = rng.range(1, 0x30).min(u32::MAX as u64 - a);
                        funcs.push(gen_func(rng, a, size, &file_ids, &origin_ids, o));
                    } else {
                        // occasionally equal only after truncation to u32
                        let hi = if rng.chance(1, 8) { rng.range(1, 0xffff) << 32 } else { 0 };
                        publics.push(gen_public(rng, a + hi));
                    }
                }
            }
            for (ids, recs, is_file) in [(&file_ids, &mut files, true), (&origin_ids, &mut origins, false)] {
                for _ in 0..rng.range(0, 2) {
                    let idx = if ids.is_empty() { 3 } else { *rng.pick(ids) };
                    let copies = if ids.is_empty() { 2 } else { rng.range(1, 2) };
                    for _ in 0..copies {
                        recs.push(if is_file {
                            Record::File { idx, name: format!("dup{}.c", rng.below(1000)).into_bytes() }
                        } else {
                            Record::Origin { idx, name: format!("dup{}()", rng.below(1000)).into_bytes() }
                        });
                    }
                }
            }
        }

        // --- occasional very long / moderately long line
        let long = if o.long_line > 0 && rng.chance(1, o.long_line) {
            Some(70_000)
        } else if o.medium_line > 0 && rng.chance(1, o.medium_line) {
            Some(rng.range(1000, 4000) as usize)
        } else {
            None
        };
        if let Some(len) = long {
            let target = if !funcs.is_empty() && (files.is_empty() || rng.chance(1, 2)) { funcs.last_mut() } else { files.last_mut() };
            match target {
                Some(Record::Func { name, .. }) | Some(Record::File { name, .. }) => *name = long_name(len),
                _ => files.push(Record::File { idx: 0, name: long_name(len) }),
            }
        }

        // --- INFO and STACK records
        let mut infos: Vec<Record> = Vec::new();
        if rng.chance(2, 3) {
            let id: Vec<u8> = (0..*rng.pick(&[13u64, 40, 32])).map(|_| *rng.pick(b"0123456789ABCDEF")).collect();
            let mut rest = b"CODE_ID ".to_vec();
            rest.extend(id);
            if rng.chance(2, 3) {
                rest.extend_from_slice(b" firefox.exe");
            }
            infos.push(Record::Info { rest });
        }
        if rng.chance(1, 2) {
            infos.push(Record::Info { rest: b"GENERATOR mozilla/dump_syms 2.1.1".to_vec() });
        }
        if rng.chance(1, 8) {
            infos.push(Record::Info { rest: Vec::new() });
        }
        let mut stacks: Vec<Record> = Vec::new();
        for _ in 0..rng.below(4) {
            let a = rng.below(0x10000);
            stacks.push(Record::Stack {
                rest: match rng.below(3) {
                    0 => format!("CFI INIT {a:x} 20 .cfa: $rsp 8 + .ra: .cfa -8 + ^"),
                    1 => format!("CFI {a:x} .cfa: $rsp 16 + $rbp: .cfa -16 + ^"),
                    _ => format!("WIN 4 {a:x} 20 3 0 0 0 0 0 1 $T0 .raSearch = $eip $T0 ^ = $esp $T0 4 + ="),
                }
                .into_bytes(),
            });
        }

        // --- top-level order
        let mut records: Vec<Record> = Vec::new();
        if rng.chance(3, 5) {
            // the layout dump_syms writes: INFO, FILE, INLINE_ORIGIN, FUNC, PUBLIC, STACK
            for group in [&mut files, &mut origins] {
                let shuffle = if o.dups { rng.chance(1, 2) } else { rng.chance(1, 4) };
                if shuffle {
                    rng.shuffle(group); // indexes out of order
                } else {
                    group.sort_by_key(|r| match r {
                        Record::File { idx, .. } | Record::Origin { idx, .. } => *idx,
                        _ => 0,
                    }); // stable: duplicates adjacent
                }
            }
            for group in [&mut funcs, &mut publics] {
                if rng.chance(1, 5) {
                    rng.shuffle(group);
                } else {
                    group.sort_by_key(|r| match r {
                        Record::Func { addr, .. } | Record::Public { addr, .. } => *addr,
                        _ => 0,
                    });
                }
            }
            for g in [infos, files, origins, funcs, publics, stacks] {
                records.extend(g);
            }
        } else {
            for g in [infos, files, origins, funcs, publics, stacks] {
                records.extend(g);
            }
            rng.shuffle(&mut records);
        }

        // --- FILE records inside FUNC blocks (harmless: FILE lines do not end a block)
        for _ in 0..2 {
            let fpos: Vec<usize> = (0..records.len()).filter(|i| matches!(records[*i], Record::File { .. })).collect();
            let has_func = records.iter().any(|r| matches!(r, Record::Func { .. }));
            if !fpos.is_empty() && has_func && rng.chance(1, 5) {
                if let Record::File { idx, name } = records.remove(*rng.pick(&fpos)) {
                    let upos: Vec<usize> = (0..records.len()).filter(|i| matches!(records[*i], Record::Func { .. })).collect();
                    if let Record::Func { body, .. } = &mut records[*rng.pick(&upos)] {
                        let at = rng.below(body.len() as u64 + 1) as usize;
                        body.insert(at, Body::File { idx, name });
                    }
                }
            }
        }

        if o.origin_in_func {
            // INLINE_ORIGIN lines directly after the body of one or two FUNCs: an existing origin
            // taken out of the top level (indexes stay distinct) or a fresh one
            for k in 0..rng.range(1, 2) {
                let opos: Vec<usize> = (0..records.len()).filter(|i| matches!(records[*i], Record::Origin { .. })).collect();
                let (idx, name) = match (!opos.is_empty() && rng.chance(1, 2)).then(|| records.remove(*rng.pick(&opos))) {
                    Some(Record::Origin { idx, name }) => (idx, name),
                    _ => (100_000 + 1000 * k + rng.below(1000), random_func_name(rng)),
                };
                let upos: Vec<usize> = (0..records.len()).filter(|i| matches!(records[*i], Record::Func { .. })).collect();
                if upos.is_empty() {
                    records.push(Record::Origin { idx, name });
                    break;
                }
                if let Record::Func { body, .. } = &mut records[*rng.pick(&upos)] {
                    body.push(Body::Origin { idx, name });
                }
            }
        } else {
            // well-formed: no INLINE_ORIGIN between a FUNC and the next FUNC/PUBLIC/STACK/INFO
            let mut in_func = false;
            let mut stash = Vec::new();
            let mut kept = Vec::new();
            for r in records {
                match &r {
                    Record::Func { .. } => in_func = true,
                    Record::Public { .. } | Record::Stack { .. } | Record::Info { .. } => in_func = false,
                    Record::Origin { .. } if in_func => {
                        stash.push(r);
                        continue;
                    }
                    _ => {}
                }
                kept.push(r);
            }
            let pos = kept.iter().position(|r| matches!(r, Record::Func { .. })).unwrap_or(kept.len());
            kept.splice(pos..pos, stash);
            records = kept;
        }

        let terms = match rng.below(10) {
            0..=4 => vec![Term::Lf],
            5 | 6 => vec![Term::CrLf],
            7 | 8 => (0..rng.range(2, 7)).map(|_| *rng.pick(&[Term::Lf, Term::CrLf])).collect(),
            _ => (0..rng.range(2, 7)).map(|_| *rng.pick(&[Term::Lf, Term::CrLf, Term::CrCrLf])).collect(),
        };
        SymFile { module: Some(module), records, terms, final_newline: rng.chance(3, 4), upper_hex: rng.chance(1, 10) }
    }
}

// ---------------------------------------------------------------------------------------------
// independent decoder of the .symindex layout
// ---------------------------------------------------------------------------------------------

/// Decoded `.symindex` bytes. Layout (little endian): 48-byte header = magic `SYMINDEX` + ten u32
/// (version, module_info_offset, module_info_len, file_count, file_entries_offset,
/// inline_origin_count, inline_origin_entries_offset, symbol_count, symbol_addresses_offset,
/// symbol_entries_offset); FILE / INLINE_ORIGIN entry = {index u32, line_len u32, offset u64};
/// symbol address = u32; symbol entry = {kind u32, len u32, offset u64}.
#[derive(Clone, Debug, PartialEq, Eq)]
pub struct DecodedIndex {
    pub header: [u32; 10],
    pub module_info: Vec<u8>,
    /// (index, line_len, offset)
    pub files: Vec<(u32, u32, u64)>,
    pub origins: Vec<(u32, u32, u64)>,
    /// (address, kind, line_or_block_len, offset)
    pub syms: Vec<(u32, u32, u32, u64)>,
}

pub fn decode_symindex(b: &[u8]) -> Option<DecodedIndex> {
    let u32_at = |o: usize| -> Option<u32> { Some(u32::from_le_bytes(b.get(o..o.checked_add(4)?)?.try_into().ok()?)) };
    let u64_at = |o: usize| -> Option<u64> { Some(u64::from_le_bytes(b.get(o..o.checked_add(8)?)?.try_into().ok()?)) };
    if b.get(0..8)? != b"SYMINDEX" {
        return None;
    }
    let mut header = [0u32; 10];
    for (i, h) in header.iter_mut().enumerate() {
        *h = u32_at(8 + 4 * i)?;
    }
    let [_version, mi_off, mi_len, fcount, foff, ocount, ooff, scount, aoff, eoff] = header.map(|v| v as usize);
    let module_info = b.get(mi_off..mi_off.checked_add(mi_len)?)?.to_vec();
    let table = |off: usize, count: usize| -> Option<Vec<(u32, u32, u64)>> {
        (0..count)
            .map(|i| {
                let o = off.checked_add(i.checked_mul(16)?)?;
                Some((u32_at(o)?, u32_at(o + 4)?, u64_at(o + 8)?))
            })
            .collect()
    };
    let files = table(foff, fcount)?;
    let origins = table(ooff, ocount)?;
    let entries = table(eoff, scount)?;
    let mut syms = Vec::new();
    for (i, e) in entries.iter().enumerate() {
        syms.push((u32_at(aoff.checked_add(i.checked_mul(4)?)?)?, e.0, e.1, e.2));
    }
    Some(DecodedIndex { header, module_info, files, origins, syms })
}

#[cfg(test)]
mod test {
    use super::*;

    /// The strict describer agrees with the descriptions the renderer derives from the abstract records.
    #[test]
    fn describer_agrees_with_renderer() {
        for seed in 0..400 {
            let mut rng = Rng::new(seed);
            let o = GenOptions { line_gaps: seed % 3 == 0, dups: seed % 5 == 0, medium_line: 20, ..Default::default() };
            let f = SymFile::random(&mut rng, &o);
            let r = f.render();
            let raw: Vec<Vec<u8>> = r.lines.iter().map(|l| l.bytes.clone()).collect();
            let r2 = render_raw_lines(&raw);
            assert_eq!(r.bytes, r2.bytes);
            for (a, b) in r.lines.iter().zip(r2.lines.iter()) {
                assert_eq!(a.desc, b.desc, "seed {seed}: {:?}", String::from_utf8_lossy(&a.bytes));
                assert_eq!((a.offset, a.content_len), (b.offset, b.content_len));
            }
        }
    }
}
