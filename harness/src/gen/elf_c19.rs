//! Minimal ELF64 (x86-64, little endian, ET_DYN) writer for C19: one or two `PT_LOAD`s, `.text`, an optional
//! `.note.gnu.build-id` of any length, `.symtab`/`.strtab` with a few `FUNC` symbols. Ported from
//! `design-spikes/elf_writer_spike.py`. Also a few helpers to look at ELF files through the `object` crate
//! re-exported by samply-symbols (used for the real fixtures).
use samply_symbols::object::{self, Object, ObjectSegment};

#[derive(Clone, Debug, PartialEq)]
pub struct Sym {
    pub name: String,
    /// offset inside `.text`
    pub off: u64,
    pub size: u64,
}

#[derive(Clone, Debug, PartialEq)]
pub struct ElfSpec {
    /// vaddr of file offset 0 (vaddr of the first `PT_LOAD`)
    pub base: u64,
    /// file offset of `.text` (page aligned, >= 0x1000)
    pub text_off: u64,
    pub text_size: u64,
    /// 0: a single R+X `PT_LOAD` covers `[0, text_off + text_size)` with `vaddr - offset = base`;
    /// otherwise a read-only `PT_LOAD` for the headers and an R+X one for `.text` whose vaddr is shifted by
    /// `delta` (page aligned), the layout lld produces
    pub delta: u64,
    /// `.text` is the byte stream of a small LCG seeded by these two numbers
    pub fill_mul: u8,
    pub fill_add: u8,
    pub build_id: Option<Vec<u8>>,
    pub syms: Vec<Sym>,
}

impl ElfSpec {
    pub fn text_vaddr(&self) -> u64 {
        self.base + self.text_off + self.delta
    }
    /// relative address (relative to the first `PT_LOAD`'s vaddr) of an offset inside `.text`
    pub fn rel_of_text_off(&self, o: u64) -> u64 {
        self.text_off + self.delta + o
    }
    /// file range `(offset, size)` of the executable segment
    pub fn exec_file_range(&self) -> (u64, u64) {
        if self.delta == 0 {
            (0, self.text_off + self.text_size)
        } else {
            (self.text_off, self.text_size)
        }
    }
    pub fn text_bytes(&self) -> Vec<u8> {
        let mut x: u32 = ((self.fill_mul as u32) << 8) | self.fill_add as u32 | 0x5a0000;
        (0..self.text_size)
            .map(|_| {
                x = x.wrapping_mul(1103515245).wrapping_add(12345);
                (x >> 16) as u8
            })
            .collect()
    }
    /// `DebugId::from_text_first_page`'s 16-byte xor hash of the first 4096 bytes of `.text`, computed
    /// independently of the repository's code
    pub fn text_hash(&self) -> [u8; 16] {
        let mut h = [0u8; 16];
        for (i, b) in self.text_bytes().iter().take(4096).enumerate() {
            h[i % 16] ^= b;
        }
        h
    }
}

struct Sec {
    name: &'static str,
    typ: u32,
    flags: u64,
    addr: u64,
    off: u64,
    link: u32,
    info: u32,
    align: u64,
    entsize: u64,
    data: Vec<u8>,
}

fn p16(v: &mut Vec<u8>, x: u16) {
    v.extend_from_slice(&x.to_le_bytes());
}
fn p32(v: &mut Vec<u8>, x: u32) {
    v.extend_from_slice(&x.to_le_bytes());
}
fn p64(v: &mut Vec<u8>, x: u64) {
    v.extend_from_slice(&x.to_le_bytes());
}

pub fn write_elf(s: &ElfSpec) -> Vec<u8> {
    assert!(s.text_off >= 0x1000 && s.text_off % 0x1000 == 0 && s.delta % 0x1000 == 0 && s.text_size > 0);
    let text_addr = s.text_vaddr();
    let mut secs: Vec<Sec> = Vec::new();
    secs.push(Sec { name: ".text", typ: 1, flags: 6, addr: text_addr, off: s.text_off, link: 0, info: 0, align: 16, entsize: 0, data: s.text_bytes() });
    let mut cur = s.text_off + s.text_size;
    if let Some(id) = &s.build_id {
        let mut note = Vec::new();
        p32(&mut note, 4);
        p32(&mut note, id.len() as u32);
        p32(&mut note, 3); // NT_GNU_BUILD_ID
        note.extend_from_slice(b"GNU\0");
        note.extend_from_slice(id);
        while note.len() % 4 != 0 {
            note.push(0);
        }
        cur = (cur + 3) & !3;
        let len = note.len() as u64;
        // not covered by a PT_LOAD / PT_NOTE: found through the section header, like in a file whose notes were
        // kept by `objcopy --only-keep-debug`
        secs.push(Sec { name: ".note.gnu.build-id", typ: 7, flags: 0, addr: 0, off: cur, link: 0, info: 0, align: 4, entsize: 0, data: note });
        cur += len;
    }
    let mut strtab = vec![0u8];
    let mut symtab = vec![0u8; 24];
    for sym in &s.syms {
        let name_off = strtab.len() as u32;
        strtab.extend_from_slice(sym.name.as_bytes());
        strtab.push(0);
        p32(&mut symtab, name_off);
        symtab.push((1 << 4) | 2); // GLOBAL FUNC
        symtab.push(0);
        p16(&mut symtab, 1); // section index of .text
        p64(&mut symtab, text_addr + sym.off);
        p64(&mut symtab, sym.size);
    }
    cur = (cur + 7) & !7;
    let symtab_idx = secs.len() as u32 + 1;
    let l = symtab.len() as u64;
    secs.push(Sec { name: ".symtab", typ: 2, flags: 0, addr: 0, off: cur, link: symtab_idx + 1, info: 1, align: 8, entsize: 24, data: symtab });
    cur += l;
    let l = strtab.len() as u64;
    secs.push(Sec { name: ".strtab", typ: 3, flags: 0, addr: 0, off: cur, link: 0, info: 0, align: 1, entsize: 0, data: strtab });
    cur += l;
    let mut shstr = vec![0u8];
    let mut name_offs = Vec::new();
    for sec in &secs {
        name_offs.push(shstr.len() as u32);
        shstr.extend_from_slice(sec.name.as_bytes());
        shstr.push(0);
    }
    name_offs.push(shstr.len() as u32);
    shstr.extend_from_slice(b".shstrtab\0");
    let l = shstr.len() as u64;
    secs.push(Sec { name: ".shstrtab", typ: 3, flags: 0, addr: 0, off: cur, link: 0, info: 0, align: 1, entsize: 0, data: shstr });
    cur += l;
    let shoff = (cur + 7) & !7;
    let nph: u16 = if s.delta == 0 { 1 } else { 2 };
    let nsec = secs.len() as u16 + 1;

    let mut out = vec![0u8; (shoff + 64 * nsec as u64) as usize];
    let mut eh = Vec::new();
    eh.extend_from_slice(b"\x7fELF");
    eh.extend_from_slice(&[2, 1, 1, 0]);
    eh.extend_from_slice(&[0u8; 8]);
    p16(&mut eh, 3); // ET_DYN
    p16(&mut eh, 62); // EM_X86_64
    p32(&mut eh, 1);
    p64(&mut eh, text_addr);
    p64(&mut eh, 64);
    p64(&mut eh, shoff);
    p32(&mut eh, 0);
    p16(&mut eh, 64);
    p16(&mut eh, 56);
    p16(&mut eh, nph);
    p16(&mut eh, 64);
    p16(&mut eh, nsec);
    p16(&mut eh, nsec - 1);
    assert_eq!(eh.len(), 64);
    out[..64].copy_from_slice(&eh);
    let mut ph = Vec::new();
    let mut load = |flags: u32, off: u64, vaddr: u64, size: u64| {
        p32(&mut ph, 1);
        p32(&mut ph, flags);
        p64(&mut ph, off);
        p64(&mut ph, vaddr);
        p64(&mut ph, vaddr);
        p64(&mut ph, size);
        p64(&mut ph, size);
        p64(&mut ph, 0x1000);
    };
    if s.delta == 0 {
        load(5, 0, s.base, s.text_off + s.text_size);
    } else {
        load(4, 0, s.base, 64 + 2 * 56);
        load(5, s.text_off, text_addr, s.text_size);
    }
    out[64..64 + ph.len()].copy_from_slice(&ph);
    for sec in &secs {
        out[sec.off as usize..sec.off as usize + sec.data.len()].copy_from_slice(&sec.data);
    }
    let mut sh = vec![0u8; 64];
    for (sec, name_off) in secs.iter().zip(name_offs.iter()) {
        p32(&mut sh, *name_off);
        p32(&mut sh, sec.typ);
        p64(&mut sh, sec.flags);
        p64(&mut sh, sec.addr);
        p64(&mut sh, sec.off);
        p64(&mut sh, sec.data.len() as u64);
        p32(&mut sh, sec.link);
        p32(&mut sh, sec.info);
        p64(&mut sh, sec.align);
        p64(&mut sh, sec.entsize);
    }
    out[shoff as usize..shoff as usize + sh.len()].copy_from_slice(&sh);
    out
}

/// What the recording generator needs to know about an existing ELF file.
#[derive(Clone, Debug)]
pub struct ElfFacts {
    /// vaddr of the first segment (`samply_symbols::relative_address_base`)
    pub base_svma: u64,
    /// `(file offset, vaddr, file size)` of the segments
    pub segments: Vec<(u64, u64, u64)>,
    pub build_id: Option<Vec<u8>>,
}

pub fn elf_facts(data: &[u8]) -> Option<ElfFacts> {
    let file = object::File::parse(data).ok()?;
    let segments: Vec<(u64, u64, u64)> = file.segments().map(|s| (s.file_range().0, s.address(), s.file_range().1)).collect();
    Some(ElfFacts {
        base_svma: samply_symbols::relative_address_base(&file),
        segments,
        build_id: file.build_id().ok().flatten().map(|b| b.to_vec()),
    })
}
