//! Generators / writers shared between properties (perf.data, ELF64, Breakpad .sym, …).
pub mod breakpad_sym;
pub mod c03_ops;
pub mod c08;
pub mod elf;
pub mod elf_c19;
pub mod elf_ids;
pub mod elf_syms;
pub mod perfdata;
pub mod objpres;
pub mod perfdata_bid;
