//! Generators / writers shared between properties (perf.data, ELF64, Breakpad .sym, …).
pub mod breakpad_sym;
