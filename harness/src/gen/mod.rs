//! Generators / writers shared between properties (perf.data, ELF64, Breakpad .sym, …).
pub mod perfdata;
pub mod c08;
