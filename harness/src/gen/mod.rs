//! Generators / writers shared between properties (perf.data, ELF64, Breakpad .sym, …).
pub mod elf;
pub mod elf_ids;
pub mod elf_syms;
pub mod perfdata;
pub mod elf_c19;
