//! Minimal ELF64 (little endian, x86-64) writer for symbol-table experiments (C05).
//!
//! The file consists of headers and metadata only: the described sections and segments are *not* backed by
//! bytes (their offsets, addresses and sizes are arbitrary 64-bit values; `object` does not touch section
//! contents unless asked), so thousands of objects with extreme layouts stay a few hundred bytes each.
//!
//! Layout: ELF header | program headers | .note.gnu.build-id | .symtab | .strtab | .dynsym | .dynstr |
//! .eh_frame | .shstrtab | section headers.  Section index 0 is the null section, indices 1..=n are the
//! described sections in the given order, the metadata sections follow.

#[derive(Clone, Debug, PartialEq, Eq)]
pub enum SecKind {
    /// SHT_PROGBITS, SHF_ALLOC|SHF_EXECINSTR  (object: `SectionKind::Text`)
    Text,
    /// SHT_NOBITS, SHF_ALLOC|SHF_EXECINSTR    (a text section of a stripped debug file)
    NobitsExec,
    /// SHT_PROGBITS, SHF_ALLOC|SHF_WRITE
    Data,
    /// SHT_NOBITS, SHF_ALLOC|SHF_WRITE
    Bss,
}

#[derive(Clone, Debug)]
pub struct Sec {
    pub kind: SecKind,
    pub addr: u64,
    pub size: u64,
    pub off: u64,
}

#[derive(Clone, Debug)]
pub struct Seg {
    pub off: u64,
    pub vaddr: u64,
    pub filesz: u64,
    /// `p_memsz` (`None`: equal to `p_filesz`)
    pub memsz: Option<u64>,
}

pub const STT_NOTYPE: u8 = 0;
pub const STT_OBJECT: u8 = 1;
pub const STT_FUNC: u8 = 2;
pub const STT_GNU_IFUNC: u8 = 10;
pub const SHN_UNDEF: u16 = 0;
pub const SHN_ABS: u16 = 0xfff1;

#[derive(Clone, Debug)]
pub struct Sym {
    pub dynamic: bool,
    pub st_type: u8,
    pub shndx: u16,
    pub value: u64,
    pub size: u64,
    /// `None`: `st_name` points outside the string table
    pub name: Option<Vec<u8>>,
}

#[derive(Clone, Debug, Default)]
pub struct ElfSpec {
    pub segs: Vec<Seg>,
    pub secs: Vec<Sec>,
    pub syms: Vec<Sym>,
    pub entry: u64,
    /// (initial address, length) of the FDEs of `.eh_frame`; no section is written when empty
    pub fdes: Vec<(u64, u64)>,
    pub build_id: Vec<u8>,
    /// `Some(sh_addr)`: `.eh_frame` is written the way compilers write it — `zR` CIEs (two of them) with
    /// `DW_EH_PE_pcrel | DW_EH_PE_sdata4` pointers, the section at address `sh_addr`; the FDE addresses must lie
    /// within 2 GiB of it and the lengths below 2^31 (see `pcrel_representable`)
    pub eh_pcrel: Option<u64>,
}

struct SecHdr {
    name: String,
    sh_type: u32,
    flags: u64,
    addr: u64,
    off: u64,
    size: u64,
    link: u32,
    info: u32,
    align: u64,
    entsize: u64,
}

fn w16(v: &mut Vec<u8>, x: u16) {
    v.extend_from_slice(&x.to_le_bytes());
}
fn w32(v: &mut Vec<u8>, x: u32) {
    v.extend_from_slice(&x.to_le_bytes());
}
fn w64(v: &mut Vec<u8>, x: u64) {
    v.extend_from_slice(&x.to_le_bytes());
}

fn sym_tables(syms: &[&Sym]) -> (Vec<u8>, Vec<u8>) {
    let mut strtab = vec![0u8];
    let mut symtab = vec![0u8; 24]; // null symbol
    for s in syms {
        let st_name: u32 = match &s.name {
            Some(n) => {
                let o = strtab.len() as u32;
                strtab.extend_from_slice(n);
                strtab.push(0);
                o
            }
            None => 0x7fff_fff0,
        };
        w32(&mut symtab, st_name);
        symtab.push((1 << 4) | (s.st_type & 0xf)); // STB_GLOBAL
        symtab.push(0);
        w16(&mut symtab, s.shndx);
        w64(&mut symtab, s.value);
        w64(&mut symtab, s.size);
    }
    (symtab, strtab)
}

fn eh_frame(fdes: &[(u64, u64)]) -> Vec<u8> {
    let mut v = Vec::new();
    // CIE: version 1, no augmentation => pointers are absolute, native size
    w32(&mut v, 12); // length
    w32(&mut v, 0); // CIE id
    v.push(1); // version
    v.push(0); // augmentation ""
    v.push(1); // code alignment factor
    v.push(0x78); // data alignment factor -8
    v.push(16); // return address register
    v.extend_from_slice(&[0, 0, 0]); // DW_CFA_nop padding
    for &(initial, len) in fdes {
        let start = v.len() as u32;
        w32(&mut v, 20); // length
        w32(&mut v, start + 4); // CIE pointer: distance from this field back to the CIE at offset 0
        w64(&mut v, initial);
        w64(&mut v, len);
    }
    w32(&mut v, 0); // terminator
    v
}

/// can every FDE be written with pc-relative 4-byte pointers when the section sits at `sh_addr`?
pub fn pcrel_representable(fdes: &[(u64, u64)], sh_addr: u64) -> bool {
    fdes.iter().all(|&(initial, len)| {
        let d = initial.wrapping_sub(sh_addr) as i64;
        d.abs() < 0x7000_0000 && len < 0x8000_0000
    })
}

fn eh_frame_pcrel(fdes: &[(u64, u64)], sh_addr: u64) -> Vec<u8> {
    let mut v = Vec::new();
    let cie = |v: &mut Vec<u8>| -> u32 {
        let at = v.len() as u32;
        w32(v, 16); // length
        w32(v, 0); // CIE id
        v.push(1); // version
        v.extend_from_slice(b"zR\0");
        v.push(1); // code alignment
        v.push(0x78); // data alignment -8
        v.push(16); // return address register
        v.push(1); // augmentation data length
        v.push(0x1b); // DW_EH_PE_pcrel | DW_EH_PE_sdata4
        v.extend_from_slice(&[0, 0, 0]); // padding (DW_CFA_nop)
        at
    };
    let mut cur_cie = cie(&mut v);
    for (k, &(initial, len)) in fdes.iter().enumerate() {
        if k > 0 && k == fdes.len() / 2 {
            cur_cie = cie(&mut v); // a second CIE in the middle: the FDEs after it refer to it
        }
        w32(&mut v, 16); // length
        let field = v.len() as u32;
        w32(&mut v, field - cur_cie); // CIE pointer, relative to this field
        let here = sh_addr.wrapping_add(v.len() as u64);
        w32(&mut v, initial.wrapping_sub(here) as u32);
        w32(&mut v, len as u32);
        v.push(0); // augmentation data length
        v.extend_from_slice(&[0, 0, 0]);
    }
    w32(&mut v, 0);
    v
}

pub fn write_elf(spec: &ElfSpec) -> Vec<u8> {
    let mut hdrs: Vec<SecHdr> = Vec::new();
    let mut n_text = 0;
    for s in &spec.secs {
        let (name, sh_type, flags) = match s.kind {
            SecKind::Text => {
                n_text += 1;
                (if n_text == 1 { ".text".to_string() } else { format!(".text{n_text}") }, 1u32, 6u64)
            }
            SecKind::NobitsExec => (".text.nobits".to_string(), 8, 6),
            SecKind::Data => (".data".to_string(), 1, 3),
            SecKind::Bss => (".bss".to_string(), 8, 3),
        };
        hdrs.push(SecHdr { name, sh_type, flags, addr: s.addr, off: s.off, size: s.size, link: 0, info: 0, align: 1, entsize: 0 });
    }
    let mut out = vec![0u8; 64 + 56 * spec.segs.len()];
    let mut blobs: Vec<(usize, Vec<u8>)> = Vec::new(); // (index into hdrs, data)
    let mut add = |hdrs: &mut Vec<SecHdr>, name: &str, sh_type: u32, flags: u64, addr: u64, data: Vec<u8>, link: u32, info: u32, align: u64, entsize: u64| {
        hdrs.push(SecHdr { name: name.to_string(), sh_type, flags, addr, off: 0, size: data.len() as u64, link, info, align, entsize });
        blobs.push((hdrs.len() - 1, data));
    };
    // note
    let mut note = Vec::new();
    w32(&mut note, 4);
    w32(&mut note, spec.build_id.len() as u32);
    w32(&mut note, 3);
    note.extend_from_slice(b"GNU\0");
    note.extend_from_slice(&spec.build_id);
    while note.len() % 4 != 0 {
        note.push(0);
    }
    add(&mut hdrs, ".note.gnu.build-id", 7, 2, 0, note, 0, 0, 4, 0);
    let normal: Vec<&Sym> = spec.syms.iter().filter(|s| !s.dynamic).collect();
    let dynamic: Vec<&Sym> = spec.syms.iter().filter(|s| s.dynamic).collect();
    let (symtab, strtab) = sym_tables(&normal);
    let idx = hdrs.len() as u32 + 1; // section index of .symtab (null section is 0)
    add(&mut hdrs, ".symtab", 2, 0, 0, symtab, idx + 1, 1, 8, 24);
    add(&mut hdrs, ".strtab", 3, 0, 0, strtab, 0, 0, 1, 0);
    if !dynamic.is_empty() {
        let (dynsym, dynstr) = sym_tables(&dynamic);
        let idx = hdrs.len() as u32 + 1;
        add(&mut hdrs, ".dynsym", 11, 2, 0, dynsym, idx + 1, 1, 8, 24);
        add(&mut hdrs, ".dynstr", 3, 2, 0, dynstr, 0, 0, 1, 0);
    }
    if !spec.fdes.is_empty() {
        match spec.eh_pcrel {
            Some(sh_addr) if pcrel_representable(&spec.fdes, sh_addr) => add(&mut hdrs, ".eh_frame", 1, 2, sh_addr, eh_frame_pcrel(&spec.fdes, sh_addr), 0, 0, 8, 0),
            _ => add(&mut hdrs, ".eh_frame", 1, 2, 0, eh_frame(&spec.fdes), 0, 0, 8, 0),
        }
    }
    // .shstrtab
    let mut shstr = vec![0u8];
    let mut name_offs = Vec::new();
    for h in &hdrs {
        name_offs.push(shstr.len() as u32);
        shstr.extend_from_slice(h.name.as_bytes());
        shstr.push(0);
    }
    let shstr_name_off = shstr.len() as u32;
    shstr.extend_from_slice(b".shstrtab\0");
    name_offs.push(shstr_name_off);
    hdrs.push(SecHdr { name: ".shstrtab".into(), sh_type: 3, flags: 0, addr: 0, off: 0, size: shstr.len() as u64, link: 0, info: 0, align: 1, entsize: 0 });
    blobs.push((hdrs.len() - 1, shstr));
    // place blobs
    for (i, data) in &blobs {
        while out.len() % 8 != 0 {
            out.push(0);
        }
        hdrs[*i].off = out.len() as u64;
        out.extend_from_slice(data);
    }
    while out.len() % 8 != 0 {
        out.push(0);
    }
    let shoff = out.len() as u64;
    out.extend_from_slice(&[0u8; 64]); // null section header
    for (h, name_off) in hdrs.iter().zip(&name_offs) {
        w32(&mut out, *name_off);
        w32(&mut out, h.sh_type);
        w64(&mut out, h.flags);
        w64(&mut out, h.addr);
        w64(&mut out, h.off);
        w64(&mut out, h.size);
        w32(&mut out, h.link);
        w32(&mut out, h.info);
        w64(&mut out, h.align);
        w64(&mut out, h.entsize);
    }
    // ELF header
    let mut eh = Vec::new();
    eh.extend_from_slice(b"\x7fELF");
    eh.extend_from_slice(&[2, 1, 1, 0]);
    eh.extend_from_slice(&[0u8; 8]);
    w16(&mut eh, 3); // ET_DYN
    w16(&mut eh, 62); // EM_X86_64
    w32(&mut eh, 1);
    w64(&mut eh, spec.entry);
    w64(&mut eh, if spec.segs.is_empty() { 0 } else { 64 });
    w64(&mut eh, shoff);
    w32(&mut eh, 0);
    w16(&mut eh, 64);
    w16(&mut eh, 56);
    w16(&mut eh, spec.segs.len() as u16);
    w16(&mut eh, 64);
    w16(&mut eh, hdrs.len() as u16 + 1);
    w16(&mut eh, hdrs.len() as u16); // index of .shstrtab
    out[0..64].copy_from_slice(&eh);
    let mut ph = Vec::new();
    for s in &spec.segs {
        w32(&mut ph, 1); // PT_LOAD
        w32(&mut ph, 5);
        w64(&mut ph, s.off);
        w64(&mut ph, s.vaddr);
        w64(&mut ph, s.vaddr);
        w64(&mut ph, s.filesz);
        w64(&mut ph, s.memsz.unwrap_or(s.filesz));
        w64(&mut ph, 0x1000);
    }
    out[64..64 + ph.len()].copy_from_slice(&ph);
    out
}
