//! Generators for C08: request bodies (valid + structure-aware mutations), identifier strings with
//! multi-byte characters around the fixed slice offsets, number tokens at the parsers' limits,
//! Breakpad `.sym` texts and `.symindex` files (valid / mutated / stale / corrupted).
use crate::common::*;
use samply_symbols::{BreakpadIndex, BreakpadIndexCreator};

pub const MODULE_ID: &str = "BE4E976C325246EE9D6B7847A670B2A90";

pub fn ps<'a>(rng: &mut Rng, xs: &[&'a str]) -> &'a str {
    xs[rng.below(xs.len() as u64) as usize]
}

pub fn hx(s: &str) -> String {
    hex(s.as_bytes())
}

// ------------------------------------------------------------------------------------------
// a tiny JSON tree that can express what serde_json::Value cannot: duplicate keys and raw number text

#[derive(Clone, Debug)]
pub enum J {
    Null,
    Bool(bool),
    Raw(String),
    Str(String),
    Arr(Vec<J>),
    Obj(Vec<(String, J)>),
}

impl J {
    pub fn render(&self, out: &mut String) {
        match self {
            J::Null => out.push_str("null"),
            J::Bool(b) => out.push_str(if *b { "true" } else { "false" }),
            J::Raw(r) => out.push_str(r),
            J::Str(s) => out.push_str(&serde_json::to_string(s).unwrap()),
            J::Arr(v) => {
                out.push('[');
                for (i, x) in v.iter().enumerate() {
                    if i > 0 {
                        out.push(',');
                    }
                    x.render(out);
                }
                out.push(']');
            }
            J::Obj(v) => {
                out.push('{');
                for (i, (k, x)) in v.iter().enumerate() {
                    if i > 0 {
                        out.push(',');
                    }
                    out.push_str(&serde_json::to_string(k).unwrap());
                    out.push(':');
                    x.render(out);
                }
                out.push('}');
            }
        }
    }
    pub fn text(&self) -> String {
        let mut s = String::new();
        self.render(&mut s);
        s
    }
    fn count(&self) -> usize {
        1 + match self {
            J::Arr(v) => v.iter().map(|x| x.count()).sum(),
            J::Obj(v) => v.iter().map(|(_, x)| x.count()).sum(),
            _ => 0,
        }
    }
    /// apply `f` to the `n`-th node in pre-order
    fn at(&mut self, n: &mut usize, f: &mut dyn FnMut(&mut J)) -> bool {
        if *n == 0 {
            f(self);
            return true;
        }
        *n -= 1;
        match self {
            J::Arr(v) => v.iter_mut().any(|x| x.at(n, f)),
            J::Obj(v) => v.iter_mut().any(|(_, x)| x.at(n, f)),
            _ => false,
        }
    }
}

pub fn num(n: u64) -> J {
    J::Raw(n.to_string())
}
pub fn st(s: &str) -> J {
    J::Str(s.to_string())
}
pub fn obj(v: Vec<(&str, J)>) -> J {
    J::Obj(v.into_iter().map(|(k, x)| (k.to_string(), x)).collect())
}

const EXTREME_NUMBERS: &[&str] = &[
    "0", "-0", "1", "-1", "255", "256", "65535", "65536", "2147483647", "2147483648", "4294967295",
    "4294967296", "4294967297", "9223372036854775807", "9223372036854775808", "18446744073709551615",
    "18446744073709551616", "-9223372036854775808", "-9223372036854775809", "1e0", "1e9", "4294967295.0",
    "4.294967295e9", "1e400", "-1e400", "1e-400", "0.5", "1E+2", "340282366920938463463374607431768211456",
    "0.00000000000000000000000000000000000000000000000001", "123456789012345678901234567890",
];

pub const WEIRD_STRINGS: &[&str] = &[
    "", " ", "0", "0x", "0x0", "0xffffffff", "0x100000000", "0xfffffff8", "0XFF", "0x+1", "0x-1", "+1", "-1",
    "é", "1234567é", "1234567éA", "0123456789abcdef0éé", "€", "😀", "\u{0}", "\\", "\"", "\n", "a b",
    "AAAAAAAAAAAAAAAAAAAAAAAAAAAAAAAAA", "AA152DEB2D9B76084C4C44205044422E1", "00000000000000000000000000000000 0",
    "000000000000000000000000000000000", "BE4E976C-3252-46EE-9D6B-7847A670B2A9-0", "BE4E976C325246EE9D6B7847A670B2A9",
    "BE4E976C325246EE9D6B7847A670B2A90000000000", "be4e976c325246ee9d6b7847a670b2a90", "١٢٣", "ＡＢ",
    "../../etc/passwd", "/", "t", "t.sym", "firefox.exe", "example-linux", "cargo:r:a-é:p", "hg:::", "s3:b:d/p:",
];

fn random_value(rng: &mut Rng) -> J {
    match rng.below(9) {
        0 => J::Null,
        1 => J::Bool(rng.chance(1, 2)),
        2 | 3 => J::Raw(ps(rng, EXTREME_NUMBERS).to_string()),
        4 | 5 => st(ps(rng, WEIRD_STRINGS)),
        6 => J::Arr(vec![]),
        7 => J::Arr(vec![num(0), num(rng.below(5000))]),
        _ => J::Obj(vec![]),
    }
}

/// one structure-aware mutation
pub fn mutate(j: &mut J, rng: &mut Rng) {
    let total = j.count();
    let mut n = rng.below(total as u64) as usize;
    let kind = rng.below(10);
    let mut r2 = rng.clone();
    let _ = rng.next_u64();
    j.at(&mut n, &mut |node: &mut J| {
        let rng = &mut r2;
        match (kind, &mut *node) {
            (0, J::Obj(v)) if !v.is_empty() => {
                let i = rng.below(v.len() as u64) as usize;
                v.remove(i); // field deletion
            }
            (1, J::Obj(v)) if !v.is_empty() => {
                let i = rng.below(v.len() as u64) as usize;
                let mut dup = v[i].clone(); // field duplication (same or different value)
                if rng.chance(1, 2) {
                    dup.1 = random_value(rng);
                }
                v.push(dup);
            }
            (2, J::Obj(v)) => v.push((ps(rng, &["jobs", "memoryMap", "stacks", "size", "x", ""]).to_string(), random_value(rng))),
            (0, J::Arr(v)) | (1, J::Arr(v)) if !v.is_empty() => {
                let i = rng.below(v.len() as u64) as usize;
                if rng.chance(1, 2) {
                    v.remove(i);
                } else {
                    let d = v[i].clone();
                    v.push(d);
                }
            }
            (2, J::Arr(v)) => v.push(random_value(rng)),
            (3, J::Raw(_)) | (4, J::Raw(_)) | (5, J::Raw(_)) => *node = J::Raw(ps(rng, EXTREME_NUMBERS).to_string()),
            (3, J::Str(s)) | (4, J::Str(s)) => {
                // string surgery: truncate / insert a multi-byte char at a char boundary / replace
                let idxs: Vec<usize> = s.char_indices().map(|(i, _)| i).chain(std::iter::once(s.len())).collect();
                let cut = *rng.pick(&idxs);
                match rng.below(4) {
                    0 => s.truncate(cut),
                    1 => s.insert_str(cut, ps(rng, &["é", "€", "😀", "0", "f", "+", "-", " ", "x"])),
                    2 => {
                        s.truncate(cut);
                        s.push_str(ps(rng, &["é", "€", "😀"]));
                    }
                    _ => *s = ps(rng, WEIRD_STRINGS).to_string(),
                }
            }
            (5, J::Str(_)) => *node = st(ps(rng, WEIRD_STRINGS)),
            (6, J::Bool(b)) => *b = !*b,
            _ => *node = random_value(rng), // type swap
        }
    });
}

// ------------------------------------------------------------------------------------------
// number tokens for Breakpad records

const TOKENS: &[&str] = &[
    "0", "1", "f", "10", "fff", "1000", "1001", "10ff", "1100", "7fffffff", "80000000", "ffffff00", "fffffffe",
    "ffffffff", "100000000", "fffffffff", "0000000000", "00000001000", "ffffffffffffffff", "10000000000000000",
    "1ffffffffffffffff", "ffffffff00001050", "100001050", "200", "4294967295", "4294967296", "9999999999",
    "99999999999", "0000000007", "00000000007", "", "g", "0x10", "+1", "-1", "é", "1é", "١", "1g", "F", "aB",
    "1080", "10a0", "20", "80", "99999999999999999999", "18446744073709551616", "184467440737095516150", "00000000000000000000001",
    "fffffffffffffffffffffffff",
];

pub fn tok(rng: &mut Rng) -> String {
    match rng.below(10) {
        0..=4 => ps(rng, TOKENS).to_string(),
        5 | 6 => format!("{:x}", rng.below(0x2000)),
        7 => format!("{:x}", rng.next_u64() >> rng.below(64)),
        8 => format!("{}", rng.next_u64() >> rng.below(64)),
        _ => {
            let n = rng.range(1, 18);
            (0..n).map(|_| *rng.pick(&['0', '1', '9', 'a', 'f', 'F'])).collect()
        }
    }
}

fn hexprefix(t: &str, max: usize) -> Option<u64> {
    let d: String = t.chars().take(max).take_while(|c| c.is_ascii_hexdigit()).collect();
    if d.is_empty() { None } else { u64::from_str_radix(&d, 16).ok() }
}

const ADDRS: &[u32] = &[0, 1, 0xfff, 0x1000, 0x1001, 0x107f, 0x1080, 0x10ff, 0x1100, 0x7fffffff, 0x80000000, 0xffffff00, 0xffffff10, 0xfffffffe, 0xffffffff];

fn addr_near(rng: &mut Rng, a: Option<u64>, s: Option<u64>) -> u32 {
    let a = a.unwrap_or(0x1000);
    let s = s.unwrap_or(0x10);
    let c = [a.wrapping_sub(1), a, a + 1, a.wrapping_add(s).wrapping_sub(1), a.wrapping_add(s), a.wrapping_add(s) + 1, a.wrapping_add(s / 2)];
    if rng.chance(1, 4) { *rng.pick(ADDRS) } else { *rng.pick(&c) as u32 }
}

pub fn bp_ops(rng: &mut Rng, n: usize) -> Vec<String> {
    let mut ops = Vec::new();
    for _ in 0..n {
        match rng.below(4) {
            0 => {
                let (a, s) = (tok(rng), tok(rng));
                let addr = addr_near(rng, hexprefix(&a, 8), hexprefix(&s, 8));
                ops.push(format!("bpfunc {} {} {}", hx(&a), hx(&s), addr));
            }
            1 => {
                let a = tok(rng);
                let addr = addr_near(rng, hexprefix(&a, 16).map(|v| v & 0xffff_ffff), None);
                ops.push(format!("bppublic {} {}", hx(&a), addr));
            }
            2 => {
                let a = if rng.chance(2, 3) { format!("{:x}", rng.range(0xff0, 0x1110)) } else { tok(rng) };
                let (s, l, f) = (tok(rng), tok(rng), tok(rng));
                let addr = if rng.chance(1, 8) { *rng.pick(ADDRS) } else { rng.range(0xffe, 0x1102) as u32 };
                ops.push(format!("bpline {} {} {} {} {}", hx(&a), hx(&s), hx(&l), hx(&f), addr));
            }
            _ => {
                let d = if rng.chance(2, 3) { ps(rng, &["0", "0", "1", "00"]).to_string() } else { tok(rng) };
                let a = if rng.chance(2, 3) { format!("{:x}", rng.range(0xff0, 0x1110)) } else { tok(rng) };
                let s = tok(rng);
                let addr = if rng.chance(1, 8) { *rng.pick(ADDRS) } else { rng.range(0xffe, 0x1102) as u32 };
                ops.push(format!("bpinline {} {} {} {}", hx(&d), hx(&a), hx(&s), addr));
            }
        }
    }
    ops
}

// ------------------------------------------------------------------------------------------
// identifier strings

/// `len` bytes of hex digits with the character `ch` starting at byte `pos`
pub fn id_with_char(len: usize, pos: usize, ch: &str, upper: bool) -> Option<String> {
    if pos + ch.len() > len {
        return None;
    }
    let digits = if upper { b"0123456789ABCDEF" } else { b"0123456789abcdef" };
    let mut s = String::new();
    let mut i = 0;
    while s.len() < len {
        if s.len() == pos {
            s.push_str(ch);
        } else {
            s.push(digits[i % 16] as char);
            i += 1;
        }
    }
    (s.len() == len).then_some(s)
}

pub fn random_id(rng: &mut Rng) -> String {
    match rng.below(8) {
        0 => ps(rng, WEIRD_STRINGS).to_string(),
        1 => {
            let len = rng.range(0, 44) as usize;
            let ch = ps(rng, &["é", "€", "😀", "+", "-", " ", "g"]);
            let pos = rng.below(len as u64 + 1) as usize;
            id_with_char(len, pos, ch, rng.chance(1, 2)).unwrap_or_default()
        }
        2 => format!("{:08X}{:x}", rng.next_u64() as u32, rng.next_u64() >> rng.range(32, 63)),
        3 => (0..32).map(|_| *rng.pick(&['0', '9', 'A', 'F', 'C'])).collect(),
        4 => (0..rng.range(18, 64)).map(|_| *rng.pick(&['0', '9', 'a', 'f', 'c'])).collect(),
        5 => format!("+{:07x}{:x}", rng.below(1 << 28), rng.below(1 << 20)),
        _ => {
            let len = rng.range(0, 42) as usize;
            (0..len).map(|_| *rng.pick(&['0', '1', 'a', 'F', 'f', '9', 'g', '+'])).collect()
        }
    }
}

pub fn id_ops(rng: &mut Rng, n: usize) -> Vec<String> {
    (0..n)
        .map(|_| {
            let s = random_id(rng);
            let op = ps(rng, &["codeid", "codeid", "pecodeid", "elfbuildid"]);
            format!("{op} {}", hx(&s))
        })
        .collect()
}

const PATHS: &[&str] = &[
    "git:github.com/rust-lang/rust:library/std/src/sys/unix/thread.rs:53cb7b09b00cbea8754ffb78e7e3cb521cb8af4b",
    "hg:hg.mozilla.org/mozilla-central:widget/cocoa/nsAppShell.mm:997f00815e6bc28806b75448c8829f0259d2cb28",
    "s3:gecko-generated-sources:a5d3747707d6877b0e5cb0a364e3cb9fea8aa4feb6ead138952c2ba46d41045297286385f0e0470146f49403e46bd266e654dfca986de48c230f3a71c2aafed4/ipc/ipdl/PBackgroundChild.cpp:",
    "cargo:github.com-1ecc6299db9ec823:tokio-1.6.1:src/runtime/task/mod.rs",
    "cargo:r:a-b:p", "cargo:r:-:p", "cargo:r:a-:p", "cargo:r:-b:", "cargo:r:a-é:p", "cargo:r:é-é:p", "cargo:r:-é:p",
    "cargo:r:é-:p", "cargo:r:ab:p", "cargo:r:a-b-c-:p", "cargo:é:a-😀b:é", "git:a:b:", "git:a:b", "git::b:c", "hg:a::c",
    "s3:b:d/p:x", "s3:b:/p:", "s3:b:d/:", "s3:b:d/p", "cargo::a-b:p", "cargo:r::p", "cargo:r:a-b", "", "git:", "cargo:",
];

pub fn path_ops(rng: &mut Rng, n: usize) -> Vec<String> {
    (0..n)
        .map(|_| {
            let mut s = ps(rng, PATHS).to_string();
            for _ in 0..rng.below(3) {
                let idxs: Vec<usize> = s.char_indices().map(|(i, _)| i).chain(std::iter::once(s.len())).collect();
                let cut = *rng.pick(&idxs);
                match rng.below(3) {
                    0 => s.insert_str(cut, ps(rng, &[":", "-", "/", "é", "😀", "a"])),
                    1 => s.truncate(cut),
                    _ => {
                        if cut < s.len() {
                            let c = s[cut..].chars().next().unwrap();
                            s.replace_range(cut..cut + c.len_utf8(), "");
                        }
                    }
                }
            }
            format!("specialpath {}", hx(&s))
        })
        .collect()
}

pub fn asmreq_ops(rng: &mut Rng, n: usize) -> Vec<String> {
    let field = |rng: &mut Rng| -> String {
        match rng.below(6) {
            0 => format!("0x{}", tok(rng)),
            1 => tok(rng),
            2 => ps(rng, WEIRD_STRINGS).to_string(),
            3 => format!("0x{:x}", rng.next_u64() >> rng.range(30, 63)),
            4 => ps(rng, &["0x+10", "0x-10", "0x", "0X10", " 0x10", "0x10 ", "0x１０", "0xé", "0x00000000000010", "0x+", "0x+ffffffff", "0x+100000000"]).to_string(),
            _ => format!("0x{:x}", rng.below(0x3000)),
        }
    };
    (0..n).map(|_| format!("asmreq {} {}", hx(&field(rng)), hx(&field(rng)))).collect()
}

// ------------------------------------------------------------------------------------------
// Breakpad .sym texts and .symindex files

pub struct SymFile {
    pub text: Vec<u8>,
    /// ends with `FILE 9 src/a.c` / `FUNC 5000 10 0 srcfn` / `5000 10 3 9` (a source request can succeed)
    pub has_source: bool,
    /// addresses worth looking up (record boundaries)
    pub addrs: Vec<u32>,
}

fn num_tok(rng: &mut Rng, normal: u64) -> String {
    if rng.chance(1, 6) { tok(rng) } else { format!("{normal:x}") }
}
fn dec_tok(rng: &mut Rng, normal: u64) -> String {
    if rng.chance(1, 6) { tok(rng) } else { format!("{normal}") }
}

pub fn gen_sym(rng: &mut Rng) -> SymFile {
    let mut lines: Vec<Vec<u8>> = Vec::new();
    let mut addrs: Vec<u32> = vec![0, 0xffffffff];
    let module = match rng.below(12) {
        0 => format!("MODULE Linux x86_64 {} t", ps(rng, WEIRD_STRINGS)),
        1 => "MODULE Linux x86_64".to_string(),
        2 => format!("MODULE  windows   x86_64  {MODULE_ID}   t é.pdb"),
        _ => format!("MODULE Linux x86_64 {MODULE_ID} t"),
    };
    lines.push(module.into_bytes());
    if rng.chance(1, 2) {
        lines.push(format!("INFO CODE_ID {} t.so", random_id(rng)).into_bytes());
    }
    if rng.chance(1, 4) {
        lines.push(b"INFO GENERATOR verif 1.0".to_vec());
    }
    let nfiles = rng.below(4);
    for i in 0..nfiles {
        let idx = if rng.chance(1, 8) { tok(rng) } else { (if rng.chance(1, 6) { nfiles - i } else { i }).to_string() };
        lines.push(format!("FILE {} {}", idx, ps(rng, PATHS)).into_bytes());
    }
    let norigins = rng.below(3);
    for i in 0..norigins {
        lines.push(format!("INLINE_ORIGIN {} inl{}", dec_tok(rng, i), i).into_bytes());
    }
    let nblocks = rng.range(1, 5);
    let mut base: u64 = *rng.pick(&[0u64, 0x1000, 0x1000, 0x2b754, 0x7fffff00, 0xfffffe00, 0xffffff00]);
    for b in 0..nblocks {
        let size: u64 = *rng.pick(&[0u64, 1, 0x10, 0x80, 0x100, 0x200, 0xffffffff, 0x80000000]);
        addrs.extend([base.wrapping_sub(1) as u32, base as u32, base.wrapping_add(size / 2) as u32,
            base.wrapping_add(size).wrapping_sub(1) as u32, base.wrapping_add(size) as u32]);
        if rng.chance(1, 4) {
            let m = if rng.chance(1, 3) { "m " } else { "" };
            lines.push(format!("PUBLIC {m}{} {} pub{b}", num_tok(rng, base), num_tok(rng, 0)).into_bytes());
        } else {
            let m = if rng.chance(1, 5) { "m " } else { "" };
            lines.push(format!("FUNC {m}{} {} {} fn{b}", num_tok(rng, base), num_tok(rng, size), num_tok(rng, 0)).into_bytes());
            for d in 0..rng.below(3) {
                let mut l = format!("INLINE {} {} {} {}", dec_tok(rng, d), dec_tok(rng, 10 + d), dec_tok(rng, 0), dec_tok(rng, d % norigins.max(1)));
                for _ in 0..rng.range(1, 2) {
                    let a = base + rng.below(size.min(0x100) + 1);
                    let isz = rng.below(0x40);
                    l.push_str(&format!(" {} {}", num_tok(rng, a), num_tok(rng, isz)));
                    addrs.push(a as u32);
                }
                lines.push(l.into_bytes());
            }
            let mut a = base;
            for _ in 0..rng.below(5) {
                let sz = rng.range(1, 0x20);
                let (ln, fl) = (rng.below(500), rng.below(nfiles.max(1)));
                lines.push(format!("{} {} {} {}", num_tok(rng, a), num_tok(rng, sz), dec_tok(rng, ln), dec_tok(rng, fl)).into_bytes());
                addrs.push(a as u32);
                a += sz;
            }
        }
        if rng.chance(1, 6) {
            lines.push(b"STACK CFI INIT 1000 10 .cfa: $rsp 8 +".to_vec());
        }
        base = base.wrapping_add(*rng.pick(&[0u64, 0x10, 0x100, 0x1000, 0x100000]));
    }
    // line-level mutations
    for _ in 0..rng.below(4) {
        if lines.is_empty() {
            break;
        }
        let i = rng.below(lines.len() as u64) as usize;
        match rng.below(9) {
            0 => {
                lines.remove(i);
            }
            1 => {
                let l = lines[i].clone();
                lines.insert(i, l);
            }
            2 => {
                let j = rng.below(lines.len() as u64) as usize;
                lines.swap(i, j);
            }
            3 => {
                let cut = rng.below(lines[i].len() as u64 + 1) as usize;
                lines[i].truncate(cut);
            }
            4 => lines[i].push(b'\r'),
            5 => lines[i].extend_from_slice(&[0xff, 0xfe, b' ', 0xc3]),
            6 => lines[i] = Vec::new(),
            7 => {
                // replace one space-separated token
                let mut parts: Vec<Vec<u8>> = lines[i].split(|b| *b == b' ').map(|p| p.to_vec()).collect();
                let k = rng.below(parts.len() as u64) as usize;
                parts[k] = tok(rng).into_bytes();
                lines[i] = parts.join(&b' ');
            }
            _ => {
                let n = rng.range(100, 700) as usize;
                lines[i].extend(std::iter::repeat(b'A').take(n));
            }
        }
    }
    let has_source = rng.chance(1, 3);
    if has_source {
        lines.push(b"FILE 9 src/a.c".to_vec());
        lines.push(b"FUNC 5000 10 0 srcfn".to_vec());
        lines.push(b"5000 10 3 9".to_vec());
    }
    let mut text = Vec::new();
    let nl: &[u8] = if rng.chance(1, 8) { b"\r\n" } else { b"\n" };
    for (i, l) in lines.iter().enumerate() {
        text.extend_from_slice(l);
        if i + 1 < lines.len() || rng.chance(3, 4) {
            text.extend_from_slice(nl);
        }
    }
    SymFile { text, addrs, has_source }
}

/// (the code under test is called while *generating*, too: a panic there must not kill the harness —
/// the same input is executed as an operation and reported there)
pub fn make_index(sym: &[u8], chunk: usize) -> Option<Vec<u8>> {
    std::panic::catch_unwind(|| {
        let mut c = BreakpadIndexCreator::new();
        for p in sym.chunks(chunk.max(1)) {
            c.consume(p);
        }
        c.finish().ok()
    })
    .unwrap_or(None)
}

const HEADER_VALUES: &[u32] = &[0, 1, 3, 4, 15, 16, 47, 48, 49, 0x0fffffff, 0x10000000, 0x10000001, 0x3fffffff, 0x40000000,
    0x40000001, 0x7fffffff, 0x80000000, 0xfffffff0, 0xfffffffc, 0xffffffff];

/// corrupt a (valid) index
pub fn corrupt_index(idx: &mut Vec<u8>, rng: &mut Rng) {
    for _ in 0..rng.range(1, 3) {
        match rng.below(8) {
            0 | 1 | 2 if idx.len() >= 48 => {
                // one header field (at 8, 12, …, 44) to an extreme / near-length value
                let field = 8 + 4 * rng.below(10) as usize;
                let len = idx.len() as u32;
                let v = match rng.below(3) {
                    0 => *rng.pick(HEADER_VALUES),
                    1 => *rng.pick(&[len.wrapping_sub(1), len, len + 1, len / 2, len.wrapping_sub(16), len.wrapping_sub(4)]),
                    _ => rng.next_u64() as u32 >> rng.below(32),
                };
                idx[field..field + 4].copy_from_slice(&v.to_le_bytes());
            }
            3 => {
                let cut = if rng.chance(1, 2) { *rng.pick(&[0usize, 7, 8, 47, 48, 49, 60]) } else { rng.below(idx.len() as u64 + 1) as usize };
                idx.truncate(cut.min(idx.len()));
            }
            4 if !idx.is_empty() => {
                for _ in 0..rng.range(1, 8) {
                    let i = rng.below(idx.len() as u64) as usize;
                    idx[i] = rng.next_u64() as u8;
                }
            }
            5 if idx.len() > 64 => {
                // entry area: make offsets / lengths / kinds extreme
                let i = rng.range(48, idx.len() as u64 - 4) as usize & !3;
                let v = *rng.pick(HEADER_VALUES);
                idx[i..i + 4].copy_from_slice(&v.to_le_bytes());
            }
            6 => idx.extend(std::iter::repeat(0u8).take(rng.range(1, 40) as usize)),
            _ if !idx.is_empty() => idx[0] ^= 1,
            _ => {}
        }
    }
}

/// does the module-info region of this index parse? Computed with the real parser on a reduced file
/// (same module-info bytes, all counts zero), so nom / debugid / UTF-8 validation stay third-party.
pub fn module_info_oracle(data: &[u8]) -> bool {
    if data.len() < 48 {
        return false;
    }
    let le = |o: usize| u32::from_le_bytes([data[o], data[o + 1], data[o + 2], data[o + 3]]) as usize;
    let (off, len) = (le(12), le(16));
    let Some(mi) = data.get(off..).and_then(|s| s.get(..len)) else { return false };
    let mut reduced = vec![0u8; 48];
    reduced[..8].copy_from_slice(b"SYMINDEX");
    reduced[8..12].copy_from_slice(&1u32.to_le_bytes());
    reduced[12..16].copy_from_slice(&48u32.to_le_bytes());
    reduced[16..20].copy_from_slice(&(len as u32).to_le_bytes());
    reduced.extend_from_slice(mi);
    std::panic::catch_unwind(|| BreakpadIndex::parse_symindex_file(&reduced[..]).is_ok()).unwrap_or(false)
}

pub fn symindex_op(data: &[u8]) -> String {
    format!("symindex {} {}", if module_info_oracle(data) { 1 } else { 0 }, hex(data))
}

/// a synthetic index with chosen header fields over `total` bytes (module info = a valid MODULE line)
pub fn synthetic_index(fields: [u32; 8], total: usize, good_module: bool) -> Vec<u8> {
    let mi = if good_module { format!("MODULE Linux x86_64 {MODULE_ID} t") } else { "MODULE nothing".to_string() };
    let mut v = vec![0u8; 48];
    v[..8].copy_from_slice(b"SYMINDEX");
    v[8..12].copy_from_slice(&1u32.to_le_bytes());
    v[12..16].copy_from_slice(&48u32.to_le_bytes());
    v[16..20].copy_from_slice(&(mi.len() as u32).to_le_bytes());
    for (k, f) in fields.iter().enumerate() {
        // file_count, file_off, inl_count, inl_off, sym_count, symaddr_off, syment_off at 20..48 (7 fields)
        if k < 7 {
            v[20 + 4 * k..24 + 4 * k].copy_from_slice(&f.to_le_bytes());
        }
    }
    v.extend_from_slice(mi.as_bytes());
    if v.len() < total {
        v.resize(total, 0);
    }
    v
}

// ------------------------------------------------------------------------------------------
// API requests

pub struct Lib {
    pub name: &'static str,
    pub debug_name: &'static str,
    pub debug_id: &'static str,
    pub code_id: &'static str,
    pub addrs: &'static [u32],
}

pub const LIBS: &[Lib] = &[
    Lib { name: "firefox.exe", debug_name: "firefox.pdb", debug_id: "8A913DE821D9DE764C4C44205044422E1", code_id: "5EBAD356a1000", addrs: &[0x17a20, 0x1000, 0x17a21, 0x51000, 0x96fff] },
    Lib { name: "example-linux", debug_name: "example-linux", debug_id: MODULE_ID, code_id: "6c974ebe5232ee469d6b7847a670b2a956f8aede", addrs: &[0x1160, 0x1000, 0x1161, 0x11a5, 0x1060, 0x4000] },
    Lib { name: "libsoftokn3.so", debug_name: "libsoftokn3.so", debug_id: "18A2599B4B601FA566223DA497D9C5190", code_id: "9b59a218604ba51f66223da497d9c5193bcb07d2", addrs: &[0x8001, 0x8000, 0x9001, 0x10000, 0x10003] },
    Lib { name: "firefox-macos", debug_name: "firefox-macos", debug_id: "8E7B0ED0B04F3FCCA05E139E5250BA720", code_id: "8E7B0ED0B04F3FCCA05E139E5250BA72", addrs: &[0x1000, 0x3f00, 0x3f01, 0x3f02, 0x4000] },
    Lib { name: "t", debug_name: "t", debug_id: MODULE_ID, code_id: "", addrs: &[0x1000, 0x1080, 0x10ff, 0x1100, 0xffffff10] },
];

fn hexs(n: u64) -> J {
    J::Str(format!("0x{n:x}"))
}

pub fn valid_request(rng: &mut Rng, extra_addrs: &[u32]) -> (String, J) {
    let lib = rng.pick(LIBS);
    let pick_addr = |rng: &mut Rng| -> u64 {
        match rng.below(4) {
            0 if !extra_addrs.is_empty() => *rng.pick(extra_addrs) as u64,
            1 => *rng.pick(ADDRS) as u64,
            _ => *rng.pick(lib.addrs) as u64 + rng.below(3),
        }
    };
    match rng.below(3) {
        0 => {
            let nlibs = rng.range(1, 3);
            let libs: Vec<&Lib> = (0..nlibs).map(|i| if i == 0 { lib } else { rng.pick(LIBS) }).collect();
            let mm = J::Arr(libs.iter().map(|l| J::Arr(vec![st(l.debug_name), st(l.debug_id)])).collect());
            let stacks = J::Arr((0..rng.range(1, 3)).map(|_| {
                J::Arr((0..rng.range(1, 6)).map(|_| J::Arr(vec![num(rng.below(nlibs)), num(pick_addr(rng))])).collect())
            }).collect());
            let job = obj(vec![("memoryMap", mm), ("stacks", stacks)]);
            let req = match rng.below(4) {
                0 => obj(vec![("jobs", J::Arr(vec![job.clone(), job]))]),
                1 => multi_job_request(rng, extra_addrs),
                _ => job,
            };
            ("/symbolicate/v5".to_string(), req)
        }
        1 => {
            let req = obj(vec![
                ("debugName", st(lib.debug_name)),
                ("debugId", st(lib.debug_id)),
                ("moduleOffset", hexs(pick_addr(rng))),
                ("file", st(ps(rng, PATHS))),
            ]);
            ("/source/v1".to_string(), req)
        }
        _ => {
            let size: u64 = *rng.pick(&[0u64, 1, 8, 0x3a, 0x100, 0x7fffffff, 0x80000000, 0xfffffff0, 0xfffffff1, 0xfffffff8, 0xffffffff]);
            let mut f = vec![("startAddress", hexs(pick_addr(rng))), ("size", hexs(size))];
            if rng.chance(3, 4) {
                f.push(("name", st(lib.name)));
            }
            if rng.chance(1, 2) && !lib.code_id.is_empty() {
                f.push(("codeId", st(lib.code_id)));
            }
            if rng.chance(3, 4) {
                f.push(("debugName", st(lib.debug_name)));
                f.push(("debugId", st(lib.debug_id)));
            }
            if rng.chance(1, 2) {
                f.push(("continueUntilFunctionEnd", J::Bool(rng.chance(3, 4))));
            }
            rng.shuffle(&mut f);
            ("/asm/v1".to_string(), obj(f))
        }
    }
}

pub fn api_op(path: &str, body: &str) -> String {
    format!("api {} {}", hx(path), hx(body))
}

const ODD_PATHS: &[&str] = &["", "/", "/symbolicate/v5/", "/symbolicate/v4", "/SYMBOLICATE/V5", "/asm/v1?x=1", "/source/v1#", "symbolicate/v5",
    "/asm/v2", "//asm/v1", "/é", "/\u{0}", "/symbolicate/v5\n", "/../asm/v1"];

fn truncate_at_char(s: &str, at: usize) -> &str {
    let mut i = at.min(s.len());
    while !s.is_char_boundary(i) {
        i -= 1;
    }
    &s[..i]
}

/// one API operation: valid, mutated, textually damaged, deeply nested or on an odd path
pub fn api_ops(rng: &mut Rng, n: usize, extra_addrs: &[u32]) -> Vec<String> {
    let mut ops = Vec::new();
    for _ in 0..n {
        let (mut path, mut req) = valid_request(rng, extra_addrs);
        let mode = rng.below(10);
        let mut body = match mode {
            0 | 1 => req.text(),
            2..=6 => {
                for _ in 0..rng.range(1, 3) {
                    mutate(&mut req, rng);
                }
                req.text()
            }
            7 => {
                let t = req.text();
                let cut = rng.below(t.len() as u64 + 1) as usize;
                truncate_at_char(&t, cut).to_string()
            }
            8 => {
                let depth = *rng.pick(&[1usize, 64, 127, 128, 129, 200, 1000, 5000]);
                let (o, c) = if rng.chance(1, 2) { ("[", "]") } else { ("{\"jobs\":", "}") };
                let mut t = o.repeat(depth);
                if rng.chance(1, 2) {
                    t.push_str(&req.text());
                    t.push_str(&c.repeat(depth));
                }
                t
            }
            _ => rng.pick(&["", " ", "null", "[]", "{}", "\"x\"", "0", "{\"jobs\":[]}", "{\"jobs\":null}", "{\"memoryMap\":[],\"stacks\":[]}",
                "{\"memoryMap\":[],\"stacks\":[[[0,0]]]}", "{\"jobs\":[{\"memoryMap\":[[\"t\",\"x\"]],\"stacks\":[[[0,1]]]}]}", "\u{feff}{}", "{\"a\":\"\\ud800\"}", "{\"startAddress\":\"0x0\",\"size\":\"0x0\"}"]).to_string(),
        };
        if rng.chance(1, 12) {
            path = ps(rng, ODD_PATHS).to_string();
        } else if rng.chance(1, 12) {
            path = ps(rng, &["/symbolicate/v5", "/source/v1", "/asm/v1"]).to_string(); // body of another endpoint
        }
        if rng.chance(1, 30) {
            body.push_str(ps(rng, &[" ", "x", "}", "\u{0}", ",{}"]));
        }
        ops.push(api_op(&path, &body));
    }
    ops
}

/// a case around one generated `.sym`: serve it (and an index: none / valid / stale / corrupted), look
/// boundary addresses up, and send requests that reach it through every endpoint
pub fn sym_case(rng: &mut Rng) -> Vec<String> {
    let sym = gen_sym(rng);
    let mut ops = Vec::new();
    let mut addrs = sym.addrs.clone();
    addrs.truncate(24);
    let names: &[&str] = if rng.chance(1, 3) { &["example-linux.sym"] } else { &["t.sym"] };
    for name in names {
        ops.push(format!("file {} {}", hx(name), hex(&sym.text)));
        let idx_name = name.replace(".sym", ".symindex");
        match rng.below(6) {
            0 | 1 => {}
            2 => {
                if let Some(i) = make_index(&sym.text, rng.range(1, 64) as usize) {
                    ops.push(format!("file {} {}", hx(&idx_name), hex(&i)));
                }
            }
            3 => {
                // stale: index of another file
                let other = gen_sym(rng);
                if let Some(i) = make_index(&other.text, 4096) {
                    ops.push(format!("file {} {}", hx(&idx_name), hex(&i)));
                    addrs.extend(other.addrs.iter().take(8));
                }
            }
            4 => {
                // entries at the boundaries; the lookups land on them
                if let Some(mut i) = make_index(&sym.text, 4096) {
                    let t = tweak_entries(&mut i, sym.text.len() as u64, rng);
                    addrs.splice(0..0, t);
                    ops.push(symindex_op(&i));
                    ops.push(format!("file {} {}", hx(&idx_name), hex(&i)));
                }
            }
            _ => {
                if let Some(mut i) = make_index(&sym.text, 4096) {
                    corrupt_index(&mut i, rng);
                    ops.push(symindex_op(&i));
                    ops.push(format!("file {} {}", hx(&idx_name), hex(&i)));
                }
            }
        }
    }
    let a: Vec<String> = addrs.iter().map(|a| a.to_string()).collect();
    ops.push(format!("lookup {} {}", hx(names[0]), a.join(" ")));
    if sym.has_source {
        ops.push(format!("file {} {}", hx("src/a.c"), hx("int main() { return 0; }\n")));
        let lib_name = names[0].trim_end_matches(".sym");
        for (off, file) in [(0x5000u64, "src/a.c"), (0x5004, "src/b.c"), (0x5010, "src/a.c")] {
            let req = obj(vec![("debugName", st(lib_name)), ("debugId", st(MODULE_ID)), ("moduleOffset", hexs(off)), ("file", st(file))]);
            ops.push(api_op("/source/v1", &req.text()));
        }
    }
    if rng.chance(1, 2) {
        ops.push(format!("symcreate {} @{}", rng.pick(&[1u32, 2, 3, 7, 64, 4096]), hx(names[0])));
    }
    // requests that hit the served file
    let lib_name = names[0].trim_end_matches(".sym");
    let stacks = J::Arr(vec![J::Arr(addrs.iter().take(12).map(|a| J::Arr(vec![num(0), num(*a as u64)])).collect())]);
    let req = obj(vec![("memoryMap", J::Arr(vec![J::Arr(vec![st(lib_name), st(MODULE_ID)])])), ("stacks", stacks)]);
    ops.push(api_op("/symbolicate/v5", &req.text()));
    for _ in 0..rng.range(1, 3) {
        let a = *rng.pick(&addrs) as u64;
        if rng.chance(1, 2) {
            let req = obj(vec![("debugName", st(lib_name)), ("debugId", st(MODULE_ID)), ("moduleOffset", hexs(a)), ("file", st(ps(rng, PATHS)))]);
            ops.push(api_op("/source/v1", &req.text()));
        } else {
            let size: u64 = *rng.pick(&[0u64, 8, 0x100, 0xfffffff0, 0xfffffff8, 0xffffffff]);
            let req = obj(vec![("name", st("example-linux")), ("debugName", st("example-linux")), ("debugId", st(MODULE_ID)),
                ("startAddress", hexs(a)), ("size", hexs(size)), ("continueUntilFunctionEnd", J::Bool(true))]);
            ops.push(api_op("/asm/v1", &req.text()));
        }
    }
    ops.extend(api_ops(rng, 2, &addrs));
    ops
}

pub fn symindex_ops(rng: &mut Rng, n: usize) -> Vec<String> {
    let mut ops = Vec::new();
    for _ in 0..n {
        if rng.chance(1, 2) {
            let sym = gen_sym(rng);
            if let Some(mut i) = make_index(&sym.text, 4096) {
                if rng.chance(4, 5) {
                    corrupt_index(&mut i, rng);
                }
                ops.push(symindex_op(&i));
                continue;
            }
        }
        let mut f = [0u32; 8];
        for x in f.iter_mut() {
            *x = if rng.chance(1, 2) { *rng.pick(HEADER_VALUES) } else { rng.below(200) as u32 };
        }
        let total = *rng.pick(&[48usize, 60, 100, 128, 300]);
        ops.push(symindex_op(&synthetic_index(f, total, rng.chance(5, 6))));
    }
    ops
}

// ------------------------------------------------------------------------------------------
// improvement round: entry-level index surgery, deep inline chains, multi-job requests

fn rd32(d: &[u8], o: usize) -> Option<u32> {
    d.get(o..o + 4).map(|b| u32::from_le_bytes([b[0], b[1], b[2], b[3]]))
}

fn wr32(d: &mut [u8], o: usize, v: u32) {
    if let Some(b) = d.get_mut(o..o + 4) {
        b.copy_from_slice(&v.to_le_bytes());
    }
}

fn wr64(d: &mut [u8], o: usize, v: u64) {
    if let Some(b) = d.get_mut(o..o + 8) {
        b.copy_from_slice(&v.to_le_bytes());
    }
}

/// Per-entry boundary values for a (valid) index over a text of `text_len` bytes: symbol entries
/// (`kind u32, len u32, offset u64` at `ent_off + 16 j`), FILE / INLINE_ORIGIN entries (`index u32, len u32,
/// offset u64`), symbol addresses. Returns the addresses whose lookups land on the touched entries.
pub fn tweak_entries(idx: &mut Vec<u8>, text_len: u64, rng: &mut Rng) -> Vec<u32> {
    let mut touched = Vec::new();
    let (Some(fc), Some(fo), Some(ic), Some(io), Some(sc), Some(ao), Some(eo)) =
        (rd32(idx, 20), rd32(idx, 24), rd32(idx, 28), rd32(idx, 32), rd32(idx, 36), rd32(idx, 40), rd32(idx, 44))
    else {
        return touched;
    };
    let (fc, fo, ic, io, sc, ao, eo) = (fc as usize, fo as usize, ic as usize, io as usize, sc as usize, ao as usize, eo as usize);
    let sym_addr = |idx: &[u8], j: usize| rd32(idx, ao + 4 * j).unwrap_or(0);
    for _ in 0..rng.range(1, 3) {
        let kind = rng.below(9);
        if sc == 0 && kind != 5 {
            continue;
        }
        let j = rng.below(sc.max(1) as u64) as usize;
        let e = eo + 16 * j;
        let len = rd32(idx, e + 4).unwrap_or(0) as u64;
        let offsets = [0u64, text_len.wrapping_sub(1), text_len, text_len + 1, text_len.wrapping_sub(len), text_len.wrapping_sub(len).wrapping_add(1),
            1 << 32, 1 << 63, u64::MAX, (u64::MAX - len).wrapping_add(1), u64::MAX - len, (u64::MAX - len).wrapping_add(2), 0xffff_ffff_ffff_fff0];
        match kind {
            0 => wr64(idx, e + 8, *rng.pick(&offsets)),
            1 => wr32(idx, e + 4, *rng.pick(&[0u32, 1, 2, 0x20, 0x7fff_ffff, 0xffff_ffff, text_len as u32, (text_len as u32).wrapping_add(1)])),
            2 => wr32(idx, e, *rng.pick(&[0u32, 1, 2, 3, 0xffff_ffff, 0x100])),
            3 => {
                // both halves extreme: offset + len around 2^64
                let l = *rng.pick(&[0x20u32, 1, 0xffff_ffff]);
                wr32(idx, e + 4, l);
                wr64(idx, e + 8, (u64::MAX - l as u64).wrapping_add(rng.below(3)));
            }
            4 if sc >= 2 => {
                // two entries share a file offset (the memo tables are keyed by the offset alone)
                let k = (j + 1 + rng.below(sc as u64 - 1) as usize) % sc;
                let ek = eo + 16 * k;
                let off_k = idx.get(ek + 8..ek + 16).map(|b| u64::from_le_bytes(b.try_into().unwrap())).unwrap_or(0);
                wr64(idx, e + 8, off_k);
                match rng.below(4) {
                    0 => wr32(idx, e + 4, (len / 2) as u32),
                    1 => wr32(idx, e + 4, (len as u32).wrapping_add(7)),
                    2 => {
                        let kk = rd32(idx, ek).unwrap_or(0);
                        wr32(idx, e, kk);
                    }
                    _ => {}
                }
                let a = sym_addr(idx, k);
                touched.extend([a, sym_addr(idx, j), a]);
            }
            5 => {
                // FILE / INLINE_ORIGIN entry: index / length / offset
                let (cnt, off) = if rng.chance(1, 2) { (fc, fo) } else { (ic, io) };
                if cnt > 0 {
                    let f = off + 16 * rng.below(cnt as u64) as usize;
                    match rng.below(3) {
                        0 => wr64(idx, f + 8, *rng.pick(&offsets)),
                        1 => wr32(idx, f + 4, *rng.pick(&[0u32, 1, 4, 0xffff_ffff, text_len as u32])),
                        _ => wr32(idx, f, *rng.pick(&[0u32, 1, 2, 0xffff_ffff, 9])),
                    }
                }
            }
            6 if sc >= 2 => {
                // unsorted symbol addresses
                let k = rng.below(sc as u64) as usize;
                let (a, b) = (sym_addr(idx, j), sym_addr(idx, k));
                wr32(idx, ao + 4 * j, b);
                wr32(idx, ao + 4 * k, a);
                touched.extend([a, b]);
            }
            7 => wr32(idx, ao + 4 * j, *rng.pick(&[0u32, 0xffff_ffff, 0x8000_0000, 0x1000])),
            _ => {
                // symbol_count changed by one (the two arrays must stay equally long for the parser)
                wr32(idx, 36, (sc as u32).wrapping_add(*rng.pick(&[1u32, 0xffff_ffff])));
            }
        }
        let a = sym_addr(idx, j);
        touched.extend([a, a.wrapping_add(1), a.wrapping_sub(1)]);
    }
    touched
}

/// a `.sym` with inline chains of depth 0..40 over one address, 1..50 ranges per INLINE record, sibling
/// inlinees per depth, FILE / INLINE_ORIGIN records out of order (and duplicated)
pub fn gen_deep_sym(rng: &mut Rng, tier: Tier, equal_keys: bool) -> SymFile {
    let mut lines: Vec<String> = vec![format!("MODULE Linux x86_64 {MODULE_ID} t")];
    let nfiles = if tier == Tier::Thorough && rng.chance(1, 8) { 1000 } else { rng.range(1, 40) };
    let norigins = if tier == Tier::Thorough && rng.chance(1, 8) { 1000 } else { rng.range(1, 40) };
    let mut recs: Vec<String> = (0..nfiles).map(|i| format!("FILE {i} {}", if i % 7 == 0 { ps(rng, PATHS).to_string() } else { format!("src/f{i}.c") })).collect();
    recs.extend((0..norigins).map(|i| format!("INLINE_ORIGIN {i} inl{i}")));
    if rng.chance(1, 3) {
        recs.push(format!("FILE {} dup.c", rng.below(nfiles)));
        recs.push(format!("INLINE_ORIGIN {} dup", rng.below(norigins)));
    }
    rng.shuffle(&mut recs);
    if rng.chance(1, 2) {
        lines.extend(recs.drain(..));
    }
    let mut addrs: Vec<u32> = vec![0xfff, 0x1000];
    let base: u64 = 0x1000;
    let depth = *rng.pick(&[0u64, 1, 2, 3, 5, 8, 15, 16, 17, 31, 32, 40]);
    let size: u64 = 0x100 + 2 * depth;
    lines.push(format!("FUNC {base:x} {size:x} 0 outer"));
    let target = base + depth + rng.below(8);
    for d in 0..depth {
        // the range that covers `target` plus up to 49 sibling ranges at this depth
        let nranges = *rng.pick(&[1u64, 1, 2, 3, 10, 50]);
        let mut l = format!("INLINE {d} {} {} {}", 100 + d, rng.below(nfiles + 1), rng.below(norigins + 1));
        let mut pairs: Vec<(u64, u64)> = vec![(base + d, size - 2 * d)];
        for r in 1..nranges {
            pairs.push((base + size + 0x10 * r, rng.range(1, 0xf)));
        }
        if rng.chance(1, 2) {
            rng.shuffle(&mut pairs);
        }
        for (a, sz) in pairs {
            l.push_str(&format!(" {a:x} {sz:x}"));
        }
        lines.push(l);
        if equal_keys && rng.chance(1, 6) {
            // the same (depth, address) again: which of the two survives `sort_unstable_by_key` + binary search is
            // unspecified, so this is only generated for the exploration operations (`lookup`, `api`)
            lines.push(format!("INLINE {d} 7 0 0 {:x} {:x}", base + d, rng.range(1, 0x20)));
        } else if rng.chance(1, 30) {
            // a later, shorter range at this depth (distinct key): the chain ends here for addresses beyond it
            lines.push(format!("INLINE {d} 7 0 0 {:x} {:x}", base + d + 1, rng.range(1, 0x120)));
        }
    }
    let mut a = base;
    while a < base + size {
        let sz = rng.range(1, 0x40).min(base + size - a);
        lines.push(format!("{a:x} {sz:x} {} {}", rng.below(900), rng.below(nfiles + 1)));
        a += sz;
    }
    addrs.extend([target as u32, (base + depth) as u32, (base + depth).wrapping_sub(1) as u32, (base + size - depth) as u32, (base + size - 1) as u32, (base + size) as u32,
        (base + size / 2) as u32, (base + size + 0x10) as u32]);
    // a second function with sibling inlinees only, and a PUBLIC
    let b2 = base + size + 0x400;
    lines.push(format!("FUNC {b2:x} 40 0 second"));
    lines.push(format!("INLINE 0 1 0 0 {b2:x} 10 {:x} 10", b2 + 0x20));
    lines.push(format!("INLINE 1 2 0 0 {:x} 4", b2 + 0x22));
    lines.push(format!("{b2:x} 40 9 0"));
    lines.push(format!("PUBLIC {:x} 0 pub", b2 + 0x100));
    addrs.extend([b2 as u32, b2 as u32 + 0x10, b2 as u32 + 0x22, b2 as u32 + 0x30, b2 as u32 + 0x100, b2 as u32 + 0x200]);
    lines.extend(recs);
    let mut text = lines.join("\n").into_bytes();
    text.push(b'\n');
    SymFile { text, addrs, has_source: false }
}

/// one `bpmap` operation: a `.sym` text served with a stored index (valid / stale / corrupted / with entries at
/// the boundaries), lookups on one map (addresses repeated and interleaved: the memo tables)
/// C10's tie-break oracle for the index built from `text`: for every key of the implementation's own index (symbol
/// address, FILE id, INLINE_ORIGIN id) the file offset of the entry that survived `sort_unstable + dedup`
pub fn ties_token(intent: &str, text: &[u8]) -> String {
    let mut parts: Vec<String> = Vec::new();
    if let Some(d) = make_index(text, 1 << 20).and_then(|i| crate::gen::breakpad_sym::decode_symindex(&i)) {
        parts.extend(d.syms.iter().map(|s| format!("s:{}:{}", s.0, s.3)));
        parts.extend(d.files.iter().map(|f| format!("f:{}:{}", f.0, f.2)));
        parts.extend(d.origins.iter().map(|f| format!("o:{}:{}", f.0, f.2)));
    }
    format!("{intent}|{}", parts.join(","))
}

fn first_line(text: &[u8]) -> &[u8] {
    text.split(|b| *b == b'\n').next().unwrap_or_default()
}

/// `other` with its first line replaced by `line`
fn with_first_line(other: &[u8], line: &[u8]) -> Vec<u8> {
    let rest = other.iter().position(|b| *b == b'\n').map(|p| &other[p..]).unwrap_or_default();
    [line, rest].concat()
}

/// The `two-module` family of `bpmap` (sidecars whose module info has a second MODULE line, fix d2664d76) is
/// generated iff env `C08_TWO_MODULE` is `1` (or, without the variable, iff this constant is true). On by default
/// since C10's model `BP.mapStored` / `BP.storedMatches` on main follows d2664d76.
pub const TWO_MODULE_DEFAULT: bool = true;

pub fn two_module_enabled() -> bool {
    match std::env::var("C08_TWO_MODULE") {
        Ok(v) => v == "1",
        Err(_) => TWO_MODULE_DEFAULT,
    }
}

/// a valid `.symindex` with the tables of `idx` and `module_info` as its module-info block (layout of
/// `serialize_to_bytes`: 48-byte header, module info padded to 4 bytes, FILE / INLINE_ORIGIN entries, symbol
/// addresses, symbol entries)
pub fn index_with_module_info(idx: &[u8], module_info: &[u8]) -> Option<Vec<u8>> {
    let d = crate::gen::breakpad_sym::decode_symindex(idx)?;
    let mi_len = module_info.len();
    let pad = (4 - mi_len % 4) % 4;
    let file_off = 48 + mi_len + pad;
    let origin_off = file_off + 16 * d.files.len();
    let addr_off = origin_off + 16 * d.origins.len();
    let ent_off = addr_off + 4 * d.syms.len();
    let mut v = b"SYMINDEX".to_vec();
    for x in [1usize, 48, mi_len, d.files.len(), file_off, d.origins.len(), origin_off, d.syms.len(), addr_off, ent_off] {
        v.extend_from_slice(&(x as u32).to_le_bytes());
    }
    v.extend_from_slice(module_info);
    v.extend(std::iter::repeat(0u8).take(pad));
    for (i, l, o) in d.files.iter().chain(d.origins.iter()) {
        v.extend_from_slice(&i.to_le_bytes());
        v.extend_from_slice(&l.to_le_bytes());
        v.extend_from_slice(&o.to_le_bytes());
    }
    for s in &d.syms {
        v.extend_from_slice(&s.0.to_le_bytes());
    }
    for s in &d.syms {
        v.extend_from_slice(&s.1.to_le_bytes());
        v.extend_from_slice(&s.2.to_le_bytes());
        v.extend_from_slice(&s.3.to_le_bytes());
    }
    Some(v)
}

pub const OTHER_ID: &str = "AA152DEB2D9B76084C4C44205044422E1";

/// module-info blocks for a sidecar next to a `.sym` whose first line is `line_a` (build A = `MODULE_ID`):
/// (variant name, module info). `two-module*`: the first line is the text's, a later MODULE line states another
/// build; the controls keep the reported id equal to A's or break the first line.
pub fn two_module_infos(line_a: &str) -> Vec<(&'static str, String)> {
    let line_b = line_a.replace(MODULE_ID, OTHER_ID);
    vec![
        // second MODULE line with another id: passes the first-line test of 3f61c23c, reports build B
        ("two-module", format!("{line_a}\n{line_b}")),
        // the same with an INFO line in between / a third line / CR after the second line
        ("two-module-info-between", format!("{line_a}\nINFO CODE_ID ABCDEF0123 t.so\n{line_b}")),
        ("two-module-three", format!("{line_a}\n{line_b}\nINFO GENERATOR verif")),
        ("two-module-age", format!("{line_a}\n{}", line_a.replace(MODULE_ID, &format!("{}1", &MODULE_ID[..32])))),
        // second line does not parse as a MODULE record (no name / not hex / too short an id): the id stays A's
        ("two-module-second-unparsable", format!("{line_a}\nMODULE Linux x86_64 {OTHER_ID}")),
        ("two-module-second-unparsable", format!("{line_a}\nMODULE Linux x86_64 zz152DEB t")),
        ("two-module-second-unparsable", format!("{line_a}\nMODULE Linux x86_64 AA152DEB t")),
        // second MODULE line with the SAME id but another name / os / lower-case id: id equal, sidecar usable
        ("two-module-same-id", format!("{line_a}\nMODULE windows x86 {MODULE_ID} other.pdb")),
        ("two-module-same-id", format!("{line_a}\n{}", line_a.replace(MODULE_ID, &MODULE_ID.to_lowercase()))),
        // first line differs from the text's only in the id (second line = the text's): first-line test fails
        ("two-module-first-other", format!("{line_b}\n{line_a}")),
        ("two-module-first-other", line_b.clone()),
    ]
}

/// `bpmap` operations of the `two-module` family around one text (first line = a MODULE record of build A)
pub fn two_module_ops(text: &[u8], addrs: &[u32], rng: &mut Rng) -> Vec<String> {
    let Some(own) = make_index(text, 4096) else { return Vec::new() };
    let Ok(line_a) = std::str::from_utf8(first_line(text)) else { return Vec::new() };
    if !line_a.contains(MODULE_ID) {
        return Vec::new();
    }
    let mut a: Vec<String> = addrs.iter().take(10).map(|a| a.to_string()).collect();
    a.insert(rng.below(a.len() as u64 + 1) as usize, "iter".to_string());
    two_module_infos(line_a)
        .into_iter()
        .filter_map(|(name, mi)| {
            let i = index_with_module_info(&own, mi.as_bytes())?;
            Some(format!("bpmap {} {} {} {}", hex(text), hex(&i), ties_token(name, text), a.join(" ")))
        })
        .collect()
}

/// one `bpmap` operation: a `.sym` text served with a stored index — its own, of another file with the SAME
/// MODULE line (used by the repaired `make_index_storage`), of another file with ANOTHER MODULE line (ignored:
/// the text is indexed itself), a MODULE line that is a proper prefix of the text's / longer than the text,
/// corrupted, or with entries at the boundaries —, lookups on one map (addresses repeated: the memo tables)
pub fn bpmap_op(rng: &mut Rng, tier: Tier) -> Option<String> {
    let deep = rng.chance(1, 3);
    let mut sym = if deep { gen_deep_sym(rng, tier, false) } else { gen_sym(rng) };
    let mut addrs: Vec<u32> = sym.addrs.clone();
    let own = make_index(&sym.text, 4096);
    let another = |rng: &mut Rng| if rng.chance(1, 2) { gen_deep_sym(rng, tier, false) } else { gen_sym(rng) };
    let mut intent = "own";
    let mut idx = match rng.below(12) {
        0 | 1 => own?,
        2 | 3 => {
            // foreign index, same MODULE line: the stored index is used (its offsets applied to this text)
            intent = "foreign-same";
            let other = another(rng);
            addrs.extend(other.addrs.iter().take(8));
            make_index(&with_first_line(&other.text, first_line(&sym.text)), 4096)?
        }
        4 | 5 => {
            // foreign index, another MODULE line (other id / other name / other os): ignored, the text is indexed
            intent = "foreign-other";
            let other = another(rng);
            addrs.extend(other.addrs.iter().take(8));
            let line = match rng.below(4) {
                0 => format!("MODULE Linux x86_64 {} t", random_breakpad_id(rng)),
                1 => format!("MODULE Linux x86_64 {MODULE_ID} u"),
                2 => format!("MODULE windows x86_64 {MODULE_ID} t"),
                _ => format!("MODULE Linux x86_64 {MODULE_ID} t "),
            };
            make_index(&with_first_line(&other.text, line.as_bytes()), 4096)?
        }
        6 => {
            // the stored MODULE line is a proper prefix of the text's first line (the rule compares a prefix): used
            intent = "foreign-prefix";
            let other = another(rng);
            let stored_line = format!("MODULE Linux x86_64 {MODULE_ID} t");
            let suffix = *rng.pick(&["t", " x", "\r"]);
            sym.text = with_first_line(&sym.text, format!("{stored_line}{suffix}").as_bytes());
            make_index(&with_first_line(&other.text, stored_line.as_bytes()), 4096)?
        }
        7 => {
            // the text is shorter than the stored MODULE line / is exactly that line without a line break
            intent = "foreign-short";
            let line = format!("MODULE Linux x86_64 {MODULE_ID} t");
            let i = make_index(&with_first_line(&another(rng).text, line.as_bytes()), 4096)?;
            let cut = *rng.pick(&[line.len(), line.len() - 1, 7, 8, line.len() + 1]);
            sym.text = format!("{line}\nFUNC 1000 10 0 f\n").as_bytes()[..cut].to_vec();
            i
        }
        8 => {
            intent = "corrupt";
            let mut i = own?;
            corrupt_index(&mut i, rng);
            i
        }
        _ => {
            intent = "tweak";
            let mut i = own?;
            let t = tweak_entries(&mut i, sym.text.len() as u64, rng);
            addrs.splice(0..0, t);
            i
        }
    };
    if rng.chance(1, 40) {
        intent = "truncated";
        idx.truncate(rng.below(idx.len() as u64 + 1) as usize);
    }
    addrs.truncate(if deep { 14 } else { 20 });
    // repeat some addresses (second answer comes from the memo tables)
    for _ in 0..rng.below(4) {
        let a = *rng.pick(&addrs);
        addrs.push(a);
    }
    let mut a: Vec<String> = addrs.iter().map(|a| a.to_string()).collect();
    // `iter_symbols()` somewhere in between (it fills the same memo tables)
    if rng.chance(1, 2) {
        let at = rng.below(a.len() as u64 + 1) as usize;
        a.insert(at, "iter".to_string());
    }
    Some(format!("bpmap {} {} {} {}", hex(&sym.text), hex(&idx), ties_token(intent, &sym.text), a.join(" ")))
}

fn random_breakpad_id(rng: &mut Rng) -> String {
    format!("{:032X}{:x}", (rng.next_u64() as u128) << 64 | rng.next_u64() as u128, rng.below(16))
}

/// `/symbolicate/v5` with 2..4 jobs that differ: other memory maps (loading, missing, wrong id, malformed id,
/// the same library at another index), other lengths, disjoint addresses
pub fn multi_job_request(rng: &mut Rng, extra_addrs: &[u32]) -> J {
    let njobs = rng.range(2, 4);
    let mut jobs = Vec::new();
    for j in 0..njobs {
        let nlibs = rng.range(1, 3);
        let mut mm = Vec::new();
        let mut pools: Vec<Vec<u32>> = Vec::new();
        for _ in 0..nlibs {
            let lib = rng.pick(LIBS);
            let (name, id) = match rng.below(8) {
                0 | 1 => ("nope".to_string(), random_breakpad_id(rng)),
                2 => (lib.debug_name.to_string(), random_breakpad_id(rng)),
                3 => (lib.debug_name.to_string(), ps(rng, WEIRD_STRINGS).to_string()),
                _ => (lib.debug_name.to_string(), lib.debug_id.to_string()),
            };
            mm.push(J::Arr(vec![st(&name), st(&id)]));
            let mut pool: Vec<u32> = lib.addrs.iter().map(|a| a.wrapping_add(0x10 * j as u32)).collect();
            pool.extend(extra_addrs.iter().take(6));
            pool.extend([0x9999u32 + j as u32, 4448 + j as u32]);
            pools.push(pool);
        }
        let stacks = J::Arr(
            (0..rng.range(1, 2))
                .map(|_| {
                    J::Arr(
                        (0..rng.range(1, 5))
                            .map(|_| {
                                let m = if rng.chance(1, 40) { nlibs } else { rng.below(nlibs) };
                                let a = *rng.pick(&pools[(m % nlibs) as usize]);
                                J::Arr(vec![num(m), num(a as u64)])
                            })
                            .collect(),
                    )
                })
                .collect(),
        );
        jobs.push(obj(vec![("memoryMap", J::Arr(mm)), ("stacks", stacks)]));
    }
    obj(vec![("jobs", J::Arr(jobs))])
}

/// hand-built multi-job bodies: per-job state must not leak into the next job
fn fixed_multi_job() -> Vec<String> {
    let ex = format!("[\"example-linux\",\"{MODULE_ID}\"]");
    let fx = "[\"firefox.pdb\",\"8A913DE821D9DE764C4C44205044422E1\"]";
    let nope = "[\"nope\",\"AA152DEB2D9B76084C4C44205044422E1\"]";
    let bad = "[\"example-linux\",\"zz\"]";
    let job = |mm: &[&str], frames: &[(u32, u32)]| {
        format!("{{\"memoryMap\":[{}],\"stacks\":[[{}]]}}", mm.join(","), frames.iter().map(|(m, a)| format!("[{m},{a}]")).collect::<Vec<_>>().join(","))
    };
    let bodies = [
        vec![job(&[&ex], &[(0, 4448)]), job(&[nope], &[(0, 39321)])],
        vec![job(&[nope], &[(0, 39321)]), job(&[&ex], &[(0, 4448)])],
        vec![job(&[&ex], &[(0, 4448)]), job(&[fx], &[(0, 0x17a20)])],
        vec![job(&[&ex], &[(0, 4448)]), job(&[bad], &[(0, 4449)]), job(&[&ex, nope], &[(1, 4450), (0, 4451)])],
        vec![job(&[&ex, fx], &[(0, 4448), (1, 0x17a20)]), job(&[fx, &ex], &[(0, 0x17a21), (1, 4449)]), job(&[], &[]), job(&[nope], &[])],
        vec![job(&[&ex], &[(0, 4448)]), job(&[&ex], &[(0, 4449), (0, 4448)]), job(&[&ex, &ex], &[(1, 4450), (0, 4451)])],
        vec![job(&[&ex], &[(0, 4448)]), job(&[nope], &[(1, 0)])],
    ];
    bodies.iter().map(|jobs| api_op("/symbolicate/v5", &format!("{{\"jobs\":[{}]}}", jobs.join(",")))).collect()
}

/// error messages / unknown paths whose JSON text is compared byte for byte with `JT.errorJson`
pub fn json_text_ops(rng: &mut Rng, n: usize) -> Vec<String> {
    (0..n)
        .map(|_| {
            let mut m = match rng.below(4) {
                0 => ps(rng, WEIRD_STRINGS).to_string(),
                1 => ps(rng, ODD_PATHS).to_string(),
                2 => ps(rng, PATHS).to_string(),
                _ => String::new(),
            };
            for _ in 0..rng.below(6) {
                let idxs: Vec<usize> = m.char_indices().map(|(i, _)| i).chain(std::iter::once(m.len())).collect();
                let at = *rng.pick(&idxs);
                let c = match rng.below(6) {
                    0 => char::from_u32(rng.below(0x20) as u32).unwrap(),
                    1 => *rng.pick(&['"', '\\', '/', '\u{7f}', '\u{80}', '\u{2028}', '\u{ffff}', '\u{10ffff}']),
                    2 => *rng.pick(&['é', '€', '😀']),
                    _ => char::from_u32(0x20 + rng.below(0x5f) as u32).unwrap(),
                };
                m.insert(at, c);
            }
            if rng.chance(1, 2) { format!("errjson {}", hx(&m)) } else { format!("badurl {}", hx(&m)) }
        })
        .collect()
}

/// a case around a deep-inline `.sym`: value-for-value lookups (`bpmap`), then the same file through `lookup`
/// and `/symbolicate/v5`
pub fn deep_case(rng: &mut Rng, tier: Tier) -> Vec<String> {
    let equal_keys = rng.chance(1, 3);
    let sym = gen_deep_sym(rng, tier, equal_keys);
    let mut ops = Vec::new();
    let a: Vec<String> = sym.addrs.iter().map(|a| a.to_string()).collect();
    if !equal_keys {
        if let Some(i) = make_index(&sym.text, 4096) {
            ops.push(format!("bpmap {} {} {} {}", hex(&sym.text), hex(&i), ties_token("own", &sym.text), a.join(" ")));
        }
    }
    ops.push(format!("file {} {}", hx("t.sym"), hex(&sym.text)));
    ops.push(format!("lookup {} {}", hx("t.sym"), a.join(" ")));
    let stacks = J::Arr(vec![J::Arr(sym.addrs.iter().map(|a| J::Arr(vec![num(0), num(*a as u64)])).collect())]);
    let req = obj(vec![("memoryMap", J::Arr(vec![J::Arr(vec![st("t"), st(MODULE_ID)])])), ("stacks", stacks)]);
    ops.push(api_op("/symbolicate/v5", &req.text()));
    ops
}

// ------------------------------------------------------------------------------------------

fn chunked(name: &str, ops: Vec<String>, per: usize, out: &mut Vec<Case>) {
    for (k, c) in ops.chunks(per).enumerate() {
        out.push(Case { name: format!("{name}-{k}"), ops: c.to_vec() });
    }
}

pub fn fixed_cases(tier: Tier) -> Vec<Case> {
    let mut out = Vec::new();
    // (1) the three repaired defects, as requests and as kernel operations
    let fx = "{\"name\":\"firefox.exe\",\"debugName\":\"firefox.pdb\",\"debugId\":\"8A913DE821D9DE764C4C44205044422E1\",";
    out.push(Case { name: "known-asm-size".into(), ops: vec![
        api_op("/asm/v1", &format!("{fx}\"startAddress\":\"0x17a20\",\"size\":\"0xfffffff8\"}}")),
        api_op("/asm/v1", &format!("{fx}\"startAddress\":\"0x17a20\",\"size\":\"0xfffffff1\"}}")),
        api_op("/asm/v1", &format!("{fx}\"startAddress\":\"0x17a20\",\"size\":\"0xffffffff\",\"continueUntilFunctionEnd\":true}}")),
        api_op("/asm/v1", &format!("{fx}\"startAddress\":\"0x17a20\",\"size\":\"0x3a\"}}")),
    ]});
    out.push(Case { name: "known-codeid".into(), ops: vec![
        format!("codeid {}", hx("1234567éA")), format!("codeid {}", hx("0123456789abcdef0éé")),
        format!("pecodeid {}", hx("1234567éA")), format!("elfbuildid {}", hx("0123456789abcdef0éé")),
        api_op("/asm/v1", "{\"name\":\"firefox.exe\",\"codeId\":\"1234567éA\",\"startAddress\":\"0x17a20\",\"size\":\"0x8\"}"),
        api_op("/asm/v1", "{\"name\":\"x\",\"codeId\":\"0123456789abcdef0éé\",\"startAddress\":\"0x17a20\",\"size\":\"0x8\"}"),
    ]});
    let sym = format!("MODULE Linux x86_64 {MODULE_ID} t\nINFO CODE_ID 1234567éA t\nFUNC ffffff00 200 0 f\nffffff00 10 1 0\n");
    out.push(Case { name: "known-func-end".into(), ops: vec![
        format!("bpfunc {} {} {}", hx("ffffff00"), hx("200"), 0xffffff10u32),
        format!("file {} {}", hx("t.sym"), hx(&sym)),
        format!("lookup {} {} {} {}", hx("t.sym"), 0xffffff10u32, 0xfffffeffu32, 0xffffffffu32),
        api_op("/symbolicate/v5", &format!("{{\"memoryMap\":[[\"t\",\"{MODULE_ID}\"]],\"stacks\":[[[0,{}],[0,{}]]]}}", 0xffffff10u32, 0xffffffffu32)),
    ]});
    // (2) multi-byte characters at every byte offset of every identifier length
    let mut ops = Vec::new();
    for len in 0..=42usize {
        for ch in ["é", "€", "😀"] {
            for pos in 0..len {
                if let Some(s) = id_with_char(len, pos, ch, pos % 2 == 0) {
                    ops.push(format!("codeid {}", hx(&s)));
                    if len <= 18 {
                        ops.push(format!("pecodeid {}", hx(&s)));
                    }
                    if pos % 3 == 0 {
                        ops.push(format!("elfbuildid {}", hx(&s)));
                    }
                }
            }
        }
        let plain = id_with_char(len, len, "", true).unwrap_or_default();
        ops.push(format!("codeid {}", hx(&plain)));
        ops.push(format!("codeid {}", hx(&plain.to_lowercase())));
        ops.push(format!("pecodeid {}", hx(&plain)));
        ops.push(format!("elfbuildid {}", hx(&plain)));
        if len >= 1 {
            ops.push(format!("codeid {}", hx(&format!("+{}", &plain[1..]))));
            ops.push(format!("pecodeid {}", hx(&format!("{}+{}", &plain[..len.min(8)], &plain[len.min(8)..].get(1..).unwrap_or("")))));
        }
    }
    chunked("ids", ops, 60, &mut out);
    // (3) every token through every Breakpad record position, boundary lookups
    let mut ops = Vec::new();
    for t in TOKENS {
        for addr in [0u32, 0x1000, 0x1050, 0x10ff, 0x1100, 0xffffff10, 0xffffffff] {
            ops.push(format!("bpfunc {} {} {}", hx(t), hx("100"), addr));
            ops.push(format!("bpfunc {} {} {}", hx("1000"), hx(t), addr));
            ops.push(format!("bppublic {} {}", hx(t), addr));
        }
        for addr in [0xfffu32, 0x1000, 0x1050, 0x1051, 0x10ff, 0x1100] {
            ops.push(format!("bpline {} {} {} {} {}", hx(t), hx("10"), hx("7"), hx("0"), addr));
            ops.push(format!("bpline {} {} {} {} {}", hx("1050"), hx(t), hx("7"), hx("0"), addr));
            ops.push(format!("bpline {} {} {} {} {}", hx("1050"), hx("10"), hx(t), hx("0"), addr));
            ops.push(format!("bpline {} {} {} {} {}", hx("1050"), hx("10"), hx("7"), hx(t), addr));
            ops.push(format!("bpinline {} {} {} {}", hx(t), hx("1050"), hx("10"), addr));
            ops.push(format!("bpinline {} {} {} {}", hx("0"), hx(t), hx("10"), addr));
            ops.push(format!("bpinline {} {} {} {}", hx("0"), hx("1050"), hx(t), addr));
        }
    }
    chunked("tokens", ops, 80, &mut out);
    // (4) special paths, request hex fields
    chunked("paths", PATHS.iter().map(|p| format!("specialpath {}", hx(p))).collect(), 40, &mut out);
    let mut ops = Vec::new();
    for a in WEIRD_STRINGS.iter().chain(["0x10", "0xffffffff", "0x100000000", "0x+10", "0x+ffffffff", "0x+100000000", "0x-0", "0é", "0é10", "0€", "é0x10", "0", "0y10", "x010"].iter()) {
        ops.push(format!("asmreq {} {}", hx(a), hx("0x10")));
        ops.push(format!("asmreq {} {}", hx("0x10"), hx(a)));
    }
    chunked("asmreq", ops, 40, &mut out);
    // (5) symindex: every header field at every extreme value, every truncation of a valid index
    let mut ops = Vec::new();
    let base = [1u32, 100, 1, 116, 1, 132, 136, 0];
    for k in 0..7 {
        for v in HEADER_VALUES {
            let mut f = base;
            f[k] = *v;
            ops.push(symindex_op(&synthetic_index(f, 160, true)));
        }
    }
    ops.push(symindex_op(&synthetic_index(base, 160, false)));
    let valid = make_index(format!("MODULE Linux x86_64 {MODULE_ID} t\nFILE 0 a.c\nINLINE_ORIGIN 0 g\nFUNC 1000 10 0 f\n1000 10 1 0\nPUBLIC 2000 0 p\n").as_bytes(), 7).unwrap_or_default();
    let step = if tier == Tier::Quick { 3 } else { 1 };
    for cut in (0..=valid.len()).step_by(step) {
        ops.push(symindex_op(&valid[..cut]));
    }
    chunked("symindex", ops, 30, &mut out);
    // (6) every path with a valid body, deep nesting
    let mut ops = Vec::new();
    for p in ODD_PATHS {
        ops.push(api_op(p, "{\"memoryMap\":[],\"stacks\":[]}"));
    }
    for depth in [127usize, 128, 129, 1000, 100000] {
        ops.push(api_op("/symbolicate/v5", &"[".repeat(depth)));
        ops.push(api_op("/asm/v1", &format!("{}1{}", "[".repeat(depth), "]".repeat(depth))));
        ops.push(api_op("/source/v1", &"{\"a\":".repeat(depth)));
    }
    for s in WEIRD_STRINGS {
        ops.push(format!("debugid {}", hx(s)));
    }
    chunked("paths-depth", ops, 20, &mut out);
    // (6b) the hand-built error object: every single byte 0..=0x7f as a message and inside a path, multi-byte characters
    let mut ops = Vec::new();
    for c in 0u8..=0x7f {
        let s = (c as char).to_string();
        ops.push(format!("errjson {}", hx(&s)));
        ops.push(format!("errjson {}", hx(&format!("a{s}b{s}"))));
        ops.push(format!("badurl {}", hx(&format!("/{s}x"))));
    }
    for s in WEIRD_STRINGS.iter().chain(ODD_PATHS.iter()).chain(["/symbolicate/v5", "/source/v1", "/asm/v1", "\u{80}", "\u{7ff}", "\u{800}", "\u{2028}", "\u{ffff}", "\u{10000}", "\u{10ffff}"].iter()) {
        ops.push(format!("errjson {}", hx(s)));
        ops.push(format!("badurl {}", hx(s)));
    }
    chunked("json-text", ops, 64, &mut out);
    // (7) multi-job requests built by hand
    chunked("multi-job", fixed_multi_job(), 4, &mut out);
    // (8) `DebugId::from_breakpad` / the request's debugId: a 2/3/4-byte character at every offset of every length
    let mut ops = Vec::new();
    for len in 0..=42usize {
        for ch in ["é", "€", "😀"] {
            for pos in 0..len {
                if let Some(s) = id_with_char(len, pos, ch, true) {
                    ops.push(format!("debugid {}", hx(&s)));
                    if (30..=36).contains(&len) && ch == "é" {
                        ops.push(api_op("/asm/v1", &format!("{{\"name\":\"example-linux\",\"debugName\":\"example-linux\",\"debugId\":{},\"startAddress\":\"0x1160\",\"size\":\"0x8\"}}", serde_json::to_string(&s).unwrap())));
                    }
                }
            }
        }
    }
    // plain hex ids of every length, the appendix (age) around u32::MAX and with leading zeros
    for len in 0..=48usize {
        for upper in [true, false] {
            if let Some(s) = id_with_char(len, len, "", upper) {
                ops.push(format!("debugid {}", hx(&s)));
            }
        }
    }
    let uuid = "BE4E976C325246EE9D6B7847A670B2A9";
    for age in ["0", "1", "a", "ffffffff", "100000000", "0ffffffff", "00000000000000000001", "fffffffff", "FFFFFFFF", "7fffffff", "80000000"] {
        ops.push(format!("debugid {}", hx(&format!("{uuid}{age}"))));
        ops.push(format!("debugid {}", hx(&format!("{}{age}", uuid.to_lowercase()))));
    }
    chunked("debugids", ops, 120, &mut out);
    // (9) every inline depth 0..40 served value-for-value, a valid index with every symbol entry at every boundary
    let mut rng = Rng::new(0xC08);
    for k in 0..(if tier == Tier::Quick { 12 } else { 60 }) {
        out.push(Case { name: format!("deep-{k}"), ops: deep_case(&mut rng, tier) });
    }
    let text = format!("MODULE Linux x86_64 {MODULE_ID} t\nFILE 0 a.c\nINLINE_ORIGIN 0 g\nFUNC 1000 10 0 f\nINLINE 0 3 0 0 1004 4\n1000 10 1 0\nPUBLIC 2000 0 p\nFUNC 3000 10 0 h\n3000 10 2 0\n");
    if let Some(valid) = make_index(text.as_bytes(), 4096) {
        let n = text.len() as u64;
        let eo = rd32(&valid, 44).unwrap_or(0) as usize;
        let mut ops = Vec::new();
        for j in 0..3usize {
            for off in [0u64, n - 1, n, n + 1, 1 << 32, 1 << 63, u64::MAX, u64::MAX - 0x1f, u64::MAX - 0x20, 0xffff_ffff_ffff_fff0] {
                for len in [None, Some(0u32), Some(1), Some(0x20), Some(0xffff_ffff)] {
                    let mut i = valid.clone();
                    wr64(&mut i, eo + 16 * j + 8, off);
                    if let Some(l) = len {
                        wr32(&mut i, eo + 16 * j + 4, l);
                    }
                    ops.push(format!("bpmap {} {} 4096 4100 8192 12288 12290 4100", hex(text.as_bytes()), hex(&i)));
                }
            }
            for kind in [0u32, 1, 2, 0xffff_ffff] {
                let mut i = valid.clone();
                wr32(&mut i, eo + 16 * j, kind);
                ops.push(format!("bpmap {} {} 4096 4100 8192 12288 12290 4100", hex(text.as_bytes()), hex(&i)));
            }
        }
        // two entries sharing one offset, both orders
        let mut i = valid.clone();
        let off0 = u64::from_le_bytes(valid[eo + 8..eo + 16].try_into().unwrap());
        wr64(&mut i, eo + 32 + 8, off0);
        ops.push(format!("bpmap {} {} 4100 12290 4100", hex(text.as_bytes()), hex(&i)));
        ops.push(format!("bpmap {} {} 12290 4100 12290", hex(text.as_bytes()), hex(&i)));
        ops.push(format!("bpmap {} {} iter 12290 4100 8192", hex(text.as_bytes()), hex(&i)));
        ops.push(format!("bpmap {} {} 12290 iter 4100 8192 12290", hex(text.as_bytes()), hex(&i)));
        wr32(&mut i, eo + 32 + 4, 20);
        ops.push(format!("bpmap {} {} 12290 4100 12290", hex(text.as_bytes()), hex(&i)));
        ops.push(format!("bpmap {} {} 4100 12290 4100", hex(text.as_bytes()), hex(&i)));
        chunked("entry-bounds", ops, 12, &mut out);
    }
    // (9b) the stored index of ANOTHER file (fix 3f61c23c): same MODULE line => used, its offsets are applied to this
    // text; another id / name / os, a longer line, a text shorter than the line => ignored, the text is indexed itself;
    // a MODULE line that is a proper prefix of the text's first line => used (the rule compares a prefix)
    {
        let line = format!("MODULE Linux x86_64 {MODULE_ID} t");
        let body_a = "FILE 0 a.c\nFUNC 1000 10 0 fa\n1000 10 1 0\nPUBLIC 2000 0 pa\n";
        let body_b = "FILE 0 bb.c\nPUBLIC 800 0 pb\nFUNC 1008 20 0 fb\n1008 20 7 0\nFUNC 2000 8 0 fb2\n";
        let lookups = "2048 4096 4100 4104 4120 8192 8200 iter 4100 8192";
        let mut ops = Vec::new();
        let stored_lines = [
            ("foreign-same", line.clone()),
            ("foreign-other", format!("MODULE Linux x86_64 {} t", "AA152DEB2D9B76084C4C44205044422E1")),
            ("foreign-other", format!("MODULE Linux x86_64 {MODULE_ID} u")),
            ("foreign-other", format!("MODULE Linux x86_64 {MODULE_ID} t ")),
            ("foreign-other", format!("MODULE  Linux x86_64 {MODULE_ID} t")),
            ("foreign-other", format!("MODULE Linux x86_64 {MODULE_ID} tt")),
            ("foreign-prefix", format!("MODULE Linux x86_64 {MODULE_ID}")),
        ];
        for (intent, stored_line) in &stored_lines {
            let text = format!("{line}\n{body_a}");
            // `MODULE … <id>` without a name does not parse as a MODULE record: index the longer line, then the text
            // gets the longer first line instead (stored line = proper prefix of the text's)
            let (text, stored_text) = if *intent == "foreign-prefix" {
                (format!("{line}t\n{body_a}"), format!("{line}\n{body_b}"))
            } else {
                (text, format!("{stored_line}\n{body_b}"))
            };
            if let Some(i) = make_index(stored_text.as_bytes(), 4096) {
                ops.push(format!("bpmap {} {} {} {lookups}", hex(text.as_bytes()), hex(&i), ties_token(intent, text.as_bytes())));
            }
        }
        if let Some(i) = make_index(format!("{line}\n{body_b}").as_bytes(), 4096) {
            for cut in [0usize, 6, 7, 8, line.len() - 1, line.len(), line.len() + 1, line.len() + 5] {
                let text = format!("{line}\n{body_a}");
                let text = &text.as_bytes()[..cut];
                ops.push(format!("bpmap {} {} {} {lookups}", hex(text), hex(&i), ties_token("foreign-short", text)));
            }
            // the same index next to a text whose first line differs only by a trailing CR / CRLF file
            for first in [format!("{line}\r"), line.replace(' ', "  ")] {
                let text = format!("{first}\n{body_a}");
                ops.push(format!("bpmap {} {} {} {lookups}", hex(text.as_bytes()), hex(&i), ties_token("foreign-cr-or-spaces", text.as_bytes())));
            }
        }
        chunked("foreign-index", ops, 6, &mut out);
        // (9c) sidecars with a second MODULE line (fix d2664d76), every variant, next to the text of build A;
        // and a text whose first line is not a MODULE record at all (`MODULE junk` + a valid second line in the sidecar)
        if two_module_enabled() {
            let text = format!("{line}\n{body_a}");
            let mut rng = Rng::new(0xC08D);
            let mut ops = two_module_ops(text.as_bytes(), &[2048, 4096, 4100, 8192, 8200], &mut rng);
            let junk = format!("MODULE junk\n{body_a}");
            if let Some(own) = make_index(text.as_bytes(), 4096) {
                for mi in [format!("MODULE junk\n{line}"), format!("MODULE junk\n{}", line.replace(MODULE_ID, OTHER_ID))] {
                    if let Some(i) = index_with_module_info(&own, mi.as_bytes()) {
                        ops.push(format!("bpmap {} {} {} 4096 4100 iter 8192", hex(junk.as_bytes()), hex(&i), ties_token("two-module-first-unparsable", junk.as_bytes())));
                    }
                }
            }
            chunked("two-module", ops, 4, &mut out);
        }
    }
    // (10) scale: production-shaped files through the 1 MiB chunk loop, size-relative CPU budget
    // (functions, line records per function, FILE records, seed: even = blocks in descending address order)
    let big: &[(u64, u64, u64, u64)] = if tier == Tier::Quick {
        &[(9000, 8, 300, 1), (40000, 0, 50, 2)]
    } else {
        &[(9000, 8, 300, 1), (40000, 0, 50, 2), (40000, 8, 2000, 3), (100000, 10, 20000, 5), (100000, 2, 1000, 6)]
    };
    for (k, (f, l, n, seed)) in big.iter().enumerate() {
        out.push(Case { name: format!("scale-{k}"), ops: vec![format!("bigsym {f} {l} {n} {seed}")] });
    }
    out
}

pub fn generate(rng: &mut Rng, tier: Tier, _index: u64) -> Vec<String> {
    match rng.below(13) {
        10 | 11 => {
            if two_module_enabled() && rng.chance(1, 6) {
                // a generated text with a regular first line, the sidecar = its own index with a doctored module info
                let sym = if rng.chance(1, 3) { gen_deep_sym(rng, tier, false) } else { gen_sym(rng) };
                let mut ops = two_module_ops(&sym.text, &sym.addrs, rng);
                if !ops.is_empty() {
                    let k = rng.below(ops.len() as u64) as usize;
                    return vec![ops.swap_remove(k)];
                }
            }
            bpmap_op(rng, tier).into_iter().collect()
        }
        12 => {
            if rng.chance(1, 2) {
                deep_case(rng, tier)
            } else {
                (0..rng.range(2, 5)).map(|_| api_op("/symbolicate/v5", &multi_job_request(rng, &[]).text())).collect()
            }
        }
        0..=3 => sym_case(rng),
        4 | 5 => {
            let n = rng.range(4, 12) as usize;
            api_ops(rng, n, &[])
        }
        6 => {
            let mut ops = id_ops(rng, 8);
            ops.extend(path_ops(rng, 4));
            ops.extend(asmreq_ops(rng, 4));
            ops.push(format!("debugid {}", hx(&random_id(rng))));
            ops.extend(json_text_ops(rng, 3));
            ops
        }
        7 => bp_ops(rng, 12),
        8 => symindex_ops(rng, 6),
        _ => {
            let mut ops = bp_ops(rng, 4);
            ops.extend(id_ops(rng, 4));
            ops.extend(api_ops(rng, 4, &[]));
            ops.extend(symindex_ops(rng, 2));
            ops
        }
    }
}
