//! perf.data files that carry build ids (C19 improvement round): a `HEADER_BUILD_ID` feature section and MMAP2
//! records of the `PERF_RECORD_MISC_MMAP_BUILD_ID` variant. Self-contained on purpose (nothing in
//! `perfdata.rs` is changed): ordinary records are encoded by `perfdata::encode_record`, the attr section is the
//! same as `perfdata::attr_bytes` (sample_type IP|TID|TIME|CPU|PERIOD|CALLCHAIN, sample_id_all).
//!
//! Formats (linux-perf-event-reader-0.10.2 `Mmap2Record::parse`, linux-perf-data-0.11.0 `BuildIdEvent::parse`):
//! * MMAP2 with `misc & (1 << 14)`: pid, tid, addr, len, pgoff, then instead of maj/min/ino/ino_generation the 24
//!   bytes `build_id_size: u8, reserved: u8, reserved: u16, build_id: [u8; 20]`, then prot, flags, path;
//! * build-id event of the feature section: `perf_event_header` (misc = cpu mode, `1 << 15` = the length is
//!   stored in byte 20), pid, 24 id bytes, path up to `header.size`. Without the size bit the reader strips
//!   trailing all-zero 4-byte groups from the first 20 bytes.
use super::perfdata::{encode_record, Rec};
use std::path::Path;

const PERF_RECORD_MMAP2: u32 = 10;
const PERF_RECORD_FINISHED_ROUND: u32 = 68;
const PERF_RECORD_MISC_USER: u16 = 2;
const PERF_RECORD_MISC_MMAP_BUILD_ID: u16 = 1 << 14;
const PERF_RECORD_MISC_BUILD_ID_SIZE: u16 = 1 << 15;
const HEADER_BUILD_ID: u64 = 2;

/// one entry of the `HEADER_BUILD_ID` section
#[derive(Clone, Debug)]
pub struct BuildIdDecl {
    pub path: String,
    /// at most 20 bytes
    pub id: Vec<u8>,
    /// store the length (`PERF_RECORD_MISC_BUILD_ID_SIZE`); otherwise the reader detects it
    pub sized: bool,
}

#[derive(Clone, Debug)]
pub enum BidRec {
    Plain(Rec),
    /// executable MMAP2 record that carries the build id itself (at most 20 bytes)
    Mmap2Bid { pid: u32, tid: u32, addr: u64, len: u64, pgoff: u64, path: String, t: u64, build_id: Vec<u8> },
}

fn rec_bytes(typ: u32, misc: u16, body: &[u8]) -> Vec<u8> {
    let size = 8 + body.len();
    assert!(size < 65536 && size % 8 == 0, "record size {size}");
    let mut v = Vec::with_capacity(size);
    v.extend_from_slice(&typ.to_le_bytes());
    v.extend_from_slice(&misc.to_le_bytes());
    v.extend_from_slice(&(size as u16).to_le_bytes());
    v.extend_from_slice(body);
    v
}

fn pad8(mut b: Vec<u8>) -> Vec<u8> {
    while b.len() % 8 != 0 {
        b.push(0);
    }
    b
}

pub fn encode_bid_record(r: &BidRec) -> Vec<u8> {
    match r {
        BidRec::Plain(r) => encode_record(r),
        BidRec::Mmap2Bid { pid, tid, addr, len, pgoff, path, t, build_id } => {
            assert!(build_id.len() <= 20);
            let mut b = Vec::new();
            b.extend_from_slice(&pid.to_le_bytes());
            b.extend_from_slice(&tid.to_le_bytes());
            b.extend_from_slice(&addr.to_le_bytes());
            b.extend_from_slice(&len.to_le_bytes());
            b.extend_from_slice(&pgoff.to_le_bytes());
            b.push(build_id.len() as u8);
            b.push(0);
            b.extend_from_slice(&0u16.to_le_bytes());
            let mut id20 = build_id.clone();
            id20.resize(20, 0);
            b.extend_from_slice(&id20);
            b.extend_from_slice(&5u32.to_le_bytes()); // prot: read + exec
            b.extend_from_slice(&2u32.to_le_bytes()); // flags MAP_PRIVATE
            let mut p = path.as_bytes().to_vec();
            p.push(0);
            b.extend_from_slice(&pad8(p));
            // sample_id trailer for sample_type TID|TIME|CPU
            b.extend_from_slice(&pid.to_le_bytes());
            b.extend_from_slice(&tid.to_le_bytes());
            b.extend_from_slice(&t.to_le_bytes());
            b.extend_from_slice(&0u32.to_le_bytes());
            b.extend_from_slice(&0u32.to_le_bytes());
            rec_bytes(PERF_RECORD_MMAP2, PERF_RECORD_MISC_USER | PERF_RECORD_MISC_MMAP_BUILD_ID, &b)
        }
    }
}

fn build_id_event(d: &BuildIdDecl) -> Vec<u8> {
    assert!(d.id.len() <= 20);
    let mut b = Vec::new();
    b.extend_from_slice(&(-1i32).to_le_bytes()); // pid
    let mut id24 = d.id.clone();
    id24.resize(24, 0);
    if d.sized {
        id24[20] = d.id.len() as u8;
    }
    b.extend_from_slice(&id24);
    let mut p = d.path.as_bytes().to_vec();
    p.push(0);
    b.extend_from_slice(&pad8(p));
    let misc = PERF_RECORD_MISC_USER | if d.sized { PERF_RECORD_MISC_BUILD_ID_SIZE } else { 0 };
    // like perf's own entries (8 + 4 + 24 + padded name) the size is not a multiple of 8
    let size = 8 + b.len();
    assert!(size < 65536);
    let mut v = Vec::with_capacity(size);
    v.extend_from_slice(&0u32.to_le_bytes());
    v.extend_from_slice(&misc.to_le_bytes());
    v.extend_from_slice(&(size as u16).to_le_bytes());
    v.extend_from_slice(&b);
    v
}

fn attr_bytes() -> Vec<u8> {
    let sample_type: u64 = 1 | 2 | 4 | 32 | 128 | 256;
    let flags: u64 = (1 << 18) | (1 << 8) | (1 << 9) | (1 << 13) | (1 << 23) | (1 << 24);
    let mut v = Vec::new();
    v.extend_from_slice(&1u32.to_le_bytes()); // type = software
    v.extend_from_slice(&128u32.to_le_bytes()); // size
    v.extend_from_slice(&0u64.to_le_bytes()); // config = cpu-clock
    v.extend_from_slice(&1_000_000u64.to_le_bytes()); // sample_period
    v.extend_from_slice(&sample_type.to_le_bytes());
    v.extend_from_slice(&0u64.to_le_bytes()); // read_format
    v.extend_from_slice(&flags.to_le_bytes());
    v.resize(128, 0);
    v
}

/// the records in the given order (one round), then the feature section with the header build ids (if any)
pub fn write_perf_data_bid(recs: &[BidRec], header_ids: &[BuildIdDecl], path: &Path) {
    let mut data = Vec::new();
    for r in recs {
        data.extend_from_slice(&encode_bid_record(r));
    }
    data.extend_from_slice(&rec_bytes(PERF_RECORD_FINISHED_ROUND, 0, &[]));
    let header_size: u64 = 104;
    let mut attr_section = attr_bytes();
    attr_section.extend_from_slice(&0u64.to_le_bytes()); // ids offset
    attr_section.extend_from_slice(&0u64.to_le_bytes()); // ids size
    let attr_off = header_size;
    let data_off = attr_off + attr_section.len() as u64;
    let mut feat_bits = [0u64; 4];
    let mut feat_data = Vec::new();
    if !header_ids.is_empty() {
        feat_bits[0] |= 1 << HEADER_BUILD_ID;
        for d in header_ids {
            feat_data.extend_from_slice(&build_id_event(d));
        }
    }
    let nfeat: u64 = if header_ids.is_empty() { 0 } else { 1 };
    let feat_table_off = data_off + data.len() as u64;
    let feat_payload_off = feat_table_off + 16 * nfeat;
    let mut out = Vec::new();
    out.extend_from_slice(b"PERFILE2");
    out.extend_from_slice(&header_size.to_le_bytes());
    out.extend_from_slice(&(attr_section.len() as u64).to_le_bytes()); // attr_size
    out.extend_from_slice(&attr_off.to_le_bytes());
    out.extend_from_slice(&(attr_section.len() as u64).to_le_bytes());
    out.extend_from_slice(&data_off.to_le_bytes());
    out.extend_from_slice(&(data.len() as u64).to_le_bytes());
    out.extend_from_slice(&0u64.to_le_bytes()); // event_types
    out.extend_from_slice(&0u64.to_le_bytes());
    for b in feat_bits {
        out.extend_from_slice(&b.to_le_bytes());
    }
    assert_eq!(out.len(), 104);
    out.extend_from_slice(&attr_section);
    out.extend_from_slice(&data);
    if nfeat == 1 {
        out.extend_from_slice(&feat_payload_off.to_le_bytes());
        out.extend_from_slice(&(feat_data.len() as u64).to_le_bytes());
        out.extend_from_slice(&feat_data);
    }
    std::fs::write(path, out).expect("write perf.data");
}
