//! Writers for small files that carry a chosen build identity (C06): ELF64 (either endianness) with a
//! GNU build-id note, an optional `.gnu_debuglink` / `.gnu_debugaltlink` section, a symbol table and a
//! minimal DWARF unit whose names live in a supplementary file; thin Mach-O 64 images with `LC_UUID`;
//! fat (universal) archives; Breakpad `.sym` files; header-only jitdump files. Plus the GNU debuglink
//! CRC-32 (written independently of `crc32fast`, which the code under test uses).
//!
//! Every writer is deterministic in its arguments. Addresses: the generated ELF and Mach-O images
//! are linked at base 0 with `.text` / `__text` at `TEXT_ADDR`, so relative address = SVMA.

pub const TEXT_ADDR: u64 = 0x1000;
pub const TEXT_SIZE: u64 = 0x100;
/// address inside the single function symbol every generated image / .sym file defines
pub const PROBE_ADDR: u32 = 0x1010;

struct W {
    be: bool,
    v: Vec<u8>,
}
impl W {
    fn new(be: bool) -> Self {
        W { be, v: Vec::new() }
    }
    fn u8(&mut self, x: u8) {
        self.v.push(x);
    }
    fn u16(&mut self, x: u16) {
        if self.be {
            self.v.extend_from_slice(&x.to_be_bytes())
        } else {
            self.v.extend_from_slice(&x.to_le_bytes())
        }
    }
    fn u32(&mut self, x: u32) {
        if self.be {
            self.v.extend_from_slice(&x.to_be_bytes())
        } else {
            self.v.extend_from_slice(&x.to_le_bytes())
        }
    }
    fn u64(&mut self, x: u64) {
        if self.be {
            self.v.extend_from_slice(&x.to_be_bytes())
        } else {
            self.v.extend_from_slice(&x.to_le_bytes())
        }
    }
    fn bytes(&mut self, b: &[u8]) {
        self.v.extend_from_slice(b);
    }
    fn pad_to(&mut self, align: usize) {
        while self.v.len() % align != 0 {
            self.v.push(0);
        }
    }
}

#[derive(Clone, Debug, Default)]
pub struct ElfSpec {
    pub big_endian: bool,
    /// contents of the `NT_GNU_BUILD_ID` note (any length), or no note at all
    pub build_id: Option<Vec<u8>>,
    /// `.text` is present (needed for the text-hash fallback id when there is no note)
    pub with_text: bool,
    /// fill byte of `.text` (changes the text-hash fallback id)
    pub text_fill: u8,
    /// one FUNC symbol of this name covering `TEXT_ADDR .. TEXT_ADDR+TEXT_SIZE`; none = no symtab
    pub symbol: Option<String>,
    /// `.gnu_debuglink`: file name and CRC
    pub debuglink: Option<(Vec<u8>, u32)>,
    /// `.gnu_debugaltlink`: path and build id of the supplementary file
    pub debugaltlink: Option<(Vec<u8>, Vec<u8>)>,
    /// emit `.debug_info`/`.debug_abbrev` with one CU + one subprogram covering `.text` whose
    /// `DW_AT_name` is `DW_FORM_GNU_strp_alt` offset `alt_name_offset` into the supplementary `.debug_str`
    pub dwarf_alt_name_offset: Option<u32>,
    /// `.debug_str` contents (for supplementary files)
    pub debug_str: Option<Vec<u8>>,
}

struct Sec {
    name: &'static str,
    typ: u32,
    flags: u64,
    addr: u64,
    data: Vec<u8>,
    link: u32,
    info: u32,
    align: u64,
    entsize: u64,
    offset: u64,
}

fn note_build_id(be: bool, id: &[u8]) -> Vec<u8> {
    let mut w = W::new(be);
    w.u32(4);
    w.u32(id.len() as u32);
    w.u32(3); // NT_GNU_BUILD_ID
    w.bytes(b"GNU\0");
    w.bytes(id);
    w.pad_to(4);
    w.v
}

fn dwarf_unit(be: bool, alt_name_offset: u32) -> (Vec<u8>, Vec<u8>) {
    // .debug_abbrev
    let mut ab = Vec::new();
    // abbrev 1: DW_TAG_compile_unit (0x11), has children
    ab.extend_from_slice(&[1, 0x11, 1]);
    ab.extend_from_slice(&[0x03, 0xa1, 0x3e]); // DW_AT_name, DW_FORM_GNU_strp_alt (0x1f21 uleb)
    ab.extend_from_slice(&[0x11, 0x01]); // DW_AT_low_pc, DW_FORM_addr
    ab.extend_from_slice(&[0x12, 0x07]); // DW_AT_high_pc, DW_FORM_data8
    ab.extend_from_slice(&[0, 0]);
    // abbrev 2: DW_TAG_subprogram (0x2e), no children
    ab.extend_from_slice(&[2, 0x2e, 0]);
    ab.extend_from_slice(&[0x03, 0xa1, 0x3e]);
    ab.extend_from_slice(&[0x11, 0x01]);
    ab.extend_from_slice(&[0x12, 0x07]);
    ab.extend_from_slice(&[0, 0]);
    ab.push(0);
    // .debug_info, DWARF 4, 32-bit
    let mut body = W::new(be);
    body.u16(4);
    body.u32(0); // abbrev offset
    body.u8(8); // address size
    body.u8(1);
    body.u32(alt_name_offset);
    body.u64(TEXT_ADDR);
    body.u64(TEXT_SIZE);
    body.u8(2);
    body.u32(alt_name_offset);
    body.u64(TEXT_ADDR);
    body.u64(TEXT_SIZE);
    body.u8(0); // end of children
    let mut info = W::new(be);
    info.u32(body.v.len() as u32);
    info.bytes(&body.v);
    (info.v, ab)
}

/// ELF64, ET_DYN, EM_X86_64 (little endian) or EM_PPC64 (big endian).
pub fn write_elf64(spec: &ElfSpec) -> Vec<u8> {
    let be = spec.big_endian;
    let mut secs: Vec<Sec> = Vec::new();
    let mk = |name, typ, flags, addr, data, align| Sec { name, typ, flags, addr, data, link: 0, info: 0, align, entsize: 0, offset: 0 };
    let text_index = if spec.with_text {
        secs.push(mk(".text", 1, 6, TEXT_ADDR, vec![spec.text_fill; TEXT_SIZE as usize], 16));
        1u16
    } else {
        0
    };
    if let Some(id) = &spec.build_id {
        secs.push(mk(".note.gnu.build-id", 7, 2, 0, note_build_id(be, id), 4));
    }
    if let Some((name, crc)) = &spec.debuglink {
        let mut w = W::new(be);
        w.bytes(name);
        w.u8(0);
        w.pad_to(4);
        w.u32(*crc);
        secs.push(mk(".gnu_debuglink", 1, 0, 0, w.v, 4));
    }
    if let Some((path, id)) = &spec.debugaltlink {
        let mut d = path.clone();
        d.push(0);
        d.extend_from_slice(id);
        secs.push(mk(".gnu_debugaltlink", 1, 0, 0, d, 1));
    }
    if let Some(off) = spec.dwarf_alt_name_offset {
        let (info, abbrev) = dwarf_unit(be, off);
        secs.push(mk(".debug_info", 1, 0, 0, info, 1));
        secs.push(mk(".debug_abbrev", 1, 0, 0, abbrev, 1));
    }
    if let Some(s) = &spec.debug_str {
        secs.push(mk(".debug_str", 1, 0x30, 0, s.clone(), 1));
    }
    if let Some(sym) = &spec.symbol {
        let mut strtab = vec![0u8];
        let name_off = strtab.len() as u32;
        strtab.extend_from_slice(sym.as_bytes());
        strtab.push(0);
        let mut st = W::new(be);
        // null symbol
        st.u32(0);
        st.u8(0);
        st.u8(0);
        st.u16(0);
        st.u64(0);
        st.u64(0);
        st.u32(name_off);
        st.u8((1 << 4) | 2); // GLOBAL FUNC
        st.u8(0);
        st.u16(text_index);
        st.u64(TEXT_ADDR);
        st.u64(TEXT_SIZE);
        let symtab_idx = secs.len() as u32 + 1;
        let mut s = mk(".symtab", 2, 0, 0, st.v, 8);
        s.link = symtab_idx + 1;
        s.info = 1;
        s.entsize = 24;
        secs.push(s);
        secs.push(mk(".strtab", 3, 0, 0, strtab, 1));
    }
    // section name table
    let mut shstr = vec![0u8];
    let mut name_offs = Vec::new();
    for s in &secs {
        name_offs.push(shstr.len() as u32);
        shstr.extend_from_slice(s.name.as_bytes());
        shstr.push(0);
    }
    name_offs.push(shstr.len() as u32);
    shstr.extend_from_slice(b".shstrtab\0");
    secs.push(mk(".shstrtab", 3, 0, 0, shstr, 1));

    // layout: ehdr(64) phdr(56) ... .text at TEXT_ADDR (file offset == address), rest after it
    let mut cur: u64 = if spec.with_text { TEXT_ADDR } else { 0x100 };
    for s in secs.iter_mut() {
        let a = s.align.max(1);
        cur = (cur + a - 1) / a * a;
        s.offset = cur;
        if s.flags & 2 != 0 && s.addr == 0 {
            s.addr = cur; // allocated sections: address == file offset (base 0)
        }
        cur += s.data.len() as u64;
    }
    let load_end = cur;
    let shoff = (cur + 7) & !7;
    let shnum = secs.len() as u16 + 1;

    let mut w = W::new(be);
    w.bytes(b"\x7fELF");
    w.u8(2);
    w.u8(if be { 2 } else { 1 });
    w.u8(1);
    w.u8(0);
    w.bytes(&[0u8; 8]);
    w.u16(3); // ET_DYN
    w.u16(if be { 21 } else { 62 }); // EM_PPC64 / EM_X86_64
    w.u32(1);
    w.u64(if spec.with_text { TEXT_ADDR } else { 0 }); // entry
    w.u64(64); // phoff
    w.u64(shoff);
    w.u32(0);
    w.u16(64);
    w.u16(56);
    w.u16(1);
    w.u16(64);
    w.u16(shnum);
    w.u16(shnum - 1);
    // PT_LOAD r-x covering the whole file image at vaddr 0
    w.u32(1);
    w.u32(5);
    w.u64(0);
    w.u64(0);
    w.u64(0);
    w.u64(load_end);
    w.u64(load_end);
    w.u64(0x1000);
    for s in &secs {
        while (w.v.len() as u64) < s.offset {
            w.v.push(0);
        }
        w.bytes(&s.data);
    }
    while (w.v.len() as u64) < shoff {
        w.v.push(0);
    }
    w.bytes(&[0u8; 64]);
    for (s, no) in secs.iter().zip(name_offs.iter()) {
        w.u32(*no);
        w.u32(s.typ);
        w.u64(s.flags);
        w.u64(s.addr);
        w.u64(s.offset);
        w.u64(s.data.len() as u64);
        w.u32(s.link);
        w.u32(s.info);
        w.u64(s.align);
        w.u64(s.entsize);
    }
    w.v
}

/// (cputype, cpusubtype) for the architecture names samply knows
pub fn macho_cpu(arch: &str) -> (u32, u32) {
    match arch {
        "x86_64" => (0x0100_0007, 3),
        "x86_64h" => (0x0100_0007, 8),
        "arm64" => (0x0100_000c, 0),
        "arm64e" => (0x0100_000c, 2),
        "i386" => (7, 3),
        // an architecture samply has no name for
        _ => (0x0100_0012, 0),
    }
}

/// Thin little-endian Mach-O 64 dylib: `__TEXT,__text` at `TEXT_ADDR`, one external symbol, optional `LC_UUID`.
pub fn write_macho64(arch: &str, uuid: Option<[u8; 16]>, symbol: &str) -> Vec<u8> {
    let (cputype, cpusubtype) = macho_cpu(arch);
    let ncmds = 2 + uuid.is_some() as u32;
    let seg_size = 72 + 80;
    let sizeofcmds = seg_size + 24 + if uuid.is_some() { 24 } else { 0 };
    let text_off = TEXT_ADDR;
    let symoff = text_off + TEXT_SIZE;
    let mut strtab = vec![0u8];
    let strx = strtab.len() as u32;
    strtab.extend_from_slice(b"_");
    strtab.extend_from_slice(symbol.as_bytes());
    strtab.push(0);
    let stroff = symoff + 16;
    let total = stroff + strtab.len() as u64;

    let mut w = W::new(false);
    w.u32(0xfeed_facf);
    w.u32(cputype);
    w.u32(cpusubtype);
    w.u32(6); // MH_DYLIB
    w.u32(ncmds);
    w.u32(sizeofcmds);
    w.u32(0);
    w.u32(0);
    // LC_SEGMENT_64 __TEXT
    w.u32(0x19);
    w.u32(seg_size);
    let name16 = |w: &mut W, s: &str| {
        let mut b = [0u8; 16];
        b[..s.len()].copy_from_slice(s.as_bytes());
        w.bytes(&b);
    };
    name16(&mut w, "__TEXT");
    w.u64(0); // vmaddr
    w.u64((total + 0xfff) & !0xfff); // vmsize
    w.u64(0); // fileoff
    w.u64(total); // filesize
    w.u32(5);
    w.u32(5);
    w.u32(1); // nsects
    w.u32(0);
    name16(&mut w, "__text");
    name16(&mut w, "__TEXT");
    w.u64(TEXT_ADDR);
    w.u64(TEXT_SIZE);
    w.u32(text_off as u32);
    w.u32(4);
    w.u32(0);
    w.u32(0);
    w.u32(0x8000_0400);
    w.u32(0);
    w.u32(0);
    w.u32(0);
    // LC_SYMTAB
    w.u32(2);
    w.u32(24);
    w.u32(symoff as u32);
    w.u32(1);
    w.u32(stroff as u32);
    w.u32(strtab.len() as u32);
    if let Some(u) = uuid {
        w.u32(0x1b);
        w.u32(24);
        w.bytes(&u);
    }
    while (w.v.len() as u64) < text_off {
        w.v.push(0);
    }
    w.bytes(&vec![0x90u8; TEXT_SIZE as usize]);
    // nlist_64
    w.u32(strx);
    w.u8(0x0f); // N_SECT | N_EXT
    w.u8(1);
    w.u16(0);
    w.u64(TEXT_ADDR);
    w.bytes(&strtab);
    w.v
}

/// 32-bit fat header around the given members `(cputype, cpusubtype, bytes)`.
pub fn write_fat32(members: &[(u32, u32, Vec<u8>)]) -> Vec<u8> {
    let mut w = W::new(true);
    w.u32(0xcafe_babe);
    w.u32(members.len() as u32);
    let mut off = (8 + 20 * members.len() as u64 + 0xf) & !0xf;
    let mut offs = Vec::new();
    for (ct, cst, data) in members {
        w.u32(*ct);
        w.u32(*cst);
        w.u32(off as u32);
        w.u32(data.len() as u32);
        w.u32(4);
        offs.push(off);
        off = (off + data.len() as u64 + 0xf) & !0xf;
    }
    for ((_, _, data), o) in members.iter().zip(offs) {
        while (w.v.len() as u64) < o {
            w.v.push(0);
        }
        w.bytes(data);
    }
    w.v
}

/// Breakpad symbol file with one FUNC record covering the probe address.
pub fn write_breakpad_sym(breakpad_id: &str, symbol: &str) -> Vec<u8> {
    format!(
        "MODULE Linux x86_64 {breakpad_id} gen\nFILE 0 gen.c\nFUNC {:x} {:x} 0 {symbol}\n{:x} {:x} 7 0\n",
        TEXT_ADDR, TEXT_SIZE, TEXT_ADDR, TEXT_SIZE
    )
    .into_bytes()
}

/// jitdump file consisting of the 40-byte header only (no records).
pub fn write_jitdump_header(pid: u32, timestamp: u64, elf_mach: u32) -> Vec<u8> {
    let mut w = W::new(false);
    w.u32(0x4A69_5444);
    w.u32(1);
    w.u32(40);
    w.u32(elf_mach);
    w.u32(0);
    w.u32(pid);
    w.u64(timestamp);
    w.u64(0);
    w.v
}

/// CRC-32 (IEEE 802.3, reflected, init/xorout 0xffffffff) as used by `.gnu_debuglink`.
pub fn gnu_debuglink_crc32(data: &[u8]) -> u32 {
    let mut table = [0u32; 256];
    for i in 0..256u32 {
        let mut c = i;
        for _ in 0..8 {
            c = if c & 1 != 0 { 0xedb8_8320 ^ (c >> 1) } else { c >> 1 };
        }
        table[i as usize] = c;
    }
    let mut crc = 0xffff_ffffu32;
    for &b in data {
        crc = table[((crc ^ b as u32) & 0xff) as usize] ^ (crc >> 8);
    }
    !crc
}
