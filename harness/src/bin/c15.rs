//! C15 — drives the real `samply_quota_manager::QuotaManager` in a scratch directory (real files, real
//! SQLite database) and prints, after every operation, the inventory (read back from the database
//! file with a second, read-only `rusqlite` connection) and the directory listing.
//!
//! ops / out: see `lean/SamplyModel/Iface/C15.lean`.
//!
//! Paths `/a/b` are relative to the case's base directory `B` (`$VERIF_ROOT/.work/C15/tmp/<id>/b`,
//! canonical); the database lives next to `B`. Time tokens `n-<a>` are evaluated against the wall
//! clock second `S0` read at the start of the case; the case is re-run if the second changes before
//! the case ends, so that the age cut-off computed by the real code from `SystemTime::now()` is
//! exactly `S0 - max_age` (no race at the `<` boundary).
//!
//! A deterministic eviction pass uses the hook `QuotaManager::verif_evict_now` (`--cfg samply_verif`);
//! `evictasync` goes through the real asynchronous path: `trigger_eviction_if_needed`, a wait until
//! the observed state is stable, `finish()`; `evictrace` is `trigger_eviction_if_needed` immediately
//! followed by `finish()` (what samply does at shutdown): tokio's `select!` then either runs the whole
//! pass or none of it; the case is repeated until the pass ran (see `execute`).
//! `bulk` is a macro for many `created` notifications with one observation at the end (large tables).
use std::collections::{BTreeMap, BTreeSet};
use std::panic::{catch_unwind, AssertUnwindSafe};
use std::path::{Path, PathBuf};
use std::sync::atomic::{AtomicU64, Ordering};
use std::time::{Duration, SystemTime, UNIX_EPOCH};

use samply_quota_manager::{QuotaManager, QuotaManagerNotifier};
use verif_harness::common::*;

pub struct C15;

static COUNTER: AtomicU64 = AtomicU64::new(0);

fn work_root() -> PathBuf {
    let root = std::env::var("VERIF_ROOT").unwrap_or_else(|_| ".".to_string());
    PathBuf::from(root).join(".work").join("C15").join("tmp")
}

/// time token of "`a` seconds ago" (negative: in the future)
fn tok(a: i64) -> String {
    if a >= 0 {
        format!("n-{a}")
    } else {
        format!("n+{}", -a)
    }
}

fn now_secs() -> u64 {
    SystemTime::now().duration_since(UNIX_EPOCH).unwrap().as_secs()
}

fn comps(p: &str) -> Vec<&str> {
    p.split('/').filter(|c| !c.is_empty()).collect()
}

/// `B` + the spelled components (keeps `..`)
fn real_path(base: &Path, p: &str) -> PathBuf {
    let mut s = base.to_string_lossy().to_string();
    for c in comps(p) {
        s.push('/');
        // `~` in an op line stands for a space in the real file name (op lines are split at spaces)
        s.push_str(&c.replace('~', " "));
    }
    PathBuf::from(s)
}

fn parse_time(tok: &str, s0: u64) -> Option<SystemTime> {
    let v: u64 = tok.get(2..)?.parse().ok()?;
    match &tok[..2] {
        "n-" => Some(UNIX_EPOCH + Duration::from_secs(s0.checked_sub(v)?)),
        "n+" => Some(UNIX_EPOCH + Duration::from_secs(s0 + v)),
        "e+" => Some(UNIX_EPOCH + Duration::from_secs(v)),
        "e-" => Some(UNIX_EPOCH - Duration::from_secs(v)),
        _ => None,
    }
}

fn show_time(t: i64, s0: u64) -> String {
    let s0 = s0 as i64;
    if t + 1_500_000_000 < s0 {
        format!("e+{t}")
    } else if t <= s0 {
        format!("n-{}", s0 - t)
    } else if t <= s0 + 1_500_000_000 {
        format!("n+{}", t - s0)
    } else {
        format!("e+{t}")
    }
}

fn parse_max_age(tok: &str, s0: u64) -> Option<Option<u64>> {
    if tok == "none" {
        Some(None)
    } else if tok == "max" {
        Some(Some(u64::MAX))
    } else if let Some(d) = tok.strip_prefix("now+") {
        Some(Some(s0 + d.parse::<u64>().ok()?))
    } else if let Some(d) = tok.strip_prefix("now-") {
        Some(Some(s0.saturating_sub(d.parse::<u64>().ok()?)))
    } else {
        Some(Some(tok.parse().ok()?))
    }
}

type DbRow = (String, i64, i64, i64);

fn read_db(db: &Path) -> Option<Vec<DbRow>> {
    if !db.exists() {
        return None;
    }
    let c = rusqlite::Connection::open_with_flags(db, rusqlite::OpenFlags::SQLITE_OPEN_READ_ONLY).ok()?;
    let mut st = c
        .prepare("SELECT Path, Size, CreationTime, LastAccessTime FROM files ORDER BY LastAccessTime, rowid")
        .ok()?;
    let rows = st
        .query_map([], |r| Ok((r.get(0)?, r.get(1)?, r.get(2)?, r.get(3)?)))
        .ok()?
        .filter_map(Result::ok)
        .collect();
    Some(rows)
}

fn show_inv(rows: &Option<Vec<DbRow>>, s0: u64) -> String {
    match rows {
        None => "nodb".to_string(),
        Some(r) if r.is_empty() => "-".to_string(),
        Some(r) => r
            .iter()
            .map(|(p, sz, ct, at)| {
                let rel = if p.is_empty() { ".".to_string() } else { p.replace(' ', "~") };
                format!("{rel}:{sz}:{}:{}", show_time(*ct, s0), show_time(*at, s0))
            })
            .collect::<Vec<_>>()
            .join(" "),
    }
}

fn list_fs(base: &Path) -> Vec<String> {
    fn walk(d: &Path, base: &Path, v: &mut Vec<String>) {
        let Ok(rd) = std::fs::read_dir(d) else { return };
        for e in rd.filter_map(Result::ok) {
            let p = e.path();
            let Ok(md) = std::fs::symlink_metadata(&p) else { continue };
            let rel = p.strip_prefix(base).unwrap().to_string_lossy().replace(' ', "~");
            if md.file_type().is_symlink() {
                v.push(format!("/{rel}@"));
            } else if md.is_dir() {
                v.push(format!("/{rel}/"));
                walk(&p, base, v);
            } else {
                v.push(format!("/{rel}"));
            }
        }
    }
    let mut v = vec![];
    walk(base, base, &mut v);
    v.sort();
    v
}

fn show_fs(v: &[String]) -> String {
    if v.is_empty() {
        "-".to_string()
    } else {
        v.join(" ")
    }
}

fn set_times(p: &Path, secs: u64) {
    use std::os::unix::ffi::OsStrExt;
    let c = std::ffi::CString::new(p.as_os_str().as_bytes()).unwrap();
    let ts = libc::timespec { tv_sec: secs as libc::time_t, tv_nsec: 0 };
    let times = [ts, ts];
    unsafe {
        libc::utimensat(libc::AT_FDCWD, c.as_ptr(), times.as_ptr(), 0);
    }
}

/// A task that occupies the runtime's only blocking thread until it is released. `tokio::fs::remove_file`
/// runs on that thread, so the eviction pass is parked — after its selection, with the inventory mutex
/// released — exactly before its next `unlink` (quota_manager.rs:258) for as long as the gate is closed.
/// The blocking queue is FIFO: a gate queued while the pass waits for `remove_file(a)` runs right after
/// that unlink, which lets the harness step the pass one file at a time without touching the code under
/// test.
struct Gate {
    release: std::sync::mpsc::Sender<()>,
    started: std::sync::mpsc::Receiver<()>,
}

impl Gate {
    fn queue(rt: &tokio::runtime::Runtime) -> Gate {
        let (release, wait) = std::sync::mpsc::channel::<()>();
        let (tell, started) = std::sync::mpsc::channel::<()>();
        rt.spawn_blocking(move || {
            let _ = tell.send(());
            let _ = wait.recv();
        });
        Gate { release, started }
    }
    fn wait_started(&self) {
        let _ = self.started.recv();
    }
    fn open(self) {
        let _ = self.release.send(());
    }
}

/// A task spawned from outside the runtime goes to the back of the single worker's injection queue, behind
/// every wake-up that was issued before: when it has run, the eviction task has processed its last wake-up
/// and is parked again (at the gate, or waiting for the next trigger).
fn marker(rt: &tokio::runtime::Runtime) {
    let h = rt.spawn(async {});
    let _ = rt.block_on(h);
}

struct Live {
    qm: QuotaManager,
    n: QuotaManagerNotifier,
    root_spelling: String,
}

struct Run<'a> {
    base: PathBuf,
    db: PathBuf,
    s0: u64,
    rt: std::sync::Arc<tokio::runtime::Runtime>,
    live: Option<Live>,
    stats: &'a mut Stats,
    max_size: Option<u64>,
    /// an `evictrace` op left the state unchanged (the stop signal won the `select!`, or nothing to do)
    race_noop: bool,
    /// `passbegin` … `passend`: the pass is being stepped
    gate: Option<Gate>,
    pass_before: Option<Vec<DbRow>>,
}

impl<'a> Run<'a> {
    fn open(&mut self, root: &str) -> bool {
        let _g = self.rt.enter();
        match QuotaManager::new(&real_path(&self.base, root), &self.db) {
            Ok(qm) => {
                let n = qm.notifier();
                self.live = Some(Live { qm, n, root_spelling: root.to_string() });
                self.max_size = None;
                true
            }
            Err(_) => false,
        }
    }

    fn close(&mut self) -> &'static str {
        match self.live.take() {
            None => "nomgr",
            Some(l) => {
                let rt = std::sync::Arc::clone(&self.rt);
                let r = catch_unwind(AssertUnwindSafe(|| rt.block_on(l.qm.finish())));
                if r.is_ok() {
                    "ok"
                } else {
                    "panic"
                }
            }
        }
    }

    fn snapshot(&self) -> (Option<Vec<DbRow>>, Vec<String>) {
        (read_db(&self.db), list_fs(&self.base))
    }

    fn note_evict(&mut self, before: &Option<Vec<DbRow>>, after: &Option<Vec<DbRow>>, status: &str, kind: &str) {
        self.stats.bump(&format!("{kind}_{status}"));
        let (Some(b), Some(a)) = (before, after) else { return };
        let total: i128 = b.iter().map(|r| r.1 as i128).sum();
        if let Some(m) = self.max_size {
            let m = m as i128;
            self.stats.bump(if total < m {
                "evict_total_below_max"
            } else if total == m {
                "evict_total_equals_max"
            } else if total == m + 1 {
                "evict_total_one_above_max"
            } else {
                "evict_total_above_max"
            });
        } else {
            self.stats.bump("evict_no_max_size");
        }
        let kept: BTreeSet<&String> = a.iter().map(|r| &r.0).collect();
        let removed: Vec<&DbRow> = b.iter().filter(|r| !kept.contains(&r.0)).collect();
        self.stats.bump(&format!("evict_removed_{}", removed.len().min(5)));
        self.stats.bump(&format!("evict_rows_{}", b.len().min(12)));
        for lim in [64usize, 100, 128, 256, 1000, 4096] {
            if b.len() > lim {
                self.stats.bump(&format!("evict_rows_over_{lim}"));
            }
            if removed.len() > lim {
                self.stats.bump(&format!("evict_removed_over_{lim}"));
            }
        }
        if b.iter().any(|r| r.3 >= self.s0 as i64) {
            self.stats.bump("evict_with_row_accessed_now_or_in_the_future");
        }
        if removed.iter().any(|r| a.iter().any(|k| k.3 == r.3)) {
            self.stats.bump("evict_tie_split_between_removed_and_kept");
        }
        if removed.iter().any(|r| r.1 == 0) {
            self.stats.bump("evict_removed_zero_size_file");
        }
        if removed.iter().any(|r| r.0.contains("..")) {
            self.stats.bump("evict_removed_dotdot_row");
        }
    }

    fn exec(&mut self, line: &str) -> String {
        let w: Vec<&str> = line.split_whitespace().collect();
        if w.is_empty() {
            return "bad-op".to_string();
        }
        let s0 = self.s0;
        let rt = std::sync::Arc::clone(&self.rt);
        if self.gate.is_some()
            && matches!(w[0], "open" | "close" | "restart" | "evict" | "evictasync" | "evictrace" | "bulk" | "passbegin")
        {
            let (inv, fs) = self.snapshot();
            return format!("bad | {} | {}", show_inv(&inv, s0), show_fs(&fs));
        }
        let status: String = match w[0] {
            "passbegin" => match &self.live {
                None => "nomgr".into(),
                Some(l) => {
                    let g = Gate::queue(&rt);
                    g.wait_started();
                    l.n.trigger_eviction_if_needed();
                    marker(&rt);
                    self.gate = Some(g);
                    self.pass_before = read_db(&self.db);
                    "ok".into()
                }
            },
            "passstep" => match self.gate.take() {
                None => "bad".into(),
                Some(old) => {
                    let g = Gate::queue(&rt);
                    old.open();
                    g.wait_started();
                    marker(&rt);
                    self.gate = Some(g);
                    self.stats.bump("pass_steps");
                    "ok".into()
                }
            },
            "passend" => match self.gate.take() {
                None => "bad".into(),
                Some(old) => {
                    old.open();
                    let st = self.close();
                    let after = read_db(&self.db);
                    let before = self.pass_before.take();
                    self.note_evict(&before, &after, st, "stepped_pass");
                    st.into()
                }
            },
            // observation only (not generated, not modelled): the database inside the managed root
            "opendb" if w.len() == 3 => {
                if self.live.is_some() {
                    "bad".into()
                } else {
                    self.db = real_path(&self.base, w[2]);
                    if self.open(w[1]) { "ok".into() } else { "openerr".into() }
                }
            }
            "open" if w.len() >= 2 => {
                if self.live.is_some() {
                    "bad".into()
                } else {
                    for pre in &w[2..] {
                        let f: Vec<&str> = pre.split(':').collect();
                        if f.len() != 3 {
                            return "bad-op".into();
                        }
                        let p = real_path(&self.base, f[0]);
                        let is_file = std::fs::symlink_metadata(&p).map(|m| m.is_file()).unwrap_or(false);
                        if is_file {
                            let size: usize = f[1].parse().unwrap_or(0);
                            let _ = std::fs::write(&p, vec![b'x'; size.min(1 << 20)]);
                            if let Some(t) = parse_time(f[2], s0) {
                                if let Ok(d) = t.duration_since(UNIX_EPOCH) {
                                    set_times(&p, d.as_secs());
                                }
                            }
                            self.stats.bump("prepopulated_files");
                        }
                    }
                    if self.open(w[1]) {
                        "ok".into()
                    } else {
                        "openerr".into()
                    }
                }
            }
            "close" => self.close().into(),
            "restart" => match self.live.as_ref().map(|l| l.root_spelling.clone()) {
                None => "nomgr".into(),
                Some(root) => {
                    self.stats.bump("restarts");
                    let c = self.close();
                    if c != "ok" {
                        c.into()
                    } else if self.open(&root) {
                        "ok".into()
                    } else {
                        "openerr".into()
                    }
                }
            },
            "created" if w.len() == 4 => match &self.live {
                None => "nomgr".into(),
                Some(l) => {
                    let p = real_path(&self.base, w[1]);
                    let (Ok(size), Some(t)) = (w[2].parse::<u64>(), parse_time(w[3], s0)) else {
                        return "bad-op".into();
                    };
                    let r = catch_unwind(AssertUnwindSafe(|| l.n.on_file_created(&p, size, t)));
                    if r.is_ok() { "ok".into() } else { "panic".into() }
                }
            },
            "accessed" if w.len() == 3 => match &self.live {
                None => "nomgr".into(),
                Some(l) => {
                    let p = real_path(&self.base, w[1]);
                    let Some(t) = parse_time(w[2], s0) else { return "bad-op".into() };
                    let r = catch_unwind(AssertUnwindSafe(|| l.n.on_file_accessed(&p, t)));
                    if r.is_ok() { "ok".into() } else { "panic".into() }
                }
            },
            "deleted" if w.len() == 2 => match &self.live {
                None => "nomgr".into(),
                Some(l) => {
                    let p = real_path(&self.base, w[1]);
                    let r = catch_unwind(AssertUnwindSafe(|| l.n.on_file_deleted(&p)));
                    if r.is_ok() { "ok".into() } else { "panic".into() }
                }
            },
            "maxsize" if w.len() == 2 => match &self.live {
                None => "nomgr".into(),
                Some(l) => {
                    let v = if w[1] == "none" { None } else { w[1].parse::<u64>().ok() };
                    l.qm.set_max_total_size(v);
                    self.max_size = v;
                    "ok".into()
                }
            },
            "maxage" if w.len() == 2 => match &self.live {
                None => "nomgr".into(),
                Some(l) => {
                    let Some(v) = parse_max_age(w[1], s0) else { return "bad-op".into() };
                    l.qm.set_max_age(v);
                    "ok".into()
                }
            },
            "evict" => {
                if self.live.is_none() {
                    "nomgr".into()
                } else {
                    let before = read_db(&self.db);
                    let l = self.live.as_ref().unwrap();
                    let r = catch_unwind(AssertUnwindSafe(|| rt.block_on(l.qm.verif_evict_now())));
                    let st = if r.is_ok() { "ok" } else { "panic" };
                    let after = read_db(&self.db);
                    self.note_evict(&before, &after, st, "evict");
                    st.into()
                }
            }
            "evictasync" => {
                if self.live.is_none() {
                    "nomgr".into()
                } else {
                    let before = read_db(&self.db);
                    self.live.as_ref().unwrap().n.trigger_eviction_if_needed();
                    // wait until the observed state has been stable for a while
                    std::thread::sleep(Duration::from_millis(40));
                    let mut last = self.snapshot();
                    let mut stable = 0;
                    for _ in 0..50 {
                        std::thread::sleep(Duration::from_millis(15));
                        let cur = self.snapshot();
                        if cur == last {
                            stable += 1;
                            if stable >= 3 {
                                break;
                            }
                        } else {
                            stable = 0;
                            last = cur;
                        }
                    }
                    let st = self.close();
                    let after = read_db(&self.db);
                    self.note_evict(&before, &after, st, "evictasync");
                    st.into()
                }
            }
            "evictrace" => {
                if self.live.is_none() {
                    "nomgr".into()
                } else {
                    let before_inv = read_db(&self.db);
                    let before = (before_inv.clone(), list_fs(&self.base));
                    self.live.as_ref().unwrap().n.trigger_eviction_if_needed();
                    let st = self.close();
                    let after = self.snapshot();
                    if after == before {
                        self.race_noop = true;
                    }
                    self.note_evict(&before_inv, &after.0, st, "evictrace");
                    st.into()
                }
            }
            "bulk" if w.len() == 8 => match &self.live {
                None => "nomgr".into(),
                Some(l) => {
                    let (Ok(count), Ok(size), Some(t0), Ok(step), Ok(mult), Ok(every)) = (
                        w[2].parse::<u64>(),
                        w[3].parse::<u64>(),
                        parse_time(w[4], s0),
                        w[5].parse::<u64>(),
                        w[6].parse::<u64>(),
                        w[7].parse::<u64>(),
                    ) else {
                        return "bad-op".into();
                    };
                    let dir = real_path(&self.base, w[1]);
                    let mut st = "ok";
                    for i in 0..count {
                        let p = dir.join(format!("k{i}"));
                        if every != 0 && i % every == 0 {
                            let _ = std::fs::create_dir_all(&dir);
                            let _ = std::fs::write(&p, b"x");
                        }
                        let back = Duration::from_secs(((i * mult) % count) * step);
                        let r = catch_unwind(AssertUnwindSafe(|| l.n.on_file_created(&p, size, t0 - back)));
                        if r.is_err() {
                            st = "panic";
                            break;
                        }
                    }
                    self.stats.add("bulk_notifications", count);
                    st.into()
                }
            },
            "mkfile" if w.len() == 2 => {
                let p = real_path(&self.base, w[1]);
                let ok = p.parent().map(|d| std::fs::create_dir_all(d).is_ok()).unwrap_or(false)
                    && std::fs::write(&p, b"x").is_ok();
                if ok { "ok".into() } else { "fserr".into() }
            }
            "mkdir" if w.len() == 2 => {
                if std::fs::create_dir_all(real_path(&self.base, w[1])).is_ok() { "ok".into() } else { "fserr".into() }
            }
            "symlink" if w.len() == 3 => {
                let p = real_path(&self.base, w[1]);
                let t = real_path(&self.base, w[2]);
                let ok = p.parent().map(|d| std::fs::create_dir_all(d).is_ok()).unwrap_or(false)
                    && std::os::unix::fs::symlink(&t, &p).is_ok();
                if ok { "ok".into() } else { "fserr".into() }
            }
            "rm" if w.len() == 2 => {
                let p = real_path(&self.base, w[1]);
                self.stats.bump("external_deletions");
                match std::fs::symlink_metadata(&p) {
                    Ok(md) if md.is_dir() => {
                        if std::fs::remove_dir_all(&p).is_ok() { "ok".into() } else { "fserr".into() }
                    }
                    Ok(_) => {
                        if std::fs::remove_file(&p).is_ok() { "ok".into() } else { "fserr".into() }
                    }
                    Err(_) => "ok".into(),
                }
            }
            _ => return "bad-op".to_string(),
        };
        self.stats.bump(&format!("op_{}", w[0]));
        if status == "panic" {
            self.stats.bump(&format!("panic_in_{}", w[0]));
        }
        let (inv, fs) = self.snapshot();
        format!("{status} | {} | {}", show_inv(&inv, s0), show_fs(&fs))
    }
}

/// The wall clock matters to the real code only through `SystemTime::now()` in the age pass and through
/// the creation time of files found on disk when a fresh database is pre-populated; a case that does
/// neither may straddle a clock tick (large tables, repeated races).
fn tick_tolerant(ops: &[String]) -> bool {
    let numeric_max_age = ops.iter().any(|l| l.starts_with("maxage ") && l.trim() != "maxage none");
    let first_open = ops.iter().position(|l| l.starts_with("open")).unwrap_or(0);
    let files_before_open = ops[..first_open].iter().any(|l| l.starts_with("mkfile") || l.starts_with("bulk"));
    !numeric_max_age && !files_before_open
}

enum Once {
    Ticked,
    Done(Vec<String>, bool),
}

fn run_once(ops: &[String], stats: &mut Stats) -> Once {
    let id = COUNTER.fetch_add(1, Ordering::SeqCst);
    let dir = work_root().join(format!("{}-{}", std::process::id(), id));
    let _ = std::fs::remove_dir_all(&dir);
    std::fs::create_dir_all(dir.join("b")).unwrap();
    let dir = dir.canonicalize().unwrap();
    // start early in a second so that the case is unlikely to straddle a tick
    let has_async = ops.iter().any(|l| l.starts_with("evictasync"));
    let big = ops.iter().any(|l| l.starts_with("bulk"));
    let tolerant = tick_tolerant(ops);
    while !tolerant {
        let frac = SystemTime::now().duration_since(UNIX_EPOCH).unwrap().subsec_millis();
        if frac < if has_async || big { 300 } else { 850 } {
            break;
        }
        std::thread::sleep(Duration::from_millis(20));
    }
    let s0 = now_secs();
    let rt = std::sync::Arc::new(tokio::runtime::Builder::new_multi_thread().worker_threads(1).max_blocking_threads(1).enable_all().build().unwrap());
    let mut local = Stats::default();
    let mut run = Run {
        base: dir.join("b"),
        db: dir.join("inv.db"),
        s0,
        rt,
        live: None,
        stats: &mut local,
        max_size: None,
        race_noop: false,
        gate: None,
        pass_before: None,
    };
    let mut out = Vec::with_capacity(ops.len());
    for l in ops {
        out.push(run.exec(l));
    }
    if let Some(g) = run.gate.take() {
        g.open();
    }
    if run.live.is_some() {
        let _ = run.close();
    }
    let ticked = now_secs() != s0 && !tolerant;
    let race_noop = run.race_noop;
    drop(run);
    let _ = std::fs::remove_dir_all(&dir);
    if ticked {
        return Once::Ticked;
    }
    stats.merge(&local);
    Once::Done(out, race_noop)
}

// ---------------------------------------------------------------------------------------------
// generator

#[derive(Clone, Copy, PartialEq, Eq, Debug)]
enum Kind {
    File,
    Dir,
    Link,
}

struct Gen<'r> {
    rng: &'r mut Rng,
    ops: Vec<String>,
    /// generator-side picture of the tree under `B` (physical paths)
    nodes: BTreeMap<String, Kind>,
    /// predicted inventory of plain rows: canonical path -> (size, ago); a negative "ago" is a time in
    /// the future (`n+k`: clock stepped back, or a notification stamped after the pass read the clock)
    inv: BTreeMap<String, (u64, i64)>,
    open: bool,
    /// palette of "seconds ago" values (few values ⇒ ties)
    agos: Vec<i64>,
    distinct_times: bool,
    next_distinct: u64,
}

// "A" / "B" are different files from "a" / "b" (paths are compared byte for byte)
// also: SQL `LIKE` wildcards, a space (`~`), non-ASCII, and names that are prefixes of one another in the same
// directory (`a` / `ab` / `a%` / `a_`): keys are compared as whole strings, never as patterns or prefixes
const NAMES: [&str; 18] =
    ["a", "b", "c", "d", "e", "f", "g", "h", "A", "B", "ab", "a%", "a_", "%", "_", "a~b", "é", "名"];
const DIRS: [&str; 8] = ["", "", "d1/", "d2/", "d1/n/", "D1/", "d%/", "d1~x/"];

impl<'r> Gen<'r> {
    fn new(rng: &'r mut Rng) -> Self {
        let mut agos = Vec::new();
        let n = rng.range(2, 5);
        for _ in 0..n {
            let base = rng.range(1, 9) as i64 * 1000;
            agos.push(base);
            if rng.chance(1, 3) {
                agos.push(base + 1);
            }
            if rng.chance(1, 4) {
                agos.push(base - 1);
            }
        }
        // the present and the future: production always has a row with atime = now when the first pass
        // runs (created → trigger)
        if rng.chance(1, 4) {
            agos.push(0);
        }
        if rng.chance(1, 8) {
            agos.push(-1);
        }
        if rng.chance(1, 10) {
            agos.push(-3600);
        }
        Gen {
            rng,
            ops: vec![],
            nodes: BTreeMap::new(),
            inv: BTreeMap::new(),
            open: false,
            agos,
            distinct_times: false,
            next_distinct: 1,
        }
    }
    fn ago(&mut self) -> i64 {
        if self.distinct_times {
            self.next_distinct += self.rng.range(1, 3);
            return (100 + self.next_distinct * 7) as i64;
        }
        *self.rng.pick(&self.agos)
    }
    fn mk_parents(&mut self, p: &str) {
        let c = comps(p);
        let mut cur = String::new();
        for d in &c[..c.len().saturating_sub(1)] {
            cur.push('/');
            cur.push_str(d);
            self.nodes.entry(cur.clone()).or_insert(Kind::Dir);
        }
    }
    fn mkfile(&mut self, p: &str) {
        self.mk_parents(p);
        self.nodes.insert(p.to_string(), Kind::File);
        self.ops.push(format!("mkfile {p}"));
    }
    fn mkdir(&mut self, p: &str) {
        self.mk_parents(p);
        self.nodes.insert(p.to_string(), Kind::Dir);
        self.ops.push(format!("mkdir {p}"));
    }
    fn symlink(&mut self, p: &str, t: &str) {
        self.mk_parents(p);
        self.nodes.insert(p.to_string(), Kind::Link);
        self.ops.push(format!("symlink {p} {t}"));
    }
    fn rm(&mut self, p: &str) {
        let pre = format!("{p}/");
        self.nodes.retain(|k, _| k != p && !k.starts_with(&pre));
        self.ops.push(format!("rm {p}"));
    }
    fn free_root_path(&mut self) -> Option<String> {
        for _ in 0..20 {
            let p = format!("/root/{}{}", self.rng.pick(&DIRS), self.rng.pick(&NAMES));
            // the path and its ancestors must not collide with nodes of another kind
            let c = comps(&p);
            let mut ok = !self.nodes.contains_key(&p);
            let mut cur = String::new();
            for d in &c[..c.len() - 1] {
                cur.push('/');
                cur.push_str(d);
                if matches!(self.nodes.get(&cur), Some(Kind::File) | Some(Kind::Link)) {
                    ok = false;
                }
            }
            if ok {
                return Some(p);
            }
        }
        None
    }
    fn root_files(&self) -> Vec<String> {
        self.nodes
            .iter()
            .filter(|(k, v)| **v == Kind::File && k.starts_with("/root/"))
            .map(|(k, _)| k.clone())
            .collect()
    }
    fn size(&mut self) -> u64 {
        match self.rng.below(10) {
            0 => 0,
            1 => 1,
            2..=5 => self.rng.range(1, 20),
            6..=8 => self.rng.range(10, 2000),
            _ => self.rng.range(1, 1 << 33),
        }
    }
    fn create_new(&mut self) {
        if let Some(p) = self.free_root_path() {
            self.mkfile(&p);
            let (s, a) = (self.size(), self.ago());
            let ta = tok(a);
            self.ops.push(format!("created {p} {s} {ta}"));
            self.inv.insert(p, (s, a));
        }
    }
    fn recreate(&mut self) {
        let fs = self.root_files();
        if fs.is_empty() {
            return;
        }
        let p = self.rng.pick(&fs).clone();
        let (s, a) = (self.size(), self.ago());
            let ta = tok(a);
        self.ops.push(format!("created {p} {s} {ta}"));
        self.inv.insert(p, (s, a));
    }
    fn access(&mut self) {
        let fs = self.root_files();
        if fs.is_empty() {
            return;
        }
        let p = self.rng.pick(&fs).clone();
        let a = self.ago();
        let ta = tok(a);
        self.ops.push(format!("accessed {p} {ta}"));
        if let Some(e) = self.inv.get_mut(&p) {
            e.1 = a;
        }
    }
    fn total(&self) -> u64 {
        self.inv.values().map(|v| v.0).sum()
    }
    /// a max size shaped around the boundaries of the selection loop
    fn pick_max_size(&mut self) -> String {
        let total = self.total();
        let mut rows: Vec<(i64, u64)> = self.inv.values().map(|v| (v.1, v.0)).collect();
        rows.sort_by(|x, y| y.0.cmp(&x.0)); // oldest (largest ago) first
        let mut prefix = vec![0u64];
        for r in &rows {
            prefix.push(prefix.last().unwrap() + r.1);
        }
        let mut k = self.rng.below(prefix.len() as u64) as usize;
        if rows.len() > 40 && self.rng.chance(3, 4) {
            // large tables: the cut next to the page sizes a batched query would use
            let n = rows.len();
            let cand: Vec<usize> = [63, 64, 65, 99, 100, 101, 127, 128, 129, 199, 200, 201, 255, 256, 257, n - 1, n]
                .into_iter()
                .filter(|c| *c <= n)
                .collect();
            k = *self.rng.pick(&cand);
        }
        let target = total - prefix[k];
        let v = match self.rng.below(12) {
            0 => total,
            1 => total + 1,
            2 => total.saturating_sub(1),
            3 | 4 => target,
            5 => target + 1,
            6 => target.saturating_sub(1),
            7 => 0,
            8 => 1,
            9 => self.rng.below(total * 2 + 2),
            10 => return "none".to_string(),
            _ => total / 2,
        };
        v.to_string()
    }
    fn pick_max_age(&mut self) -> String {
        match self.rng.below(8) {
            0 | 1 => "none".to_string(),
            2 | 3 => (*self.rng.pick(&self.agos)).max(0).to_string(),
            4 => ((*self.rng.pick(&self.agos)).max(0) + 1).to_string(),
            5 => ((*self.rng.pick(&self.agos) - 1).max(0)).to_string(),
            6 => {
                let vals: Vec<i64> = self.inv.values().map(|v| v.1.max(0)).collect();
                if vals.is_empty() {
                    "0".to_string()
                } else {
                    self.rng.pick(&vals).to_string()
                }
            }
            _ => self.rng.below(12000).to_string(),
        }
    }
    fn settings(&mut self) {
        if self.rng.chance(4, 5) {
            let v = self.pick_max_size();
            self.ops.push(format!("maxsize {v}"));
        }
        if self.rng.chance(2, 5) {
            let v = self.pick_max_age();
            self.ops.push(format!("maxage {v}"));
        }
    }
    fn evict(&mut self) {
        self.ops.push("evict".to_string());
        // the prediction is only used to steer later boundary choices: forget it
        self.resync_hint();
        if self.rng.chance(1, 3) {
            self.ops.push("evict".to_string());
        }
    }
    fn resync_hint(&mut self) {
        // after an eviction we do not know what is left without running the model; keep the
        // prediction (boundary choices become approximate, which is harmless)
    }
    fn maybe_restart(&mut self) {
        if self.open && self.rng.chance(1, 8) {
            self.ops.push("restart".to_string());
            // settings are in-memory only
            if self.rng.chance(2, 3) {
                self.settings();
            }
        }
    }
    fn odd_path_op(&mut self) {
        let a = self.ago();
        let ta = tok(a);
        let s = self.size();
        match self.rng.below(14) {
            0 => self.ops.push(format!("created /out/s1 {s} {ta}")),
            1 => self.ops.push(format!("created /out/new{} {s} {ta}", self.rng.below(3))),
            2 => {
                // `root/../out/x` spelling of a path that does not exist (yet)
                let n = self.rng.below(3);
                self.ops.push(format!("created /root/../out/x{n} {s} {ta}"));
            }
            3 => {
                // spelling through `..` of an existing file under the root
                let fs = self.root_files();
                if let Some(p) = fs.first() {
                    let tail = p.strip_prefix("/root/").unwrap();
                    self.ops.push(format!("accessed /root/../root/{tail} {ta}"));
                }
            }
            4 => {
                // the root spelled through a symlink
                if !self.nodes.contains_key("/rl") {
                    self.symlink("/rl", "/root");
                }
                let fs = self.root_files();
                if let Some(p) = fs.last() {
                    let tail = p.strip_prefix("/root/").unwrap();
                    self.ops.push(format!("created /rl/{tail} {s} {ta}"));
                } else {
                    self.ops.push(format!("created /rl/nofile {s} {ta}"));
                }
            }
            5 => {
                // a symlink inside the root that points at a sentinel outside
                if !self.nodes.contains_key("/root/ls") {
                    self.symlink("/root/ls", "/out/s1");
                }
                self.ops.push(format!("created /root/ls {s} {ta}"));
            }
            6 => {
                // a directory recorded as a file (remove_file fails with EISDIR)
                if !self.nodes.contains_key("/root/dd") {
                    self.mkdir("/root/dd");
                }
                self.ops.push(format!("created /root/dd {s} {ta}"));
            }
            7 => self.ops.push(format!("created /root {s} {ta}")),
            8 => {
                // a path through a regular file (ENOTDIR)
                let fs = self.root_files();
                if let Some(p) = fs.first() {
                    self.ops.push(format!("created {p}/zz {s} {ta}"));
                }
            }
            9 => {
                // a file that does not exist at notification time
                if let Some(p) = self.free_root_path() {
                    self.ops.push(format!("created {p} {s} {ta}"));
                    if self.rng.chance(1, 2) {
                        self.mkfile(&p);
                    }
                    self.inv.insert(p, (s, a));
                }
            }
            10 => {
                // a dangling symlink inside the root, recorded
                if !self.nodes.contains_key("/root/dang") {
                    self.symlink("/root/dang", "/void/nothing");
                }
                self.ops.push(format!("created /root/dang {s} {ta}"));
            }
            11 => {
                let fs = self.root_files();
                if let Some(p) = fs.first() {
                    self.ops.push(format!("deleted {p}"));
                    self.inv.remove(p);
                }
            }
            12 => self.ops.push(format!("deleted /out/s1")),
            _ => {
                // notification for a directory symlink that stays inside the root
                if !self.nodes.contains_key("/root/lin") {
                    self.mkdir("/root/d2");
                    self.symlink("/root/lin", "/root/d2");
                }
                let n = *self.rng.pick(&NAMES);
                let p = format!("/root/d2/{n}");
                if !self.nodes.contains_key(&p) {
                    self.mkfile(&p);
                }
                self.ops.push(format!("created /root/lin/{n} {s} {ta}"));
                self.inv.insert(p, (s, a));
            }
        }
    }
    /// excluded points of the theorems' hypotheses: rows that do not name a plain file under the root
    fn excluded_point_op(&mut self) {
        let a = self.ago();
        let ta = tok(a);
        let s = self.rng.range(1, 50);
        match self.rng.below(9) {
            0 => {
                // `root/../out/x` recorded while absent, then a dangling symlink appears there
                let n = self.rng.below(2);
                self.ops.push(format!("created /root/../out/x{n} {s} {ta}"));
                if !self.nodes.contains_key(&format!("/out/x{n}")) {
                    self.symlink(&format!("/out/x{n}"), "/void/zzz");
                }
            }
            1 => {
                // … then a regular file appears there
                let n = self.rng.below(2);
                self.ops.push(format!("created /root/../out/y{n} {s} {ta}"));
                if !self.nodes.contains_key(&format!("/out/y{n}")) {
                    self.mkfile(&format!("/out/y{n}"));
                }
            }
            2 => {
                // a recorded file is replaced by a symlink that leaves the root
                if let Some(p) = self.free_root_path() {
                    self.mkfile(&p);
                    self.ops.push(format!("created {p} {s} {ta}"));
                    self.rm(&p);
                    self.symlink(&p, "/out/s2");
                }
            }
            3 => {
                // a directory symlink out of the root; a file recorded below it while absent
                if !self.nodes.contains_key("/root/dl") {
                    self.symlink("/root/dl", "/out");
                }
                self.ops.push(format!("created /root/dl/z {s} {ta}"));
                match self.rng.below(3) {
                    0 => {
                        if !self.nodes.contains_key("/out/z") {
                            self.symlink("/out/z", "/void/zzz")
                        }
                    }
                    1 => {
                        if !self.nodes.contains_key("/out/z") {
                            self.mkfile("/out/z")
                        }
                    }
                    _ => {}
                }
            }
            4 => self.ops.push(format!("created /root/tneg {s} e-{}", self.rng.range(1, 5))),
            5 => {
                let fs = self.root_files();
                if let Some(p) = fs.first() {
                    self.ops.push(format!("accessed {p} e-1"));
                }
            }
            6 => {
                let v = *self.rng.pick(&["now+1", "now+0", "now-1", "max", "now+100000"]);
                self.ops.push(format!("maxage {v}"));
            }
            7 => {
                // sizes that do not fit an i64 / whose sum does not
                let big = *self.rng.pick(&[1u64 << 63, u64::MAX, (1u64 << 63) + 5, 1u64 << 62, (1u64 << 62) + 7]);
                if let Some(p) = self.free_root_path() {
                    self.mkfile(&p);
                    self.ops.push(format!("created {p} {big} {ta}"));
                }
            }
            _ => {
                // a non-canonical spelling of a later-created file inside the root
                if !self.nodes.contains_key("/root/lin") {
                    self.mkdir("/root/d2");
                    self.symlink("/root/lin", "/root/d2");
                }
                let p = "/root/d2/late".to_string();
                self.ops.push(format!("created /root/lin/late {s} {ta}"));
                if !self.nodes.contains_key(&p) {
                    self.mkfile(&p);
                }
            }
        }
    }
    /// `root_variant`: 0 = `open /root` on an existing canonical directory; the others are the excluded
    /// points of the `DirChain` hypothesis on the *spelling* of the root given to `QuotaManager::new`:
    /// 1 = through a symlink (`/rl → /root`), 2 = through a chain of two symlinks, 3 = with `..`,
    /// 4 = the root directory is created only after the manager was opened, 5 = a symlink spelling that
    /// does not resolve yet when the manager is opened (every later notification is ignored)
    fn prelude(&mut self, with_pre: bool, root_variant: u64) {
        let spelling = match root_variant {
            1 => {
                self.mkdir("/root");
                self.symlink("/rl", "/root");
                "/rl"
            }
            2 => {
                self.mkdir("/root");
                self.symlink("/rl", "/root");
                self.symlink("/rl2", "/rl");
                "/rl2"
            }
            3 => {
                self.mkdir("/root");
                self.mkdir("/other");
                "/other/../root"
            }
            4 => "/root",
            5 => "/rl",
            _ => {
                self.mkdir("/root");
                "/root"
            }
        };
        self.mkfile("/out/s1");
        self.mkfile("/out/s2");
        if root_variant >= 4 {
            self.ops.push(format!("open {spelling}"));
            self.open = true;
            self.mkdir("/root");
            if root_variant == 5 {
                self.symlink("/rl", "/root");
            }
            return;
        }
        let mut pre = String::new();
        if with_pre {
            self.distinct_times = true;
            let n = self.rng.range(1, 5);
            for _ in 0..n {
                if let Some(p) = self.free_root_path() {
                    self.mkfile(&p);
                    let s = self.rng.range(0, 300);
                    let a = self.ago();
                    let ta = tok(a);
                    pre.push_str(&format!(" {p}:{s}:{ta}"));
                    self.inv.insert(p, (s, a));
                }
            }
            if self.rng.chance(1, 2) {
                pre.push_str(" /out/s1:7:n-50");
            }
        }
        self.ops.push(format!("open {spelling}{pre}"));
        self.open = true;
    }

    /// one `bulk` line: `count` files `dir/k<i>`, file `i` accessed `ago0 + ((i·mult) mod count)·step` ago
    fn bulk(&mut self, dir: &str, count: u64, size: u64, ago0: i64, step: u64, mult: u64, every: u64) {
        self.ops.push(format!("bulk {dir} {count} {size} {} {step} {mult} {every}", tok(ago0)));
        for i in 0..count {
            let p = format!("{dir}/k{i}");
            if every != 0 && i % every == 0 {
                self.mk_parents(&p);
                self.nodes.insert(p.clone(), Kind::File);
            }
            self.inv.insert(p, (size, ago0 + (((i * mult) % count) * step) as i64));
        }
    }
}

/// large tables (reviewer's blind spot 1; seeded change C15-3): 65-300 rows (more in the fixed cases), the
/// cut next to the page sizes a batched / limited LRU query would use
fn gen_large(rng: &mut Rng, tier: Tier) -> Vec<String> {
    let mut g = Gen::new(rng);
    g.prelude(false, 0);
    let nb = g.rng.range(1, 2);
    for j in 0..nb {
        let count = *g.rng.pick(&[65u64, 66, 100, 101, 129, 130, 200, 257, 300]);
        let count = if tier == Tier::Quick { count.min(200) } else { count };
        let size = g.rng.range(1, 9);
        let ago0 = g.rng.range(2000, 6000) as i64;
        let step = *g.rng.pick(&[0u64, 1, 1, 2]);
        let mult = *g.rng.pick(&[1, count - 1, 7919]);
        let every = *g.rng.pick(&[0u64, 1, 1, 3]);
        g.bulk(&format!("/root/bk{j}"), count, size, ago0, step, mult, every);
        g.maybe_restart();
    }
    let rounds = g.rng.range(1, 3);
    for _ in 0..rounds {
        let steps = g.rng.range(0, 5);
        for _ in 0..steps {
            match g.rng.below(6) {
                0 | 1 => g.access(),
                2 => g.create_new(),
                3 => g.recreate(),
                4 => {
                    let fs = g.root_files();
                    if !fs.is_empty() {
                        let p = g.rng.pick(&fs).clone();
                        g.rm(&p);
                    }
                }
                _ => {
                    let fs = g.root_files();
                    if !fs.is_empty() {
                        let p = g.rng.pick(&fs).clone();
                        g.ops.push(format!("deleted {p}"));
                        g.inv.remove(&p);
                    }
                }
            }
        }
        let v = g.pick_max_size();
        g.ops.push(format!("maxsize {v}"));
        if g.rng.chance(1, 4) {
            let vals: Vec<i64> = g.inv.values().map(|v| v.1.max(0)).collect();
            let a = *g.rng.pick(&vals);
            g.ops.push(format!("maxage {a}"));
        }
        g.evict();
        g.maybe_restart();
    }
    g.ops.push("close".to_string());
    g.ops
}

/// Is the known finding `id` recorded in `$VERIF_ROOT/KNOWN_FINDINGS.txt`? (the input family that exposes a
/// candidate finding is generated only then; `C15_FORCE_FINDING_FAMILIES=1` generates it regardless)
fn known_listed(id: &str) -> bool {
    static TEXT: std::sync::OnceLock<String> = std::sync::OnceLock::new();
    if std::env::var("C15_FORCE_FINDING_FAMILIES").is_ok() {
        return true;
    }
    let text = TEXT.get_or_init(|| {
        let root = std::env::var("VERIF_ROOT").unwrap_or_else(|_| "/verif".to_string());
        std::fs::read_to_string(PathBuf::from(root).join("KNOWN_FINDINGS.txt")).unwrap_or_default()
    });
    text.lines().any(|l| l.starts_with("known:") && l.contains(&format!("\"id\":\"{id}\"")))
}

const RACE_FINDING: &str = "C15-race-recreated-file-deleted";

/// The lock gap: a pass stepped one `remove_file` at a time (`passbegin` / `passstep` / `passend`) with
/// notifications and external file-system activity of "other tasks" in between: `accessed` for any file
/// (candidates included), `deleted`, external `rm`, and `created` for brand-new files. A `created` report for a
/// file that is already recorded (re-download) is the candidate finding RACE_FINDING and is generated only when
/// that id is listed in KNOWN_FINDINGS.txt.
fn gen_gap(rng: &mut Rng) -> Vec<String> {
    let mut g = Gen::new(rng);
    g.prelude(false, 0);
    let with_age = g.rng.chance(1, 4);
    if !with_age {
        g.agos.retain(|a| *a > 0);
    }
    let nfiles = g.rng.range(3, 8);
    for _ in 0..nfiles {
        g.create_new();
    }
    if g.rng.chance(1, 4) {
        // a stale row: its file is already missing
        let fs = g.root_files();
        if !fs.is_empty() {
            let p = g.rng.pick(&fs).clone();
            g.rm(&p);
        }
    }
    let v = g.pick_max_size();
    g.ops.push(format!("maxsize {v}"));
    if with_age {
        let v = g.pick_max_age();
        g.ops.push(format!("maxage {v}"));
    }
    g.ops.push("passbegin".to_string());
    let steps = g.rng.range(0, 6);
    let mut fresh = 0;
    let finding = known_listed(RACE_FINDING);
    for _ in 0..steps {
        let k = g.rng.range(0, 2);
        for _ in 0..k {
            match g.rng.below(if finding { 8 } else { 7 }) {
                0..=2 => g.access(),
                3 => {
                    let p = format!("/root/new{fresh}");
                    fresh += 1;
                    g.mkfile(&p);
                    let (s, a) = (g.size(), g.ago());
                    g.ops.push(format!("created {p} {s} {}", tok(a)));
                }
                4 => {
                    let fs = g.root_files();
                    if !fs.is_empty() {
                        let p = g.rng.pick(&fs).clone();
                        g.ops.push(format!("deleted {p}"));
                    }
                }
                5 => {
                    let fs = g.root_files();
                    if !fs.is_empty() {
                        let p = g.rng.pick(&fs).clone();
                        g.rm(&p);
                    }
                }
                6 => g.settings(),
                _ => {
                    // re-download of a recorded file while the pass runs
                    let keys: Vec<String> = g.inv.keys().cloned().collect();
                    if !keys.is_empty() {
                        let p = g.rng.pick(&keys).clone();
                        g.mkfile(&p);
                        let s = g.size();
                        g.ops.push(format!("created {p} {s} n-0"));
                    }
                }
            }
        }
        g.ops.push("passstep".to_string());
    }
    g.ops.push("passend".to_string());
    g.ops.push("open /root".to_string());
    if g.rng.chance(1, 2) {
        g.ops.push("evict".to_string());
    }
    g.ops.push("close".to_string());
    g.ops
}

/// `trigger_eviction_if_needed` directly followed by `finish()` with at least two files to delete
/// (reviewer's blind spot 2: a `finish()` that cuts the pass short); no max age, so that the case may be
/// repeated across clock ticks
fn gen_race(rng: &mut Rng) -> Vec<String> {
    let mut g = Gen::new(rng);
    g.agos.retain(|a| *a > 0);
    g.prelude(false, 0);
    let rounds = g.rng.range(1, 2);
    for _ in 0..rounds {
        let nfiles = g.rng.range(3, 9);
        for _ in 0..nfiles {
            g.create_new();
        }
        if g.rng.chance(1, 3) {
            g.access();
        }
        // keep at most one or two files: several deletions are pending when `finish()` is called
        let mut sizes: Vec<u64> = g.inv.values().map(|v| v.0).collect();
        sizes.sort();
        let v = if g.rng.chance(1, 2) { 0 } else { sizes[0] };
        g.ops.push(format!("maxsize {v}"));
        g.ops.push("evictrace".to_string());
        g.ops.push("open /root".to_string());
        g.inv.clear();
    }
    g.ops.push("close".to_string());
    g.ops
}

fn gen_case(rng: &mut Rng, index: u64, tier: Tier) -> Vec<String> {
    let profile = match index % 40 {
        0..=13 => 0,  // plain LRU histories
        14 | 15 => return gen_gap(rng),
        16..=21 => 1, // + external deletions
        22..=27 => 2, // + odd paths (outside the root, `..`, symlinks, directories)
        28..=31 => 3, // pre-populated database
        32..=35 => 4, // excluded points
        36 => 5,      // asynchronous path (settled)
        37 => return gen_race(rng),
        38 => return gen_large(rng, tier),
        _ => 6, // plain histories with an odd spelling of the root
    };
    let mut g = Gen::new(rng);
    let root_variant = if profile == 6 { g.rng.range(1, 5) } else { 0 };
    g.prelude(profile == 3, root_variant);
    let nfiles = if profile == 5 { g.rng.range(1, 4) } else { g.rng.range(0, 8) };
    for _ in 0..nfiles {
        g.create_new();
        g.maybe_restart();
    }
    let rounds = match tier {
        Tier::Quick => g.rng.range(1, 3),
        Tier::Thorough => g.rng.range(1, 5),
    };
    for _ in 0..rounds {
        let steps = g.rng.range(0, 5);
        for _ in 0..steps {
            match g.rng.below(10) {
                0..=2 => g.access(),
                3..=4 => g.create_new(),
                5 => g.recreate(),
                6 if profile == 1 || profile >= 4 => {
                    let fs = g.root_files();
                    if !fs.is_empty() {
                        let p = g.rng.pick(&fs).clone();
                        g.rm(&p);
                    }
                }
                7 | 8 if profile == 2 => g.odd_path_op(),
                7 | 8 if profile == 4 => g.excluded_point_op(),
                _ => g.access(),
            }
            g.maybe_restart();
        }
        g.settings();
        if profile == 5 {
            g.ops.push("evictasync".to_string());
            g.ops.push("open /root".to_string());
            g.distinct_times = false;
        } else {
            g.evict();
        }
        g.maybe_restart();
    }
    g.ops.push("close".to_string());
    g.ops
}

fn fixed(name: &str, ops: &[&str]) -> Case {
    Case { name: name.to_string(), ops: ops.iter().map(|s| s.to_string()).collect() }
}

impl Prop for C15 {
    fn id(&self) -> &'static str {
        "C15"
    }
    fn case_count(&self, tier: Tier) -> u64 {
        match tier {
            Tier::Quick => 600,
            Tier::Thorough => 10000,
        }
    }
    fn fixed_cases(&self, _tier: Tier) -> Vec<Case> {
        let mut v = vec![
            // total == max: nothing may go (defect #7 of DESIGN.md §8 before 9223a525), twice
            fixed("f-total-eq-max", &[
                "mkdir /root", "open /root", "mkfile /root/a", "mkfile /root/b", "mkfile /root/c",
                "created /root/a 10 n-3000", "created /root/b 20 n-2000", "created /root/c 30 n-1000",
                "maxsize 60", "evict", "evict", "maxsize 59", "evict", "evict", "close",
            ]),
            // a recorded file is already missing (defect #8 before f5f79157); later files still go
            fixed("f-missing-file", &[
                "mkdir /root", "open /root", "mkfile /root/a", "mkfile /root/b", "mkfile /root/c",
                "created /root/a 10 n-3000", "created /root/b 20 n-2000", "created /root/c 30 n-1000",
                "rm /root/a", "maxsize 35", "evict", "evict", "close",
            ]),
            // ties in access time: rowid order decides; upsert keeps the rowid, delete + insert does not
            fixed("f-ties", &[
                "mkdir /root", "open /root", "mkfile /root/a", "mkfile /root/b", "mkfile /root/c", "mkfile /root/d",
                "created /root/c 30 n-5000", "created /root/a 10 n-5000", "created /root/d 40 n-5000",
                "created /root/b 20 n-5000", "created /root/c 30 n-5000", "deleted /root/a",
                "created /root/a 10 n-5000", "maxsize 60", "evict", "close",
            ]),
            // paths that differ only in letter case are different files with their own rows
            fixed("f-case-twins", &[
                "mkdir /root", "open /root", "mkfile /root/d1/ABC", "mkfile /root/d1/abc", "mkfile /root/D1/abc", "mkfile /root/z",
                "created /root/d1/ABC 60 n-4000", "created /root/d1/abc 60 n-3000", "created /root/D1/abc 20 n-2500",
                "created /root/z 30 n-2000", "maxsize 100", "evict", "evict", "accessed /root/d1/abc n-10",
                "deleted /root/D1/abc", "maxsize 30", "evict", "restart", "evict", "close",
            ]),
            // age boundary: atime == cutoff stays, one second older goes
            fixed("f-age-boundary", &[
                "mkdir /root", "open /root", "mkfile /root/a", "mkfile /root/b", "mkfile /root/c",
                "created /root/a 10 n-3001", "created /root/b 20 n-3000", "created /root/c 30 n-2999",
                "maxage 3000", "evict", "evict", "close",
            ]),
            // restart keeps the inventory, forgets the settings
            fixed("f-restart", &[
                "mkdir /root", "open /root", "mkfile /root/a", "mkfile /root/b",
                "created /root/a 10 n-3000", "created /root/b 20 n-2000", "maxsize 5", "restart", "evict",
                "maxsize 25", "evict", "restart", "accessed /root/b n-100", "close", "open /root", "close",
            ]),
            // outside-the-root notifications are ignored; sentinels survive
            fixed("f-outside", &[
                "mkdir /root", "mkfile /out/s1", "mkfile /root/a", "symlink /root/ls /out/s1", "open /root",
                "created /out/s1 100 n-9000", "created /root/ls 100 n-9000", "created /root/../out/s1 100 n-9000",
                "created /root/a 10 n-1000", "maxsize 0", "evict", "close",
            ]),
            // EISDIR / the root itself / ENOTDIR rows are kept
            fixed("f-undeletable", &[
                "mkdir /root/dd", "open /root", "mkfile /root/a", "mkfile /root/b",
                "created /root/dd 50 n-9000", "created /root 7 n-8000", "created /root/a/zz 5 n-7000",
                "created /root/a 10 n-2000", "created /root/b 20 n-1000", "maxsize 25", "evict", "evict",
                "maxsize 0", "evict", "close",
            ]),
            // pre-populated database
            fixed("f-prepopulate", &[
                "mkdir /root", "mkfile /root/a", "mkfile /root/d1/b", "mkfile /out/s1",
                "open /root /root/a:100:n-5000 /root/d1/b:200:n-4000 /out/s1:7:n-50", "maxsize 250", "evict",
                "restart", "close",
            ]),
            // asynchronous path
            fixed("f-async", &[
                "mkdir /root", "open /root", "mkfile /root/a", "mkfile /root/b",
                "created /root/a 10 n-3000", "created /root/b 20 n-2000", "maxsize 25", "evictasync",
                "open /root", "close",
            ]),
            // invalid arguments: pre-epoch time poisons the manager; max age beyond the clock
            fixed("f-pre-epoch", &[
                "mkdir /root", "open /root", "mkfile /root/a", "created /out/q 1 e-1", "created /root/a 10 e-1",
                "accessed /root/a n-1", "evict", "restart", "created /root/a 10 n-5", "close",
            ]),
            fixed("f-maxage-beyond-clock", &[
                "mkdir /root", "open /root", "mkfile /root/a", "mkfile /root/b", "created /root/a 10 n-3000",
                "created /root/b 10 n-2000", "maxsize 10", "maxage now+0", "evict", "maxage now+1", "evict",
                "accessed /root/b n-1", "restart", "maxage max", "evict", "accessed /root/b n-1", "close",
            ]),
            fixed("f-huge-sizes", &[
                "mkdir /root", "open /root", "mkfile /root/a", "mkfile /root/b", "mkfile /root/c",
                "created /root/a 4611686018427387904 n-3000", "created /root/b 4611686018427387904 n-2000",
                "maxsize 5", "evict", "deleted /root/b", "created /root/c 9223372036854775813 n-1000", "evict",
                "close",
            ]),
        ];
        // a pass that has to remove more than 1000 files (seeded change C15-3: `LIMIT 1000` in the LRU query);
        // every tenth file really exists, the others are found absent
        v.push(fixed("f-large-1100-all", &[
            "mkdir /root", "open /root", "bulk /root/big 1100 3 n-2000 1 1 10", "maxsize 0", "evict", "evict", "close",
        ]));
        // … and with the cut inside the second thousand, reverse insertion order, after a restart
        v.push(fixed("f-large-1100-cut-1001", &[
            "mkdir /root", "open /root", "bulk /root/big 1100 2 n-2000 1 1099 0", "restart", "maxsize 198", "evict",
            "maxsize 196", "evict", "close",
        ]));
        // page-sized cuts: 64 rows, then one more, then across two "pages"; all access times equal
        v.push(fixed("f-large-pages", &[
            "mkdir /root", "open /root", "bulk /root/p 200 1 n-5000 0 1 1", "maxsize 136", "evict", "maxsize 135", "evict",
            "maxsize 6", "evict", "evict", "close",
        ]));
        if _tier == Tier::Thorough {
            v.push(fixed("f-large-4200", &[
                "mkdir /root", "open /root", "bulk /root/big 4200 1 n-9000 1 1 0", "maxsize 100", "evict", "close",
            ]));
        }
        // the root spelled through a symbolic link / created after the manager (DirChain excluded points)
        v.push(fixed("f-root-via-symlink", &[
            "mkdir /root", "symlink /rl /root", "open /rl", "mkfile /root/a", "mkfile /root/b",
            "created /root/a 10 n-3000", "created /rl/b 20 n-2000", "maxsize 25", "evict", "restart",
            "accessed /rl/b n-5", "maxsize 0", "evict", "close",
        ]));
        v.push(fixed("f-root-created-later", &[
            "open /root", "mkdir /root", "mkfile /root/a", "mkfile /root/b", "created /root/a 10 n-3000",
            "created /root/b 20 n-2000", "maxsize 25", "evict", "restart", "maxsize 0", "evict", "close",
        ]));
        // rows accessed "now" and in the future (clock stepped back): never too old, last in LRU order
        v.push(fixed("f-atime-now-and-future", &[
            "mkdir /root", "open /root", "mkfile /root/a", "mkfile /root/b", "mkfile /root/c", "mkfile /root/d",
            "created /root/a 10 n+3600", "created /root/b 20 n-0", "created /root/c 30 n+1", "created /root/d 5 n-1",
            "maxage 0", "evict", "maxsize 40", "evict", "maxage 1", "maxsize 10", "evict", "close",
        ]));
        // the lock gap: reports that land between the selection and a delete (accessed: the candidate is still
        // deleted = "pass, then report"; a brand-new file; a report for a file the pass has just deleted)
        v.push(fixed("f-gap-accessed", &[
            "mkdir /root", "open /root", "mkfile /root/a", "mkfile /root/b", "mkfile /root/c",
            "created /root/a 10 n-3000", "created /root/b 10 n-2000", "created /root/c 10 n-1000", "maxsize 10",
            "passbegin", "accessed /root/b n-0", "mkfile /root/d", "created /root/d 5 n-0", "passstep",
            "accessed /root/a n-0", "accessed /root/c n-1", "deleted /root/b", "passstep", "passstep", "passend",
            "open /root", "evict", "close",
        ]));
        v.push(fixed("f-gap-age-phase", &[
            "mkdir /root", "open /root", "mkfile /root/a", "mkfile /root/b", "mkfile /root/c",
            "created /root/a 10 n-3000", "created /root/b 10 n-2000", "created /root/c 10 n-1000", "maxsize 20",
            "maxage 1500", "passbegin", "accessed /root/b n-5", "passstep", "rm /root/c", "passstep", "passend",
            "open /root", "close",
        ]));
        if known_listed(RACE_FINDING) {
            v.push(fixed("x-gap-recreated", &[
                "mkdir /root", "open /root", "mkfile /root/a", "mkfile /root/b", "mkfile /root/p",
                "created /root/p 10 n-3000", "created /root/a 10 n-2000", "created /root/b 10 n-1000", "maxsize 20",
                "passbegin", "mkfile /root/p", "created /root/p 10 n-0", "passstep", "passend", "open /root", "close",
            ]));
        }
        // names: SQL wildcards, a space, non-ASCII, names that are prefixes of one another
        v.push(fixed("f-names", &[
            "mkdir /root", "open /root", "mkfile /root/a", "mkfile /root/ab", "mkfile /root/a%", "mkfile /root/a_",
            "mkfile /root/%", "mkfile /root/_", "mkfile /root/a~b", "mkfile /root/é/名", "mkfile /root/a.d/x",
            "created /root/ab 10 n-9000", "created /root/a 10 n-8000", "created /root/a% 10 n-7000",
            "created /root/a_ 10 n-6000", "created /root/% 10 n-5000", "created /root/_ 10 n-4000",
            "created /root/a~b 10 n-3000", "created /root/é/名 10 n-2000", "created /root/a.d/x 10 n-1000",
            "accessed /root/% n-100", "deleted /root/_", "maxsize 60", "evict", "accessed /root/a_ n-50",
            "maxsize 30", "evict", "restart", "maxsize 0", "evict", "close",
        ]));
        // trigger + finish() without waiting: the pass runs completely or not at all
        v.push(fixed("f-race", &[
            "mkdir /root", "open /root", "mkfile /root/a", "mkfile /root/b", "mkfile /root/c", "mkfile /root/d",
            "created /root/a 10 n-4000", "created /root/b 20 n-3000", "created /root/c 30 n-2000",
            "created /root/d 40 n-1000", "maxsize 0", "evictrace", "open /root", "close",
        ]));
        // excluded points of C15_confined / C15_bookkeeping (rows recorded for paths that did not resolve)
        v.push(fixed("x-dotdot-absent", &[
            "mkdir /root", "open /root", "mkfile /out/s1", "created /root/../out/x 1000 n-9000", "maxsize 0",
            "evict", "close",
        ]));
        v.push(fixed("x-dotdot-dangling-symlink", &[
            "mkdir /root", "open /root", "mkfile /out/s1", "created /root/../out/x 1000 n-9000",
            "symlink /out/x /void/zzz", "maxsize 0", "evict", "close",
        ]));
        v.push(fixed("x-dotdot-regular-file", &[
            "mkdir /root", "open /root", "mkfile /out/s1", "mkfile /root/a", "created /root/a 5 n-100",
            "created /root/../out/y 1000 n-9000", "mkfile /out/y", "maxsize 0", "evict", "accessed /root/a n-1",
            "restart", "evict", "close",
        ]));
        v.push(fixed("x-dirlink-dangling", &[
            "mkdir /root", "mkfile /out/s1", "symlink /root/dl /out", "open /root",
            "created /root/dl/z 10 n-9000", "symlink /out/z /void/zzz", "maxsize 0", "evict", "close",
        ]));
        v.push(fixed("x-symlink-planted-later", &[
            "mkdir /root", "open /root", "mkfile /out/s1", "mkfile /root/a", "created /root/a 10 n-9000",
            "rm /root/a", "symlink /root/a /out/s1", "maxsize 0", "evict", "close",
        ]));
        v.push(fixed("x-alias-absent-never-forgotten", &[
            "mkdir /root/d2", "symlink /root/lin /root/d2", "open /root", "created /root/lin/late 10 n-9000",
            "maxsize 0", "evict", "evict", "close",
        ]));
        v.push(fixed("x-dirlink-absent", &[
            "mkdir /root", "mkfile /out/s1", "symlink /root/dl /out", "open /root",
            "created /root/dl/z 10 n-9000", "maxsize 0", "evict", "accessed /root/dl/z n-1", "close",
        ]));
        v.push(fixed("x-alias-late-file", &[
            "mkdir /root/d2", "symlink /root/lin /root/d2", "open /root", "created /root/lin/late 10 n-9000",
            "mkfile /root/d2/late", "maxsize 0", "evict", "evict", "close",
        ]));
        v
    }
    fn generate(&self, rng: &mut Rng, tier: Tier, index: u64) -> Vec<String> {
        gen_case(rng, index, tier)
    }
    fn execute(&self, ops: &[String], stats: &mut Stats) -> Vec<String> {
        // `evictrace`: the unbiased `select!` of the eviction task may see the stop signal first, then no
        // pass runs at all (legitimate). The case is repeated until every race of the case ran its pass
        // (observable change) — at most 40 times, after which the unchanged observation is what is
        // reported (a pass with nothing to do). A pass that was *cut short* changes the state and is
        // reported as observed.
        let mut ticks = 0;
        let mut races = 0;
        let mut last = None;
        while ticks < 30 && races < 40 {
            match run_once(ops, stats) {
                Once::Ticked => ticks += 1,
                Once::Done(out, false) => {
                    if ticks > 0 {
                        stats.add("reruns_after_clock_tick", ticks);
                    }
                    if races > 0 {
                        stats.add("reruns_after_lost_race", races);
                    }
                    return out;
                }
                Once::Done(out, true) => {
                    races += 1;
                    last = Some(out);
                }
            }
        }
        if let Some(out) = last {
            stats.bump("race_never_ran_a_pass");
            return out;
        }
        vec!["clock-tick-retries-exhausted".to_string()]
    }
    fn nontrivial(&self, ops: &[String], out: &[String]) -> bool {
        // at least one eviction pass that changed the inventory
        let mut prev: Option<&str> = None;
        for (o, l) in ops.iter().zip(out.iter()) {
            let inv = l.split(" | ").nth(1);
            if o.starts_with("evict") {
                if let (Some(a), Some(b)) = (prev, inv) {
                    if a != b {
                        return true;
                    }
                }
            }
            prev = inv;
        }
        false
    }
    fn setup(&self, _tier: Tier) {
        let _ = std::fs::remove_dir_all(work_root());
        std::fs::create_dir_all(work_root()).unwrap();
    }
    fn teardown(&self) {
        let _ = std::fs::remove_dir_all(work_root());
    }
}

fn main() {
    verif_harness::runner::run_main(&C15);
}
