//! C18 — drives the real local web server: `samply load <profile> --no-open --port N+` subprocesses
//! (binary from env `SAMPLY_VERIF_BIN`, built by bin/check from the repository's working tree), raw
//! HTTP/1.1 over `std::net::TcpStream`; and the real `nix_base32::to_nix_base32` for the `enc` ops.
//!
//! ops / out: see lean/SamplyModel/Iface/C18.lean. One case = the requests of ONE connection.
//! The request-target is a template over the per-run secret token (`{T}`, `{U}`, `{X:k}` …) which this
//! file expands with the real token parsed from the URL the server prints, so that the op lines are
//! the same in every run although the token never is.
use std::collections::HashMap;
use std::io::{BufRead, BufReader, Read, Write};
use std::net::TcpStream;
use std::os::unix::process::CommandExt;
use std::path::PathBuf;
use std::process::{Child, Command, Stdio};
use std::sync::{Arc, Mutex};
use std::time::Duration;
use verif_harness::common::*;

const ALPHABET: &[u8] = b"0123456789abcdfghijklmnpqrsvwxyz";
const PROFILE_JSON: &str =
    "{\"meta\":{\"product\":\"c18-secret-profile\",\"interval\":1,\"version\":24},\"libs\":[],\"threads\":[]}\n";

struct Server {
    child: Mutex<Child>,
    port: u16,
    token: String,
    /// the bytes of the file being served
    file_bytes: Vec<u8>,
}

impl Drop for Server {
    fn drop(&mut self) {
        if let Ok(mut c) = self.child.lock() {
            let _ = c.kill();
            let _ = c.wait();
        }
    }
}

pub struct C18 {
    servers: Mutex<HashMap<String, Arc<Server>>>,
    counter: Mutex<u32>,
}

fn tmp_dir() -> PathBuf {
    let root = std::env::var("VERIF_ROOT").unwrap_or_else(|_| ".".to_string());
    let d = PathBuf::from(root).join(".work").join("C18").join("tmp").join(format!("{}", std::process::id()));
    std::fs::create_dir_all(&d).expect("tmp dir");
    d
}

fn samply_bin() -> String {
    std::env::var("SAMPLY_VERIF_BIN").expect("SAMPLY_VERIF_BIN not set (run through bin/check)")
}

fn percent_decode(s: &str) -> String {
    let b = s.as_bytes();
    let mut out = Vec::new();
    let mut i = 0;
    while i < b.len() {
        if b[i] == b'%' && i + 3 <= b.len() {
            if let Ok(v) = u8::from_str_radix(&s[i + 1..i + 3], 16) {
                out.push(v);
                i += 3;
                continue;
            }
        }
        out.push(b[i]);
        i += 1;
    }
    String::from_utf8_lossy(&out).to_string()
}

impl C18 {
    /// `kind`: j = profile.json, z = prof-x.json.gz, d = profile.json deleted after start-up,
    /// e = profile.json with `PROFILER_URL=http://localhost:4242/` in the environment,
    /// anything else = a throw-away server for the token statistics.
    fn start_server(&self, kind: &str) -> Server {
        let n = {
            let mut c = self.counter.lock().unwrap();
            *c += 1;
            *c
        };
        let dir = tmp_dir().join(format!("s{n}"));
        std::fs::create_dir_all(&dir).unwrap();
        let (path, bytes) = if kind == "z" {
            // a basename of its own: the URL path is `/profile.json` whatever the file is called, and
            // nothing is served under the file's name (probed as /prof-x.json.gz, /prof-x.json)
            let p = dir.join("prof-x.json.gz");
            let mut enc = flate2::write::GzEncoder::new(Vec::new(), flate2::Compression::default());
            enc.write_all(PROFILE_JSON.as_bytes()).unwrap();
            let gz = enc.finish().unwrap();
            (p, gz)
        } else {
            (dir.join("profile.json"), PROFILE_JSON.as_bytes().to_vec())
        };
        std::fs::write(&path, &bytes).unwrap();
        let base = 21000 + (std::process::id() % 300) as u16 * 100;
        let mut cmd = Command::new(samply_bin());
        cmd.arg("load").arg(&path).arg("--no-open").arg("--port").arg(format!("{base}+"));
        if kind == "e" {
            // the documented override of the profiler origin (server.rs:79-83): only the landing page's
            // links change; requests with `Origin: http://localhost:4242` are in the header pool
            cmd.env("PROFILER_URL", "http://localhost:4242/");
        } else {
            cmd.env_remove("PROFILER_URL");
        }
        cmd.stdin(Stdio::null()).stdout(Stdio::piped()).stderr(Stdio::null());
        // do not leave servers behind if the harness dies
        unsafe {
            cmd.pre_exec(|| {
                libc::prctl(libc::PR_SET_PDEATHSIG, libc::SIGKILL);
                Ok(())
            });
        }
        let mut child = cmd.spawn().expect("spawn samply load");
        let stdout = child.stdout.take().unwrap();
        let mut rd = BufReader::new(stdout);
        let mut line = String::new();
        rd.read_line(&mut line).expect("read URL line");
        // keep draining stdout ("Error serving connection …" lines) so the server never blocks on it
        std::thread::spawn(move || {
            let mut sink = Vec::new();
            let _ = rd.read_to_end(&mut sink);
        });
        // …/?symbolServer=http%3A%2F%2F127.0.0.1%3A<port>%2F<token>
        let enc = line.trim().rsplit("symbolServer=").next().unwrap_or("");
        let url = percent_decode(enc);
        let rest = url.strip_prefix("http://").unwrap_or_else(|| panic!("unexpected URL line {line:?}"));
        let (hostport, token) = rest.split_once('/').unwrap_or_else(|| panic!("unexpected URL line {line:?}"));
        let port: u16 = hostport.rsplit(':').next().and_then(|p| p.parse().ok()).expect("port");
        if kind == "d" {
            std::fs::remove_file(&path).unwrap();
        }
        Server { child: Mutex::new(child), port, token: token.to_string(), file_bytes: bytes }
    }

    fn server(&self, kind: &str) -> Arc<Server> {
        let mut m = self.servers.lock().unwrap();
        if let Some(s) = m.get(kind) {
            return s.clone();
        }
        // the templates {U}/{C:k} need a letter in the token; a token of 39 digits has probability
        // (10/32)^39 — restart in that case so that the op lines mean the same in every run
        let mut s = self.start_server(kind);
        while !s.token.bytes().any(|b| b.is_ascii_alphabetic()) {
            s = self.start_server(kind);
        }
        let s = Arc::new(s);
        m.insert(kind.to_string(), s.clone());
        s
    }
}

// ---------------------------------------------------------------------------------------------
// token templates (mirror of C18.expand in lean/SamplyModel/Iface/C18.lean)

fn expand_spec(tok: &str, spec: &str) -> String {
    let t: Vec<u8> = tok.bytes().collect();
    let n = t.len();
    let parts: Vec<&str> = spec.split(':').collect();
    let num = |s: &str| s.parse::<usize>().unwrap_or(0);
    let s = |v: Vec<u8>| String::from_utf8_lossy(&v).to_string();
    match parts.as_slice() {
        ["T"] => tok.to_string(),
        ["T", a, b] => {
            let (a, b) = (num(a).min(n), num(b).min(n));
            if a >= b {
                String::new()
            } else {
                s(t[a..b].to_vec())
            }
        }
        ["U"] => tok.to_ascii_uppercase(),
        ["C", k] => {
            let idxs: Vec<usize> = (0..n).filter(|&i| t[i].is_ascii_alphabetic()).collect();
            if idxs.is_empty() {
                return tok.to_string();
            }
            let i = idxs[num(k) % idxs.len()];
            let mut v = t.clone();
            v[i] = v[i].to_ascii_uppercase();
            s(v)
        }
        ["X", k] if n > 0 => {
            let i = num(k) % n;
            let pos = ALPHABET.iter().position(|&c| c == t[i]).unwrap_or(ALPHABET.len());
            let mut v = t.clone();
            v[i] = ALPHABET[(pos + 1) % ALPHABET.len()];
            s(v)
        }
        ["P", k] if n > 0 => {
            let i = num(k) % n;
            format!("{}%{:02x}{}", &tok[..i], t[i], &tok[i + 1..])
        }
        ["D", k] if n > 0 => {
            let i = num(k) % n;
            format!("{}{}", &tok[..i], &tok[i + 1..])
        }
        ["I", k] if n > 0 => {
            let i = num(k) % n;
            let pos = ALPHABET.iter().position(|&c| c == t[i]).unwrap_or(ALPHABET.len());
            format!("{}{}{}", &tok[..i], ALPHABET[(pos + 1) % ALPHABET.len()] as char, &tok[i..])
        }
        ["X", _] | ["P", _] | ["D", _] | ["I", _] => tok.to_string(),
        _ => format!("{{{spec}}}"),
    }
}

fn expand(tok: &str, tmpl: &str) -> String {
    let mut out = String::new();
    let mut pieces = tmpl.split('{');
    out.push_str(pieces.next().unwrap_or(""));
    for piece in pieces {
        match piece.split_once('}') {
            Some((spec, lit)) => {
                out.push_str(&expand_spec(tok, spec));
                out.push_str(lit);
            }
            None => out.push_str(&expand_spec(tok, piece)),
        }
    }
    out
}

// ---------------------------------------------------------------------------------------------
// raw HTTP/1.1

struct HttpResp {
    status: u16,
    headers: Vec<(String, String)>,
    body: Vec<u8>,
}

enum ReadErr {
    Closed,
    Timeout,
    Malformed,
}

struct Conn {
    stream: TcpStream,
    buf: Vec<u8>,
}

impl Conn {
    fn fill(&mut self) -> Result<usize, ReadErr> {
        let mut tmp = [0u8; 16384];
        match self.stream.read(&mut tmp) {
            Ok(0) => Ok(0),
            Ok(n) => {
                self.buf.extend_from_slice(&tmp[..n]);
                Ok(n)
            }
            Err(e) if e.kind() == std::io::ErrorKind::WouldBlock || e.kind() == std::io::ErrorKind::TimedOut => {
                Err(ReadErr::Timeout)
            }
            Err(_) => Ok(0), // connection reset = closed
        }
    }
    fn read_line(&mut self) -> Result<String, ReadErr> {
        loop {
            if let Some(p) = self.buf.windows(2).position(|w| w == b"\r\n") {
                let line: Vec<u8> = self.buf.drain(..p + 2).collect();
                return Ok(String::from_utf8_lossy(&line[..p]).to_string());
            }
            if self.fill()? == 0 {
                return Err(if self.buf.is_empty() { ReadErr::Closed } else { ReadErr::Malformed });
            }
        }
    }
    fn read_exact_n(&mut self, n: usize) -> Result<Vec<u8>, ReadErr> {
        while self.buf.len() < n {
            if self.fill()? == 0 {
                return Err(ReadErr::Malformed);
            }
        }
        Ok(self.buf.drain(..n).collect())
    }
    fn read_response(&mut self, head_request: bool) -> Result<HttpResp, ReadErr> {
        let status_line = self.read_line()?;
        let mut w = status_line.split_whitespace();
        if !w.next().map(|v| v.starts_with("HTTP/1.")).unwrap_or(false) {
            return Err(ReadErr::Malformed);
        }
        let status: u16 = w.next().and_then(|s| s.parse().ok()).ok_or(ReadErr::Malformed)?;
        let mut headers = Vec::new();
        loop {
            let l = match self.read_line() {
                Ok(l) => l,
                Err(ReadErr::Closed) => return Err(ReadErr::Malformed),
                Err(e) => return Err(e),
            };
            if l.is_empty() {
                break;
            }
            let (k, v) = l.split_once(':').ok_or(ReadErr::Malformed)?;
            headers.push((k.trim().to_ascii_lowercase(), v.trim().to_string()));
        }
        let get = |k: &str| headers.iter().find(|(n, _)| n == k).map(|(_, v)| v.clone());
        let mut body = Vec::new();
        if head_request || status == 204 || status == 304 || (100..200).contains(&status) {
            // no body
        } else if get("transfer-encoding").map(|v| v.to_ascii_lowercase().contains("chunked")).unwrap_or(false) {
            loop {
                let l = self.read_line().map_err(|_| ReadErr::Malformed)?;
                let n = usize::from_str_radix(l.split(';').next().unwrap_or("").trim(), 16).map_err(|_| ReadErr::Malformed)?;
                if n == 0 {
                    // trailers until the empty line
                    loop {
                        let t = self.read_line().map_err(|_| ReadErr::Malformed)?;
                        if t.is_empty() {
                            break;
                        }
                    }
                    break;
                }
                body.extend(self.read_exact_n(n)?);
                let _ = self.read_exact_n(2)?;
            }
        } else if let Some(cl) = get("content-length") {
            let n: usize = cl.parse().map_err(|_| ReadErr::Malformed)?;
            body = self.read_exact_n(n)?;
        } else {
            loop {
                if self.fill()? == 0 {
                    break;
                }
            }
            body = std::mem::take(&mut self.buf);
        }
        Ok(HttpResp { status, headers, body })
    }
}

struct ReqOp {
    cfg: String,
    method: String,
    target_tmpl: String,
    acrm: Option<String>,
    acrh: Option<String>,
    origin: Option<String>,
    body: Option<Vec<u8>>,
    /// `c=<k>`: connection number within the case
    conn: usize,
    /// `v=1.0`
    http10: bool,
    /// `nohost`: no automatic Host header
    nohost: bool,
    /// `h=<Name>:<value template>` in op order
    extra: Vec<(String, String)>,
    /// `te=chunked`: the body is sent with chunked transfer-encoding
    chunked: bool,
    /// `pipe`: written together with the next request of the connection before any response is read
    pipe: bool,
    /// header values after template expansion (filled in when the request is sent)
    acrh_sent: Vec<String>,
}

fn field(w: &str, pre: &str) -> Option<Option<String>> {
    let v = w.strip_prefix(pre)?;
    Some(if v == "-" { None } else { Some(v.to_string()) })
}

fn parse_req(l: &str) -> Option<ReqOp> {
    let w: Vec<&str> = l.split_whitespace().collect();
    if w.len() < 8 || w[0] != "req" {
        return None;
    }
    let mut op = ReqOp {
        cfg: w[1].to_string(),
        method: w[2].to_string(),
        target_tmpl: w[3].to_string(),
        acrm: field(w[4], "acrm=")?,
        acrh: field(w[5], "acrh=")?,
        origin: field(w[6], "origin=")?,
        body: field(w[7], "body=")?.map(|h| unhex(&h)),
        conn: 0,
        http10: false,
        nohost: false,
        extra: Vec::new(),
        chunked: false,
        pipe: false,
        acrh_sent: Vec::new(),
    };
    for x in &w[8..] {
        if *x == "v=1.0" {
            op.http10 = true;
        } else if *x == "nohost" {
            op.nohost = true;
        } else if *x == "te=chunked" {
            op.chunked = true;
        } else if *x == "pipe" {
            op.pipe = true;
        } else if let Some(k) = x.strip_prefix("c=") {
            op.conn = k.parse().unwrap_or(0);
        } else if let Some(nv) = x.strip_prefix("h=") {
            let (n, v) = nv.split_once(':').unwrap_or((nv, ""));
            op.extra.push((n.to_string(), v.to_string()));
        }
    }
    Some(op)
}

fn classify(r: &HttpResp, op: &ReqOp, srv: &Server, stats: &mut Stats) -> String {
    let vals = |k: &str| -> Vec<&str> { r.headers.iter().filter(|(n, _)| n == k).map(|(_, v)| v.as_str()).collect() };
    let class = |k: &str, f: &dyn Fn(&str) -> Option<&'static str>| -> String {
        let v = vals(k);
        match v.as_slice() {
            [] => "-".to_string(),
            [one] => f(one).unwrap_or("other").to_string(),
            _ => "other".to_string(),
        }
    };
    let acao = class("access-control-allow-origin", &|v| if v == "*" { Some("*") } else { None });
    let acam = class("access-control-allow-methods", &|v| if v == "POST, GET, OPTIONS" { Some("std") } else { None });
    let acma = class("access-control-max-age", &|v| if v == "86400" { Some("86400") } else { None });
    // `echo` = the first Access-Control-Request-Headers value of the request (HeaderMap::get)
    let want = op.acrh_sent.first().cloned();
    let acah = class("access-control-allow-headers", &|v| if Some(v.to_string()) == want { Some("echo") } else { None });
    let known = [
        "access-control-allow-origin",
        "access-control-allow-methods",
        "access-control-max-age",
        "access-control-allow-headers",
    ];
    let extra = r.headers.iter().filter(|(n, _)| n.starts_with("access-control-") && !known.contains(&n.as_str())).count();
    let acx = if extra == 0 { "-".to_string() } else { extra.to_string() };
    // further response headers that grant something to other origins
    let xo_n = r.headers.iter().filter(|(n, _)| n == "timing-allow-origin" || n == "cross-origin-resource-policy").count();
    let xo = if xo_n == 0 { "-".to_string() } else { xo_n.to_string() };
    let text = String::from_utf8_lossy(&r.body);
    let body = if r.body.is_empty() {
        "empty"
    } else if r.body == srv.file_bytes || r.body == PROFILE_JSON.as_bytes() || text.contains("c18-secret-profile") {
        "profile"
    } else if text.contains("<title>Profiler Symbol Server</title>") {
        if text.contains("Download the raw profile JSON") {
            "landing-p"
        } else {
            "landing-n"
        }
    } else if serde_json::from_slice::<serde_json::Value>(&r.body).is_ok() {
        "json"
    } else {
        "other"
    };
    if body.starts_with("landing") && text.contains(&srv.token) {
        // by design (server.rs:166-171 substitutes PATH_PREFIX / PROFILE_URL); recorded as an observation
        stats.bump("landing_page_discloses_token");
    }
    stats.bump(&format!("resp_status_{}", r.status));
    stats.bump(&format!("resp_body_{body}"));
    if acao != "-" || acam != "-" || acma != "-" || acah != "-" || acx != "-" || xo != "-" {
        stats.bump("resp_with_cors_header");
    } else {
        stats.bump("resp_without_cors_header");
    }
    format!("r status={} acao={acao} acam={acam} acma={acma} acah={acah} acx={acx} xo={xo} body={body}", r.status)
}

/// one connection of a case
struct ConnState {
    conn: Option<Conn>,
    dead: bool,
    /// requests written whose responses have not been read yet: (output index, request, written ok)
    pending: Vec<(usize, ReqOp, bool)>,
    srv: Arc<Server>,
}

impl ConnState {
    /// read the responses of all written requests, in order
    fn flush(&mut self, out: &mut [Option<String>], stats: &mut Stats) {
        let pending = std::mem::take(&mut self.pending);
        for (idx, op, wrote) in pending {
            if self.dead {
                stats.bump("closed_connection_already_dead");
                out[idx] = Some("closed".to_string());
                continue;
            }
            let c = self.conn.as_mut().unwrap();
            // (a failed write: the peer has closed; whatever it sent before is still readable)
            match c.read_response(op.method == "HEAD") {
                Ok(r) => {
                    let conn_hdr = |want: &str| r.headers.iter().any(|(k, v)| k == "connection" && v.eq_ignore_ascii_case(want));
                    let closes = conn_hdr("close") || (op.http10 && !conn_hdr("keep-alive"));
                    out[idx] = Some(classify(&r, &op, &self.srv, stats));
                    if closes {
                        self.dead = true;
                    }
                }
                Err(ReadErr::Closed) => {
                    self.dead = true;
                    stats.bump("closed_without_response");
                    out[idx] = Some("closed".to_string());
                }
                Err(ReadErr::Timeout) => {
                    self.dead = true;
                    out[idx] = Some("timeout".to_string());
                }
                Err(ReadErr::Malformed) => {
                    self.dead = true;
                    out[idx] = Some("malformed-response".to_string());
                }
            }
            if !wrote {
                self.dead = true;
            }
        }
    }
}

// ---------------------------------------------------------------------------------------------
// source anchor of the clause that cannot be observed: where the token's bytes come from

fn strip_rust_comments(src: &str) -> String {
    let b = src.as_bytes();
    let mut out = String::new();
    let mut i = 0;
    while i < b.len() {
        if b[i] == b'/' && i + 1 < b.len() && b[i + 1] == b'/' {
            while i < b.len() && b[i] != b'\n' {
                i += 1;
            }
        } else if b[i] == b'/' && i + 1 < b.len() && b[i + 1] == b'*' {
            i += 2;
            while i + 1 < b.len() && !(b[i] == b'*' && b[i + 1] == b'/') {
                i += 1;
            }
            i += 2;
        } else {
            out.push(b[i] as char);
            i += 1;
        }
    }
    out
}

/// Shape of `fn generate_token` in samply/src/server.rs of the tree the binary under test was built
/// from (`VERIF_REPO`), with whitespace and comments removed:
/// `{ let mut B = [0u8; N]; RNG.fill_bytes(&mut B); nix_base32::to_nix_base32(&B) }`.
fn anchor_generate_token() -> String {
    let repo = std::env::var("VERIF_REPO").unwrap_or_else(|_| {
        let root = std::env::var("VERIF_ROOT").unwrap_or_else(|_| ".".to_string());
        format!("{root}/repo-link")
    });
    let pre = "anchor generate_token";
    let Ok(src) = std::fs::read_to_string(PathBuf::from(&repo).join("samply/src/server.rs")) else {
        return format!("{pre} fn=unreadable");
    };
    let src: String = strip_rust_comments(&src);
    let flat: String = src.chars().filter(|c| !c.is_whitespace()).collect();
    let shadow = ["modrand{", "modrand;", "asrand;", "asrand,", "asrand}", "externcraterand", "fnrand(", "macro_rules!rand"]
        .iter()
        .any(|p| flat.contains(p))
        || flat.matches("fngenerate_token(").count() != 1;
    let shadow = if shadow { "yes" } else { "no" };
    let Some(start) = flat.find("fngenerate_token()->String{") else {
        return format!("{pre} fn=missing");
    };
    let body_start = start + "fngenerate_token()->String".len();
    let mut depth = 0i32;
    let mut end = None;
    for (k, ch) in flat[body_start..].char_indices() {
        if ch == '{' {
            depth += 1;
        } else if ch == '}' {
            depth -= 1;
            if depth == 0 {
                end = Some(body_start + k);
                break;
            }
        }
    }
    let Some(end) = end else {
        return format!("{pre} fn=changed");
    };
    let body = &flat[body_start + 1..end];
    let changed = format!("{pre} fn=changed");
    let ident = |s: &str| -> String { s.chars().take_while(|c| c.is_ascii_alphanumeric() || *c == '_').collect() };
    let Some(r) = body.strip_prefix("letmut") else { return changed };
    let buf = ident(r);
    if buf.is_empty() {
        return changed;
    }
    let Some(r) = r[buf.len()..].strip_prefix("=[0u8;") else { return changed };
    let n: String = r.chars().take_while(|c| c.is_ascii_digit()).collect();
    let Some(r) = r[n.len()..].strip_prefix("];") else { return changed };
    let Some((stmt2, stmt3)) = r.split_once(';') else { return changed };
    let (rng, fill) = if let Some(k) = stmt2.find(".try_fill_bytes(") {
        let arg_rest = &stmt2[k + ".try_fill_bytes(".len()..];
        let whole = arg_rest == format!("&mut{buf}).unwrap()") || (arg_rest.starts_with(&format!("&mut{buf}).expect(")) && arg_rest.ends_with(')'));
        (&stmt2[..k], format!("try_fill_bytes:{}", if whole { "whole" } else { "partial" }))
    } else if let Some(k) = stmt2.find(".fill_bytes(") {
        let arg_rest = &stmt2[k + ".fill_bytes(".len()..];
        let whole = arg_rest == format!("&mut{buf})");
        (&stmt2[..k], format!("fill_bytes:{}", if whole { "whole" } else { "partial" }))
    } else {
        return changed;
    };
    let enc = if stmt3 == format!("nix_base32::to_nix_base32(&{buf})") { "to_nix_base32:whole" } else { "other" };
    let rng: String = rng.chars().map(|c| if c.is_ascii_graphic() { c } else { '?' }).collect();
    format!("{pre} fn=found buf={n} rng={rng} fill={fill} enc={enc} shadow={shadow}")
}

// ---------------------------------------------------------------------------------------------
// generators

const METHODS: [&str; 9] = ["GET", "POST", "OPTIONS", "HEAD", "PUT", "DELETE", "PATCH", "get", "PROPFIND"];
/// (acrm, acrh, origin)
const HEADER_SETS: [(&str, &str, &str); 6] = [
    ("-", "-", "-"),
    ("-", "-", "http://evil.example"),
    ("POST", "-", "http://evil.example"),
    ("POST", "content-type,x-foo", "https://profiler.firefox.com"),
    ("-", "content-type", "-"),
    ("GET", "*", "null"),
];
/// further origins: the profiler's own origins (default and the PROFILER_URL override of server `e`),
/// local development servers, the server's own origin
const ORIGINS: [&str; 10] = [
    "-",
    "http://evil.example",
    "null",
    "https://profiler.firefox.com",
    "http://localhost:4242",
    "http://localhost:3000",
    "http://127.0.0.1:{PORT}",
    "http://localhost:{PORT}",
    "https://deploy-preview-1--perf-html.netlify.app",
    "http://[::1]:{PORT}",
];
/// further request header fields (`+` = space): the token in every place a "second credential channel"
/// could look for it, proxy / rewrite headers, fetch metadata, private-network preflight, duplicate and
/// case-varied Access-Control-Request-*, conditional / range requests
const EXTRA_HEADERS: [&str; 34] = [
    "h=Authorization:Bearer+{T}",
    "h=Authorization:Basic+{T}",
    "h=Referer:http://127.0.0.1:{PORT}/{T}/",
    "h=Referer:https://profiler.firefox.com/from-url/http%3A%2F%2F127.0.0.1%3A{PORT}%2F{T}%2Fprofile.json",
    "h=Cookie:token={T}",
    "h=Cookie:samply={T};+path=/{T}",
    "h=X-Original-URL:/{T}/profile.json",
    "h=X-Rewrite-URL:/{T}/symbolicate/v5",
    "h=X-Forwarded-Prefix:/{T}",
    "h=X-Forwarded-Uri:/{T}/profile.json",
    "h=X-Samply-Token:{T}",
    "h=Token:{T}",
    "h=Access-Control-Request-Headers:x-second",
    "h=access-control-request-headers:{T}",
    "h=ACCESS-CONTROL-REQUEST-METHOD:GET",
    "h=access-control-request-method:{T}",
    "h=Access-Control-Request-Private-Network:true",
    "h=Sec-Fetch-Site:same-origin",
    "h=Sec-Fetch-Site:cross-site",
    "h=Sec-Fetch-Mode:cors",
    "h=Sec-Fetch-Dest:empty",
    "h=X-Requested-With:XMLHttpRequest",
    "h=Forwarded:for=127.0.0.1;host=localhost;proto=http",
    "h=X-Forwarded-For:127.0.0.1",
    "h=X-Forwarded-Host:localhost:{PORT}",
    "h=Upgrade-Insecure-Requests:1",
    "h=Content-Type:application/json",
    "h=Accept:application/json,*/*;q=0.8",
    "h=Range:bytes=0-10",
    "h=If-None-Match:*",
    "h=User-Agent:Mozilla/5.0+{T}",
    "h=Connection:keep-alive",
    "h=Origin:http://localhost:4242",
    "h=X-HTTP-Method-Override:GET",
];
/// the Host header varied (DNS-rebinding shape, token as host, none at all)
const HOSTS: [&str; 5] = ["nohost", "nohost h=Host:evil.example", "nohost h=Host:{T}", "nohost h=Host:localhost:{PORT}", "nohost h=Host:127.0.0.1:{PORT}+"];
/// targets of the header / HTTP-shape families: outside the prefix …
const OUTSIDE_TARGETS: [&str; 14] = [
    "/",
    "/profile.json",
    "/symbolicate/v5",
    "/prof-x.json.gz",
    "/prof-x.json",
    "/?token={T}",
    "/profile.json?token={T}",
    "/symbolicate/v5?token={T}&path=/{T}/",
    "/{U}/profile.json",
    "/{T:0:38}/profile.json",
    "//{T}/profile.json",
    "/{X:0}/symbolicate/v5",
    "*",
    "http://localhost:4242/{X:38}/profile.json",
];
/// … and under it
const UNDER_TARGETS: [&str; 6] = ["/{T}/profile.json", "/{T}/symbolicate/v5", "/{T}/", "/{T}/prof-x.json.gz", "/{T}", "http://127.0.0.1:8080/{T}/profile.json"];

const API_SUFFIXES: [&str; 12] = [
    "",
    "/",
    "/profile.json",
    "/symbolicate/v5",
    "/source/v1",
    "/asm/v1",
    "/zzz",
    "x",
    "/profile.json/",
    "/profile.json?x=1",
    "//profile.json",
    "/PROFILE.JSON",
];
const SYMBOLICATE_BODY: &str = "{\"jobs\":[{\"memoryMap\":[],\"stacks\":[[]]}]}";

fn req_line(cfg: &str, method: &str, target: &str, hs: (&str, &str, &str), body: Option<&[u8]>) -> String {
    let b = match body {
        None => "-".to_string(),
        Some(b) if b.is_empty() => "-".to_string(),
        Some(b) => hex(b),
    };
    format!("req {cfg} {method} {target} acrm={} acrh={} origin={} body={b}", hs.0, hs.1, hs.2)
}

/// `req_line` plus trailing words (`c=<k>`, `v=1.0`, `nohost`, `h=…`, `te=chunked`, `pipe`)
fn req_line_x(cfg: &str, method: &str, target: &str, hs: (&str, &str, &str), body: Option<&[u8]>, extra: &str) -> String {
    let l = req_line(cfg, method, target, hs, body);
    if extra.is_empty() {
        l
    } else {
        format!("{l} {extra}")
    }
}

fn default_body(method: &str) -> Option<&'static [u8]> {
    if method == "POST" {
        Some(SYMBOLICATE_BODY.as_bytes())
    } else {
        None
    }
}

/// every request-target family of DESIGN.md §7 C18 / Appendix B
fn boundary_targets() -> Vec<String> {
    let mut v: Vec<String> = Vec::new();
    // the token path and what lives under it
    for s in API_SUFFIXES {
        v.push(format!("/{{T}}{s}"));
    }
    for s in ["/./profile.json", "/../profile.json", "/../{T}/profile.json", "%2fprofile.json", "/profile%2ejson", "#/profile.json", "?/profile.json"] {
        v.push(format!("/{{T}}{s}"));
    }
    // no token at all
    for s in [
        "/", "/profile.json", "/symbolicate/v5", "/source/v1", "/asm/v1", "/index.html", "//", "/.", "/..", "/?", "/?x=1", "/#", "*",
        "/?{T}", "/?/{T}/profile.json", "/#/{T}/profile.json", "/?path=/{T}/symbolicate/v5",
    ] {
        v.push(s.to_string());
    }
    // the token as a query parameter; the served file's own name (server `z`: prof-x.json.gz)
    for s in ["/?token={T}", "/profile.json?token={T}", "/symbolicate/v5?token={T}", "/prof-x.json.gz", "/prof-x.json", "/{T}/prof-x.json.gz", "/{T}/prof-x.json"] {
        v.push(s.to_string());
    }
    // bytes httparse rejects (DEL) although `http::Uri` would take them; non-ASCII; characters `Uri` rejects
    for s in ["/\u{7f}", "/{T}/\u{7f}", "/{T}\u{7f}/profile.json", "/\u{e9}", "/{T}/\u{e9}", "/{T}/profile.json?\u{e9}", "/{T}/<", "/{T}/profile.json?<", "/{T}/profile.json#<", "/<{T}/profile.json", "/{T}/\"", "/{T}/`"] {
        v.push(s.to_string());
    }
    // absolute-form with other schemes, userinfo, ports, IPv6 literals; what the URI parser rejects
    for s in [
        "https://h.example/{T}/profile.json",
        "HTTPS://h.example/{T}/symbolicate/v5",
        "ftp://h/{T}/profile.json",
        "x+y.z-w~://u:p@h:80/{T}/profile.json",
        "http://[::1]:8080/{T}/profile.json",
        "http://u%41@h/{T}/profile.json",
        "://h/{T}/profile.json",
        "https://{T}/profile.json",
        "https://h.example//{T}/profile.json",
        "https://h.example/{U}/profile.json",
        "https://h.example?/{T}/profile.json",
        "http:///{T}/profile.json",
        "http://h%41/{T}/profile.json",
        "http://h@/{T}/profile.json",
        "http://a:b:c/{T}/profile.json",
        "http://[::1/{T}/profile.json",
        "h:80/{T}/profile.json",
        "h:80",
        "//h/{T}/profile.json",
        "http:/{T}/profile.json",
        "mailto:{T}",
    ] {
        v.push(s.to_string());
    }
    // decorations in front of the token
    for pre in ["//", "/./", "/../", "/x/../", "/x/", "/%2f", "/%2F", "/%2e/", "/;/", "/\\", "/@", "/:"] {
        v.push(format!("{pre}{{T}}/profile.json"));
        v.push(format!("{pre}{{T}}/symbolicate/v5"));
    }
    // case, percent-encoding, one character changed / deleted / doubled
    v.push("/{U}/profile.json".to_string());
    v.push("/{U}/symbolicate/v5".to_string());
    v.push("/{U}".to_string());
    for k in 0..4 {
        v.push(format!("/{{C:{k}}}/profile.json"));
    }
    for k in 0..39 {
        v.push(format!("/{{X:{k}}}/profile.json"));
        v.push(format!("/{{P:{k}}}/profile.json"));
    }
    for k in [0, 1, 19, 37, 38] {
        v.push(format!("/{{D:{k}}}/profile.json"));
        v.push(format!("/{{I:{k}}}/profile.json"));
        v.push(format!("/{{X:{k}}}/symbolicate/v5"));
        v.push(format!("/{{C:{k}}}/symbolicate/v5"));
    }
    // every proper prefix of the token path, alone and followed by the API paths; suffixes of the token
    for n in 0..39 {
        v.push(format!("/{{T:0:{n}}}"));
        v.push(format!("/{{T:0:{n}}}/profile.json"));
    }
    for n in [1, 2, 20, 38] {
        v.push(format!("/{{T:{n}:39}}/profile.json"));
        v.push(format!("/{{T:0:{n}}}/symbolicate/v5"));
        v.push(format!("/{{T:0:{n}}}/{{T:{n}:39}}/profile.json"));
    }
    v.push("/{T:0:20}%00{T:20:39}/profile.json".to_string());
    // absolute-form, authority-form and malformed request-targets
    for s in [
        "http://127.0.0.1/{T}/profile.json",
        "http://evil.example/{T}/symbolicate/v5",
        "http://{T}/profile.json",
        "http://{T}",
        "http://x.example",
        "http://x.example?/{T}/profile.json",
        "http://x.example/?/{T}/profile.json",
        "http://x.example/{U}/profile.json",
        "http://x.example//{T}/profile.json",
        "{T}",
        "{T}/profile.json",
        "x/{T}/profile.json",
    ] {
        v.push(s.to_string());
    }
    v
}

const GARBAGE: &[u8] = b"abcxyzABCXYZ0189-._~!$&'()*+,;=:@%/|\\[]^<>\"`";

fn random_target(rng: &mut Rng) -> String {
    if rng.chance(1, 4) {
        // the intended use: something directly under the token path
        let suf = if rng.chance(3, 4) {
            rng.pick(&API_SUFFIXES).to_string()
        } else {
            let n = rng.range(1, 10);
            (0..n).map(|_| *rng.pick(GARBAGE) as char).collect()
        };
        return format!("/{{T}}{suf}");
    }
    let tokenish = match rng.below(14) {
        0..=3 => "{T}".to_string(),
        4 => "{U}".to_string(),
        5 => format!("{{C:{}}}", rng.below(40)),
        6 => format!("{{X:{}}}", rng.below(39)),
        7 => format!("{{P:{}}}", rng.below(39)),
        8 => format!("{{D:{}}}", rng.below(39)),
        9 => format!("{{I:{}}}", rng.below(39)),
        10 => {
            let b = rng.range(0, 39);
            format!("{{T:0:{b}}}")
        }
        11 => {
            let a = rng.range(0, 38);
            format!("{{T:{a}:39}}")
        }
        12 => {
            let a = rng.range(1, 38);
            format!("{{T:0:{a}}}{}{{T:{a}:39}}", *rng.pick(&["/", "%2f", ".", "?", "#", "//", "%"]))
        }
        _ => String::new(),
    };
    let pre = *rng.pick(&[
        "/", "/", "/", "/", "/", "//", "/./", "/../", "/x/", "/x/../", "/%2f", "/%2e%2e/", "/?", "/#", "/?p=/", "/;", "", "http://h.example/",
        "http://h.example", "http://h.example?", "http://h.example//", "/profile.json/", "/symbolicate/v5/", "/\\", "/*",
        "https://h.example/", "HTTP://h.example/", "hTTps://h/", "ftp://h/", "x+y.z-w~://u:p@h:80/", "http://[::1]:8080/", "http://u@h/", "://h/", "http:///",
        "http://h:1:2/", "http://h%41/", "http://u%41@h/", "h:80/", "//h/", "http://h@/", "http:/", "/\u{e9}/", "http://h\u{e9}/",
    ]);
    let suf = match rng.below(8) {
        0..=4 => rng.pick(&API_SUFFIXES).to_string(),
        5 => format!("{}{}", rng.pick(&API_SUFFIXES), rng.pick(&["?x", "#y", "?/", "/.."])),
        _ => {
            let n = rng.range(1, 12);
            (0..n).map(|_| *rng.pick(GARBAGE) as char).collect()
        }
    };
    // A piece that is shorter than the token ({D:k}, {T:0:b}) must not be completed to the token by the
    // literal that follows it — whether it would be depends on the run's token. The letters e o u t are
    // outside the alphabet, so they are safe (and interesting) continuations.
    let partial = tokenish.starts_with("{D:") || (tokenish.starts_with("{T:0:") && !tokenish.contains("}{"));
    let suf = if partial && suf.bytes().next().map(|b| ALPHABET.contains(&b)).unwrap_or(false) {
        format!("{}{suf}", *rng.pick(&["e", "o", "u", "t", "-", "_", "E"]))
    } else {
        suf
    };
    let mut t = format!("{pre}{tokenish}{suf}");
    if rng.chance(1, 12) {
        // flip the case of one literal character outside the templates
        let bytes: Vec<u8> = t.bytes().collect();
        let mut depth = 0;
        let cands: Vec<usize> = bytes
            .iter()
            .enumerate()
            .filter(|(_, &b)| {
                if b == b'{' {
                    depth += 1;
                }
                let inside = depth > 0;
                if b == b'}' {
                    depth -= 1;
                }
                !inside && b.is_ascii_alphabetic()
            })
            .map(|(i, _)| i)
            .collect();
        if !cands.is_empty() {
            let i = *rng.pick(&cands);
            let mut b = bytes.clone();
            b[i] ^= 0x20;
            t = String::from_utf8(b).unwrap();
        }
    }
    sanitize(t)
}

/// The model follows `http::Uri::from_shared` for every request-target, so nothing is filtered any more;
/// only an empty target (not expressible in an op line) is replaced.
fn sanitize(t: String) -> String {
    if t.is_empty() {
        "/".to_string()
    } else {
        t
    }
}

// ---------------------------------------------------------------------------------------------
// `uri` ops: byte strings for the in-process comparison of `pathOfTarget` with `http::Uri`

const URI_SCHEMES: [&[u8]; 16] = [b"http", b"https", b"HTTP", b"hTtPs", b"Http", b"ftp", b"a+b.c-d~", b"x", b"", b"1", b"ht tp", b"h\xc3\xa9", b"%", b"htt", b"httpss", b"h_"];
const URI_SEPS: [&[u8]; 8] = [b"://", b"://", b"://", b":/", b":", b"//", b":///", b""];
const URI_AUTHS: [&[u8]; 30] = [
    b"h", b"h.example", b"h:80", b"u:p@h:80", b"u%41:p@h", b"h%41", b"[::1]", b"[::1]:80", b"[::1", b"::1]", b"[[::1]]", b"a:b:c",
    b"[1:2:3:4:5:6:7:8]:80", b"1:2:3:4:5:6:7:8:9", b"[1:2:3:4:5:6:7:8:9]", b"u@", b"@h", b"u@h@i", b"", b"h\xc3\xa9", b"h<", b"h\\", b"h^", b"h_", b"h~!$&'()*+,;=",
    b"[%41]", b"%41@[::1]", b"[::1]%41", b"u:p:q@h", b"0123456789abcdfghijklmnpqrsvwxyz0123456",
];
const URI_PATHS: [&[u8]; 14] = [b"", b"/", b"/tok/profile.json", b"//", b"/a b", b"/%2f", b"/\"{}", b"/<", b"/`", b"/|~^[]\\", b"/\xc3\xa9", b"/\xff", b"/\x7f", b"/*"];
const URI_QUERIES: [&[u8]; 10] = [b"", b"", b"?", b"?x=1", b"?\"", b"?<", b"?{}`|", b"??", b"?\xc3\xa9", b"? "];
const URI_FRAGS: [&[u8]; 6] = [b"", b"", b"#", b"#f", b"#\xff\xfe", b"# sp?/"];

fn random_uri_bytes(rng: &mut Rng) -> Vec<u8> {
    let mut v: Vec<u8> = Vec::new();
    match rng.below(10) {
        0 | 1 => {
            // short strings over the characters the parser distinguishes
            let alpha: [&[u8]; 14] = [b":", b"/", b"?", b"#", b"@", b"[", b"]", b"%", b"a", b"*", b"\xc3\xa9", b" ", b"h", b"."];
            for _ in 0..rng.range(0, 12) {
                v.extend_from_slice(*rng.pick(&alpha[..]));
            }
        }
        2 => {
            // origin-form with arbitrary bytes
            v.push(b'/');
            for _ in 0..rng.range(0, 16) {
                v.push(if rng.chance(1, 6) { rng.below(256) as u8 } else { *rng.pick(GARBAGE) });
            }
        }
        _ => {
            if rng.chance(5, 6) {
                v.extend_from_slice(*rng.pick(&URI_SCHEMES[..]));
                v.extend_from_slice(*rng.pick(&URI_SEPS[..]));
            }
            v.extend_from_slice(*rng.pick(&URI_AUTHS[..]));
            v.extend_from_slice(*rng.pick(&URI_PATHS[..]));
            v.extend_from_slice(*rng.pick(&URI_QUERIES[..]));
            v.extend_from_slice(*rng.pick(&URI_FRAGS[..]));
        }
    }
    if !v.is_empty() && rng.chance(1, 5) {
        let i = rng.below(v.len() as u64) as usize;
        match rng.below(3) {
            0 => v[i] = rng.below(256) as u8,
            1 => {
                v.remove(i);
            }
            _ => v.insert(i, *rng.pick(&b":/?#@[]%. a"[..])),
        }
    }
    v
}

impl Prop for C18 {
    fn id(&self) -> &'static str {
        "C18"
    }
    fn case_count(&self, tier: Tier) -> u64 {
        match tier {
            Tier::Quick => 4000,
            Tier::Thorough => 60000,
        }
    }
    fn fixed_cases(&self, tier: Tier) -> Vec<Case> {
        let mut v = Vec::new();
        // (first in the list, so that a defect in the token shape or a defect that depends on earlier
        // requests is reported through a self-contained case)
        // token statistics over several server starts (freshness: runtime evidence only)
        v.push(Case { name: "tokens".to_string(), ops: vec![format!("tokens {}", if tier == Tier::Quick { 4 } else { 12 })] });
        // several requests over one connection: a request under the prefix must not open anything for the next
        let seqs: [&[(&str, &str)]; 6] = [
            &[("GET", "/{T}/profile.json"), ("GET", "/profile.json"), ("GET", "/"), ("OPTIONS", "/")],
            &[("OPTIONS", "/{T}/symbolicate/v5"), ("OPTIONS", "/symbolicate/v5"), ("POST", "/symbolicate/v5")],
            &[("GET", "/"), ("GET", "/{T}/profile.json"), ("HEAD", "/{T}/profile.json"), ("GET", "/{U}/profile.json")],
            &[("GET", "{T}/x"), ("GET", "/{T}/profile.json")],
            &[("HEAD", "/"), ("GET", "/{T:0:38}/profile.json"), ("GET", "/{T}/profile.json"), ("GET", "/{X:38}/profile.json")],
            &[("OPTIONS", "*"), ("GET", "*"), ("GET", "{T}"), ("GET", "/{T}")],
        ];
        for (i, s) in seqs.iter().enumerate() {
            for (hi, hs) in HEADER_SETS.iter().enumerate() {
                let ops = s.iter().map(|(m, t)| req_line("j", m, t, *hs, None)).collect();
                v.push(Case { name: format!("seq{i}-h{hi}"), ops });
            }
        }
        // the source anchor of the RNG clause
        v.insert(0, Case { name: "anchor".to_string(), ops: vec!["anchor generate_token".to_string()] });
        // several connections open at the same time: nothing a request under the prefix does on one
        // connection opens anything on another one or later on the same one (self-contained replay of a
        // process-wide "authorised" state)
        let h0 = HEADER_SETS[0];
        for cfg in ["j", "z", "e"] {
            v.push(Case {
                name: format!("xconn-{cfg}-a"),
                ops: vec![
                    req_line_x(cfg, "GET", "/{T}/profile.json", h0, None, "c=0"),
                    req_line_x(cfg, "GET", "/profile.json", HEADER_SETS[1], None, "c=1"),
                    req_line_x(cfg, "GET", "/profile.json", h0, None, "c=0"),
                    req_line_x(cfg, "OPTIONS", "/{T}/symbolicate/v5", HEADER_SETS[3], None, "c=2"),
                    req_line_x(cfg, "OPTIONS", "/symbolicate/v5", HEADER_SETS[3], None, "c=1"),
                    req_line_x(cfg, "GET", "/", h0, None, "c=3"),
                    req_line_x(cfg, "POST", "/{T}/symbolicate/v5", HEADER_SETS[1], default_body("POST"), "c=2"),
                    req_line_x(cfg, "POST", "/symbolicate/v5", HEADER_SETS[1], default_body("POST"), "c=1"),
                    req_line_x(cfg, "GET", "/prof-x.json.gz", h0, None, "c=0"),
                ],
            });
            v.push(Case {
                name: format!("xconn-{cfg}-b"),
                ops: vec![
                    req_line_x(cfg, "POST", "/{T}/symbolicate/v5", h0, default_body("POST"), "c=1"),
                    req_line_x(cfg, "GET", "/symbolicate/v5", h0, None, "c=0"),
                    req_line_x(cfg, "POST", "/symbolicate/v5", h0, default_body("POST"), "c=0"),
                ],
            });
        }
        // header families: every further header / origin / Host variation alone, on targets outside and
        // under the prefix, for the main methods
        let mut hk = 0usize;
        let all_targets: Vec<&str> = OUTSIDE_TARGETS.iter().chain(UNDER_TARGETS.iter()).copied().collect();
        let extras: Vec<String> = EXTRA_HEADERS.iter().map(|s| s.to_string()).chain(HOSTS.iter().map(|s| s.to_string())).collect();
        for (ti, t) in all_targets.iter().enumerate() {
            for (mi, m) in ["GET", "POST", "OPTIONS", "HEAD"].iter().enumerate() {
                for (xi, x) in extras.iter().enumerate() {
                    // quick: every (target, extra) pair once with a rotating method, OPTIONS always for the
                    // Access-Control-Request-* duplicates; thorough: the full product
                    let acr = x.to_ascii_lowercase().contains("access-control-request");
                    if tier == Tier::Quick && !(mi == (ti + xi) % 4 || (*m == "OPTIONS" && acr)) {
                        continue;
                    }
                    hk += 1;
                    let hs = if acr && hk % 2 == 0 { HEADER_SETS[3] } else { HEADER_SETS[hk % HEADER_SETS.len()] };
                    let cfg = ["j", "e", "z", "j"][hk % 4];
                    v.push(Case { name: format!("hx{ti}-{m}-{xi}"), ops: vec![req_line_x(cfg, m, t, hs, default_body(m), x)] });
                }
                for (oi, o) in ORIGINS.iter().enumerate() {
                    if tier == Tier::Quick && mi != (ti + oi) % 4 && *m != "OPTIONS" {
                        continue;
                    }
                    hk += 1;
                    let acr = [("-", "-"), ("POST", "content-type"), ("GET", "-")][hk % 3];
                    let cfg = ["e", "j", "z"][hk % 3];
                    v.push(Case { name: format!("ho{ti}-{m}-{oi}"), ops: vec![req_line(cfg, m, t, (acr.0, acr.1, o), default_body(m))] });
                }
            }
        }
        // several credential-channel headers at once, token everywhere but in the path
        for (ti, t) in OUTSIDE_TARGETS.iter().enumerate() {
            for m in ["GET", "POST", "OPTIONS"] {
                let x = "h=Authorization:Bearer+{T} h=Referer:http://127.0.0.1:{PORT}/{T}/ h=Cookie:token={T} h=X-Original-URL:/{T}/profile.json h=X-Samply-Token:{T} h=access-control-request-headers:{T}";
                v.push(Case { name: format!("hall{ti}-{m}"), ops: vec![req_line_x("j", m, t, ("POST", "x-first", "http://localhost:4242"), default_body(m), x)] });
            }
        }
        // HTTP shapes: HTTP/1.0 with and without Host / keep-alive, chunked bodies, pipelining, CONNECT,
        // long request-targets
        for (ti, t) in all_targets.iter().enumerate() {
            for m in ["GET", "POST", "OPTIONS", "HEAD", "CONNECT", "TRACE"] {
                for (si, shape) in ["v=1.0", "v=1.0 nohost", "v=1.0 h=Connection:keep-alive", "v=1.0 nohost h=Connection:close"].iter().enumerate() {
                    if tier == Tier::Quick && (ti + si) % 2 == 1 && m != "GET" {
                        continue;
                    }
                    v.push(Case { name: format!("v10-{ti}-{m}-{si}"), ops: vec![req_line_x("j", m, t, HEADER_SETS[(ti + si) % 6], default_body(m), shape)] });
                }
            }
            for m in ["POST", "PUT"] {
                for body in [SYMBOLICATE_BODY.as_bytes(), &b"{\"a\":\"\xc3\xa4\xc3\xa4\"}"[..], &b"\xff\xfe"[..], &b""[..]] {
                    let b = if body.is_empty() { None } else { Some(body) };
                    v.push(Case { name: format!("chunk-{ti}-{m}-{}", v.len()), ops: vec![req_line_x("j", m, t, HEADER_SETS[1], b, "te=chunked")] });
                }
            }
        }
        // HTTP/1.0 keep-alive sequences and client-side `Connection: close` in the middle of a connection
        v.push(Case {
            name: "v10-seq".to_string(),
            ops: vec![
                req_line_x("j", "GET", "/profile.json", h0, None, "v=1.0 h=Connection:keep-alive"),
                req_line_x("j", "GET", "/{T}/symbolicate/v5", h0, None, "v=1.0 h=Connection:Keep-Alive"),
                req_line_x("j", "OPTIONS", "/symbolicate/v5", HEADER_SETS[3], None, "v=1.0 h=Connection:keep-alive"),
                req_line_x("j", "GET", "/", h0, None, "v=1.0"),
                req_line_x("j", "GET", "/{T}/profile.json", h0, None, ""),
            ],
        });
        v.push(Case {
            name: "v10-seq2".to_string(),
            ops: vec![
                req_line_x("j", "GET", "/{T}/profile.json", h0, None, "v=1.0 h=Connection:keep-alive"),
                req_line_x("j", "GET", "/profile.json", h0, None, "v=1.0 h=Connection:keep-alive"),
            ],
        });
        v.push(Case {
            name: "close-seq".to_string(),
            ops: vec![
                req_line_x("j", "GET", "/profile.json", h0, None, "c=0 h=Connection:close"),
                req_line_x("j", "GET", "/", h0, None, "c=0"),
                req_line_x("j", "GET", "/{T}/profile.json", h0, None, "c=1 h=Connection:CLOSE"),
                req_line_x("j", "GET", "/profile.json", h0, None, "c=1"),
            ],
        });
        // pipelining: all requests of the connection are written before the first response is read
        let pipes: [&[(&str, &str)]; 4] = [
            &[("GET", "/{T}/profile.json"), ("GET", "/profile.json"), ("GET", "/")],
            &[("OPTIONS", "/{T}/symbolicate/v5"), ("OPTIONS", "/symbolicate/v5"), ("GET", "/{U}/profile.json"), ("GET", "/{T}/profile.json")],
            &[("GET", "/profile.json"), ("GET", "{T}/x"), ("GET", "/{T}/profile.json")],
            &[("HEAD", "/{T}/profile.json"), ("GET", "/prof-x.json.gz"), ("POST", "/symbolicate/v5")],
        ];
        for (i, s) in pipes.iter().enumerate() {
            for (hi, hs) in HEADER_SETS.iter().enumerate() {
                let n = s.len();
                let ops = s.iter().enumerate().map(|(k, (m, t))| req_line_x(if hi % 2 == 0 { "j" } else { "z" }, m, t, *hs, if k + 1 == n { default_body(m) } else { None }, if k + 1 == n { "" } else { "pipe" })).collect();
                v.push(Case { name: format!("pipe{i}-h{hi}"), ops });
            }
        }
        // request-targets longer than 8 KiB
        // (`e` is not in the token alphabet: a partial token followed by it is never the token)
        let long: String = "e".repeat(9000);
        for t in [format!("/{long}"), format!("/{long}/{{T}}/profile.json"), format!("/{{T}}/{long}"), format!("/?{long}{{T}}"), format!("/{{T:0:38}}{long}")] {
            for m in ["GET", "POST", "OPTIONS"] {
                v.push(Case { name: format!("long-{m}-{}", v.len()), ops: vec![req_line("j", m, &t, HEADER_SETS[3], default_body(m))] });
            }
        }
        let targets = boundary_targets();
        // boundary targets x methods x header sets; thorough: the full product on the json server and the
        // main methods on the gz server; quick: every target with every method once (header sets rotate)
        // plus the full header product for the five main methods on a thinned target list
        let mut k = 0usize;
        for (ti, t) in targets.iter().enumerate() {
            for (mi, m) in METHODS.iter().enumerate() {
                for (hi, hs) in HEADER_SETS.iter().enumerate() {
                    let full = tier == Tier::Thorough || (mi < 5 && ti % 7 == hi % 7) || hi == (ti + mi) % HEADER_SETS.len() || (*m == "OPTIONS" && hi == 3);
                    if !full {
                        continue;
                    }
                    k += 1;
                    let cfg = if k % 11 == 0 { "z" } else { "j" };
                    v.push(Case { name: format!("b{ti}-{m}-h{hi}"), ops: vec![req_line(cfg, m, t, *hs, default_body(m))] });
                }
            }
        }
        // the deleted-profile server and request bodies that are not UTF-8 (the two `expect`s)
        for t in ["/{T}/profile.json", "/profile.json", "/", "/{U}/profile.json", "/{T}/symbolicate/v5"] {
            for m in ["GET", "POST", "OPTIONS"] {
                v.push(Case { name: format!("d-{m}-{}", v.len()), ops: vec![req_line("d", m, t, HEADER_SETS[0], default_body(m))] });
            }
        }
        for t in ["/{T}/symbolicate/v5", "/symbolicate/v5", "/{U}/symbolicate/v5", "/{T}", "/"] {
            for body in [&b"\xff\xfe"[..], &b"{\"a\":\"\xc3\x28\"}"[..], &b"\xc3\xa4"[..], &b"not json"[..]] {
                for m in ["POST", "PUT"] {
                    v.push(Case { name: format!("u-{m}-{}", v.len()), ops: vec![req_line("j", m, t, HEADER_SETS[1], Some(body))] });
                }
            }
        }
        // the encoder on boundary inputs: the crate's own vectors, all lengths 0..40 with extreme bit patterns
        let mut enc = vec!["enc -".to_string(), "enc 47b2d8f260c2d48116044bc43fe3de0f".to_string(), "enc 1f74d74729abdc08f4f84e8f7f8c808c8ed92ee5".to_string()];
        for len in 1..=40usize {
            for pat in 0..5 {
                let bytes: Vec<u8> = (0..len)
                    .map(|i| match pat {
                        0 => 0x00,
                        1 => 0xff,
                        2 => i as u8,
                        3 => if i == len - 1 { 0x80 } else { 0 },
                        _ => if i == 0 { 0x01 } else { 0 },
                    })
                    .collect();
                enc.push(format!("enc {}", hex(&bytes)));
            }
        }
        for (i, chunk) in enc.chunks(20).enumerate() {
            v.push(Case { name: format!("enc{i}"), ops: chunk.to_vec() });
        }
        // `http::Uri` in-process: every string of up to 3 pieces over the characters the parser
        // distinguishes; every byte value in scheme, authority, path, query and fragment position;
        // scheme lengths around MAX_SCHEME_LEN; colon counts around MAX_COLONS; the request-target forms
        let mut uri: Vec<Vec<u8>> = Vec::new();
        let alpha: [&[u8]; 13] = [b":", b"/", b"?", b"#", b"@", b"[", b"]", b"%", b"a", b"*", b"\xc3\xa9", b" ", b"."];
        uri.push(Vec::new());
        for a in alpha {
            uri.push(a.to_vec());
            for b in alpha {
                uri.push([a, b].concat());
                for c in alpha {
                    uri.push([a, b, c].concat());
                    if tier == Tier::Thorough {
                        for d in alpha {
                            uri.push([a, b, c, d].concat());
                        }
                    }
                }
            }
        }
        for b in 0..=255u8 {
            uri.push(vec![b]);
            uri.push([&b"/x"[..], &[b], &b"y"[..]].concat());
            uri.push([&b"/p?x"[..], &[b], &b"y"[..]].concat());
            uri.push([&b"/p#x"[..], &[b]].concat());
            uri.push([&b"http://h"[..], &[b], &b"i/p"[..]].concat());
            uri.push([&b"a"[..], &[b], &b"b://h/p"[..]].concat());
            uri.push([&b"h"[..], &[b], &b"i"[..]].concat());
            uri.push([&b"http://u"[..], &[b], &b"@h/p"[..]].concat());
        }
        for n in [0usize, 1, 2, 3, 4, 63, 64, 65, 66, 200] {
            uri.push([&vec![b'a'; n][..], &b"://h/p"[..]].concat());
            uri.push([&vec![b'a'; n][..], &b":"[..]].concat());
            uri.push([&vec![b'a'; n][..], &b":/"[..]].concat());
            uri.push([&vec![b'a'; n][..], &b"://"[..]].concat());
        }
        for n in 0..12usize {
            uri.push([&b"http://"[..], &vec![b':'; n][..], &b"/p"[..]].concat());
            uri.push([&b"http://["[..], &vec![b':'; n][..], &b"]:80/p"[..]].concat());
            uri.push([&b"http://u"[..], &vec![b':'; n][..], &b"@h:1/p"[..]].concat());
            uri.push([&b"h"[..], &vec![b':'; n][..], &b"1"[..]].concat());
        }
        for sc in URI_SCHEMES {
            for sep in [&b"://"[..], &b":/"[..], &b":"[..]] {
                for au in URI_AUTHS {
                    for pa in [&b""[..], &b"/tok/profile.json"[..], &b"?q"[..], &b"#f"[..]] {
                        if tier == Tier::Quick && (sc.len() + au.len() + pa.len()) % 3 != 0 {
                            continue;
                        }
                        uri.push([sc, sep, au, pa].concat());
                    }
                }
            }
        }
        for au in URI_AUTHS {
            for pa in URI_PATHS {
                for q in URI_QUERIES {
                    if tier == Tier::Quick && (au.len() + pa.len() + q.len()) % 4 != 0 {
                        continue;
                    }
                    uri.push([&b"http://"[..], au, pa, q].concat());
                    uri.push([au, pa, q].concat());
                }
            }
        }
        for (i, chunk) in uri.chunks(60).enumerate() {
            v.push(Case { name: format!("uri{i}"), ops: chunk.iter().map(|b| format!("uri {}", hex(b))).collect() });
        }
        v
    }
    fn generate(&self, rng: &mut Rng, _tier: Tier, _index: u64) -> Vec<String> {
        if rng.chance(1, 8) {
            // the request-target parser, in-process
            let n = rng.range(1, 10);
            return (0..n).map(|_| format!("uri {}", hex(&random_uri_bytes(rng)))).collect();
        }
        if rng.chance(1, 12) {
            // encoder: mostly the 24 bytes the server draws, sometimes other lengths
            let n = rng.range(1, 8);
            return (0..n)
                .map(|_| {
                    let len = if rng.chance(2, 3) { 24 } else { rng.range(1, 64) };
                    let bytes: Vec<u8> = (0..len)
                        .map(|_| match rng.below(8) {
                            0 => 0,
                            1 => 0xff,
                            _ => rng.below(256) as u8,
                        })
                        .collect();
                    format!("enc {}", hex(&bytes))
                })
                .collect();
        }
        let n = if rng.chance(1, 3) { rng.range(2, 4) } else { 1 };
        let cfg = match rng.below(12) {
            0 => "d",
            1 | 2 => "z",
            _ => "j",
        };
        let mut ops = Vec::new();
        let multi_conn = n > 1 && rng.chance(1, 3);
        let cfg = if cfg == "j" && rng.chance(1, 6) { "e" } else { cfg };
        for i in 0..n {
            let last = i + 1 == n;
            let method = match rng.below(16) {
                0..=5 => "GET",
                6..=8 => "POST",
                9..=11 => "OPTIONS",
                12 => "HEAD",
                13 => "PUT",
                _ => *rng.pick(&METHODS),
            };
            let target = random_target(rng);
            let hs = if rng.chance(1, 2) {
                *rng.pick(&HEADER_SETS)
            } else {
                (*rng.pick(&["-", "POST", "GET", "DELETE"]), *rng.pick(&["-", "content-type", "x-a,x-b", "*"]), *rng.pick(&ORIGINS))
            };
            // a request body is only sent with the last request of a connection (an unread body makes
            // hyper's keep-alive decision timing-dependent)
            let body: Option<Vec<u8>> = if !last {
                None
            } else if method == "POST" {
                Some(match rng.below(10) {
                    0 => b"\xff\xfe".to_vec(),
                    1 => b"{\"x\":\"\xc3\x28\"}".to_vec(),
                    2 => b"{}".to_vec(),
                    3 => Vec::new(),
                    _ => SYMBOLICATE_BODY.as_bytes().to_vec(),
                })
            } else if method == "PUT" && rng.chance(1, 2) {
                Some(b"\xffdata".to_vec())
            } else {
                None
            };
            let method = if !last && method == "POST" { "GET" } else { method };
            // trailing words: further headers, Host variations, HTTP/1.0, chunked body, pipelining,
            // several connections
            let mut extra: Vec<String> = Vec::new();
            if multi_conn {
                // the body-carrying last request gets a connection of its own or the last one used
                extra.push(format!("c={}", if last { 2 } else { rng.below(2) }));
            }
            if rng.chance(1, 3) {
                for _ in 0..rng.range(1, 3) {
                    extra.push(rng.pick(&EXTRA_HEADERS).to_string());
                }
            }
            if rng.chance(1, 12) {
                extra.push(rng.pick(&HOSTS).to_string());
            }
            if rng.chance(1, 12) {
                extra.push("v=1.0".to_string());
                if rng.chance(1, 2) {
                    extra.push("h=Connection:keep-alive".to_string());
                }
            }
            // (chunked bodies do not exist in HTTP/1.0: hyper answers 400 itself)
            if !extra.iter().any(|x| x == "v=1.0") && body.as_ref().map(|b| !b.is_empty()).unwrap_or(false) && rng.chance(1, 4) {
                extra.push("te=chunked".to_string());
            }
            if !last && !multi_conn && rng.chance(1, 5) {
                extra.push("pipe".to_string());
            }
            ops.push(req_line_x(cfg, method, &target, hs, body.as_deref(), &extra.join(" ")));
        }
        ops
    }
    fn execute(&self, ops: &[String], stats: &mut Stats) -> Vec<String> {
        let mut out: Vec<Option<String>> = Vec::new();
        let mut conns: HashMap<usize, ConnState> = HashMap::new();
        // requests per connection (the last one of a connection carries `Connection: close`)
        let mut n_req: HashMap<usize, usize> = HashMap::new();
        for l in ops {
            if l.starts_with("req ") {
                if let Some(op) = parse_req(l) {
                    *n_req.entry(op.conn).or_insert(0) += 1;
                }
            }
        }
        let mut seen_req: HashMap<usize, usize> = HashMap::new();
        for l in ops {
            let w: Vec<&str> = l.split_whitespace().collect();
            match w.first().copied() {
                Some("req") => {
                    let Some(mut op) = parse_req(l) else {
                        out.push(Some("bad-op".to_string()));
                        continue;
                    };
                    let idx = out.len();
                    out.push(None);
                    *seen_req.entry(op.conn).or_insert(0) += 1;
                    stats.bump(&format!("method_{}", op.method));
                    stats.bump(&format!("cfg_{}", op.cfg));
                    if op.target_tmpl.contains('{') {
                        stats.bump("target_with_token_piece");
                    } else {
                        stats.bump("target_without_token_piece");
                    }
                    if op.acrm.is_some() {
                        stats.bump("hdr_acrm");
                    }
                    if op.acrh.is_some() {
                        stats.bump("hdr_acrh");
                    }
                    if op.origin.is_some() {
                        stats.bump("hdr_origin");
                    }
                    for (n, v) in &op.extra {
                        stats.bump(&format!("hdr_extra_{}", n.to_ascii_lowercase()));
                        if v.contains('{') {
                            stats.bump("hdr_extra_value_with_token_piece");
                        }
                    }
                    if op.http10 {
                        stats.bump("http_1_0");
                    }
                    if op.nohost {
                        stats.bump("no_automatic_host");
                    }
                    if op.chunked {
                        stats.bump("chunked_request_body");
                    }
                    if op.pipe {
                        stats.bump("pipelined");
                    }
                    if op.conn != 0 {
                        stats.bump("further_connection_of_the_case");
                    }
                    let srv = self.server(&op.cfg);
                    let cs = conns.entry(op.conn).or_insert_with(|| ConnState { conn: None, dead: false, pending: Vec::new(), srv: srv.clone() });
                    if cs.dead && cs.pending.is_empty() {
                        stats.bump("closed_connection_already_dead");
                        out[idx] = Some("closed".to_string());
                        continue;
                    }
                    if cs.conn.is_none() {
                        let s = TcpStream::connect(("127.0.0.1", srv.port)).expect("connect to samply server");
                        s.set_read_timeout(Some(Duration::from_secs(20))).unwrap();
                        s.set_nodelay(true).unwrap();
                        cs.conn = Some(Conn { stream: s, buf: Vec::new() });
                    }
                    let port = srv.port.to_string();
                    let hv = |tmpl: &str| expand(&srv.token, tmpl).replace('+', " ").replace("{PORT}", &port);
                    let target = expand(&srv.token, &op.target_tmpl);
                    if target.starts_with(&format!("/{}", srv.token)) {
                        stats.bump("target_literally_under_prefix");
                    } else {
                        stats.bump("target_not_literally_under_prefix");
                    }
                    let version = if op.http10 { "HTTP/1.0" } else { "HTTP/1.1" };
                    let mut raw = format!("{} {} {}\r\n", op.method, target, version).into_bytes();
                    if !op.nohost {
                        raw.extend(format!("Host: 127.0.0.1:{}\r\n", srv.port).bytes());
                    }
                    if let Some(v) = &op.origin {
                        raw.extend(format!("Origin: {}\r\n", v.replace("{PORT}", &port)).bytes());
                    }
                    if let Some(v) = &op.acrm {
                        raw.extend(format!("Access-Control-Request-Method: {v}\r\n").bytes());
                    }
                    if let Some(v) = &op.acrh {
                        raw.extend(format!("Access-Control-Request-Headers: {v}\r\n").bytes());
                        op.acrh_sent.push(v.clone());
                    }
                    let mut explicit_connection = false;
                    for (n, v) in &op.extra {
                        let v = hv(v);
                        raw.extend(format!("{n}: {v}\r\n").bytes());
                        if n.eq_ignore_ascii_case("access-control-request-headers") {
                            op.acrh_sent.push(v.clone());
                        }
                        if n.eq_ignore_ascii_case("connection") {
                            explicit_connection = true;
                        }
                    }
                    let body = op.body.clone().unwrap_or_default();
                    let has_body = op.body.is_some() || op.method == "POST" || op.method == "PUT";
                    if has_body {
                        if op.chunked {
                            raw.extend(b"Transfer-Encoding: chunked\r\n");
                        } else {
                            raw.extend(format!("Content-Length: {}\r\n", body.len()).bytes());
                        }
                    }
                    if seen_req[&op.conn] == n_req[&op.conn] && !explicit_connection {
                        raw.extend(b"Connection: close\r\n");
                    }
                    raw.extend(b"\r\n");
                    if has_body && op.chunked {
                        // two chunks (split in the middle, possibly inside a UTF-8 sequence) and the last-chunk
                        let mid = body.len() / 2;
                        for part in [&body[..mid], &body[mid..]] {
                            if !part.is_empty() {
                                raw.extend(format!("{:x}\r\n", part.len()).bytes());
                                raw.extend(part);
                                raw.extend(b"\r\n");
                            }
                        }
                        raw.extend(b"0\r\n\r\n");
                    } else {
                        raw.extend(&body);
                    }
                    let wrote = cs.conn.as_mut().unwrap().stream.write_all(&raw).is_ok();
                    if !wrote {
                        stats.bump("closed_on_write");
                    }
                    let pipe = op.pipe;
                    cs.pending.push((idx, op, wrote));
                    if !pipe || !wrote {
                        cs.flush(&mut out, stats);
                    }
                }
                Some("tokens") => {
                    let k: usize = w.get(1).and_then(|s| s.parse().ok()).unwrap_or(2);
                    let mut toks: Vec<String> = Vec::new();
                    for kind in ["j", "z", "d", "e"] {
                        toks.push(self.server(kind).token.clone());
                    }
                    for _ in 0..k {
                        let s = self.start_server("t");
                        toks.push(s.token.clone());
                    }
                    stats.add("tokens_compared", toks.len() as u64);
                    let mut sorted = toks.clone();
                    sorted.sort();
                    sorted.dedup();
                    let distinct = sorted.len() == toks.len();
                    let lens: Vec<usize> = toks.iter().map(|t| t.len()).collect();
                    let len = if lens.iter().all(|&l| l == lens[0]) { lens[0].to_string() } else { "mixed".to_string() };
                    let alpha = toks.iter().all(|t| t.bytes().all(|b| ALPHABET.contains(&b)));
                    // no character position is the same in all tokens (for 7 honest tokens a constant
                    // position has probability 39 * 32^-6 < 4e-8): catches partly-filled RNG buffers
                    let minlen = lens.iter().copied().min().unwrap_or(0);
                    let varied = minlen > 0 && (0..minlen).all(|i| toks.iter().any(|t| t.as_bytes()[i] != toks[0].as_bytes()[i]));
                    out.push(Some(format!(
                        "tokens distinct={} len={len} alphabet={} varied={}",
                        if distinct { "yes" } else { "no" },
                        if alpha { "ok" } else { "bad" },
                        if varied { "yes" } else { "no" }
                    )));
                }
                Some("anchor") => {
                    let line = anchor_generate_token();
                    stats.bump("source_anchor_generate_token");
                    out.push(Some(line));
                }
                Some("uri") => {
                    // the parser hyper applies to the request-target (hyper 1.6 role.rs:209-212), in-process
                    let bytes = unhex(w.get(1).copied().unwrap_or("-"));
                    match http::Uri::try_from(&bytes[..]) {
                        Ok(u) => {
                            stats.bump(if u.scheme().is_some() { "uri_absolute_form" } else if u.authority().is_some() { "uri_authority_form" } else { "uri_origin_or_asterisk_form" });
                            out.push(Some(format!("path {}", hex(u.path().as_bytes()))));
                        }
                        Err(_) => {
                            stats.bump("uri_rejected");
                            out.push(Some("err".to_string()));
                        }
                    }
                }
                Some("enc") => {
                    let bytes = unhex(w.get(1).copied().unwrap_or("-"));
                    stats.bump(&format!("enc_len_{}", if bytes.len() == 24 { "24".to_string() } else if bytes.is_empty() { "0".to_string() } else { "other".to_string() }));
                    match std::panic::catch_unwind(|| nix_base32::to_nix_base32(&bytes)) {
                        Ok(s) => out.push(Some(format!("tok {s}"))),
                        Err(_) => {
                            stats.bump("enc_panics");
                            out.push(Some("panic".to_string()));
                        }
                    }
                }
                _ => out.push(Some("bad-op".to_string())),
            }
        }
        // a case may end with a `pipe` request
        for cs in conns.values_mut() {
            cs.flush(&mut out, stats);
        }
        out.into_iter().map(|o| o.unwrap_or_else(|| "bad-op".to_string())).collect()
    }
    fn nontrivial(&self, ops: &[String], out: &[String]) -> bool {
        // a request that got an answer (or was dropped), a token comparison, or an encoding
        !ops.is_empty() && ops.len() == out.len() && out.iter().all(|l| l != "bad-op" && l != "timeout" && l != "malformed-response")
    }
    fn parallel(&self) -> bool {
        true
    }
    fn setup(&self, _tier: Tier) {
        // Start the three servers here, on the main thread: PR_SET_PDEATHSIG fires when the *thread*
        // that spawned the child exits, and worker threads end before the run does.
        for kind in ["j", "z", "d", "e"] {
            let _ = self.server(kind);
        }
    }
    fn teardown(&self) {
        self.servers.lock().unwrap().clear();
        let _ = std::fs::remove_dir_all(tmp_dir());
    }
}

fn main() {
    let p = C18 { servers: Mutex::new(HashMap::new()), counter: Mutex::new(0) };
    verif_harness::runner::run_main(&p);
}
