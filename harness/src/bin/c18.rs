//! C18 — drives the real local web server: `samply load <profile> --no-open --port N+` subprocesses
//! (binary from env `SAMPLY_VERIF_BIN`, built by bin/check from the repository's working tree), raw
//! HTTP/1.1 over `std::net::TcpStream`; and the real `nix_base32::to_nix_base32` for the `enc` ops.
//!
//! ops / out: see lean/SamplyModel/Iface/C18.lean. One case = the requests of ONE connection.
//! The request-target is a template over the per-run secret token (`{T}`, `{U}`, `{X:k}` …) which this
//! file expands with the real token parsed from the URL the server prints, so that the op lines are
//! the same in every run although the token never is.
use std::collections::HashMap;
use std::io::{BufRead, BufReader, Read, Write};
use std::net::TcpStream;
use std::os::unix::process::CommandExt;
use std::path::PathBuf;
use std::process::{Child, Command, Stdio};
use std::sync::{Arc, Mutex};
use std::time::Duration;
use verif_harness::common::*;

const ALPHABET: &[u8] = b"0123456789abcdfghijklmnpqrsvwxyz";
const PROFILE_JSON: &str =
    "{\"meta\":{\"product\":\"c18-secret-profile\",\"interval\":1,\"version\":24},\"libs\":[],\"threads\":[]}\n";

struct Server {
    child: Mutex<Child>,
    port: u16,
    token: String,
    /// the bytes of the file being served
    file_bytes: Vec<u8>,
}

impl Drop for Server {
    fn drop(&mut self) {
        if let Ok(mut c) = self.child.lock() {
            let _ = c.kill();
            let _ = c.wait();
        }
    }
}

pub struct C18 {
    servers: Mutex<HashMap<String, Arc<Server>>>,
    counter: Mutex<u32>,
}

fn tmp_dir() -> PathBuf {
    let root = std::env::var("VERIF_ROOT").unwrap_or_else(|_| ".".to_string());
    let d = PathBuf::from(root).join(".work").join("C18").join("tmp").join(format!("{}", std::process::id()));
    std::fs::create_dir_all(&d).expect("tmp dir");
    d
}

fn samply_bin() -> String {
    std::env::var("SAMPLY_VERIF_BIN").expect("SAMPLY_VERIF_BIN not set (run through bin/check)")
}

fn percent_decode(s: &str) -> String {
    let b = s.as_bytes();
    let mut out = Vec::new();
    let mut i = 0;
    while i < b.len() {
        if b[i] == b'%' && i + 3 <= b.len() {
            if let Ok(v) = u8::from_str_radix(&s[i + 1..i + 3], 16) {
                out.push(v);
                i += 3;
                continue;
            }
        }
        out.push(b[i]);
        i += 1;
    }
    String::from_utf8_lossy(&out).to_string()
}

impl C18 {
    /// `kind`: j = profile.json, z = profile.json.gz, d = profile.json deleted after start-up,
    /// anything else = a throw-away server for the token statistics.
    fn start_server(&self, kind: &str) -> Server {
        let n = {
            let mut c = self.counter.lock().unwrap();
            *c += 1;
            *c
        };
        let dir = tmp_dir().join(format!("s{n}"));
        std::fs::create_dir_all(&dir).unwrap();
        let (path, bytes) = if kind == "z" {
            let p = dir.join("profile.json.gz");
            let mut enc = flate2::write::GzEncoder::new(Vec::new(), flate2::Compression::default());
            enc.write_all(PROFILE_JSON.as_bytes()).unwrap();
            let gz = enc.finish().unwrap();
            (p, gz)
        } else {
            (dir.join("profile.json"), PROFILE_JSON.as_bytes().to_vec())
        };
        std::fs::write(&path, &bytes).unwrap();
        let base = 21000 + (std::process::id() % 300) as u16 * 100;
        let mut cmd = Command::new(samply_bin());
        cmd.arg("load").arg(&path).arg("--no-open").arg("--port").arg(format!("{base}+"));
        cmd.env_remove("PROFILER_URL");
        cmd.stdin(Stdio::null()).stdout(Stdio::piped()).stderr(Stdio::null());
        // do not leave servers behind if the harness dies
        unsafe {
            cmd.pre_exec(|| {
                libc::prctl(libc::PR_SET_PDEATHSIG, libc::SIGKILL);
                Ok(())
            });
        }
        let mut child = cmd.spawn().expect("spawn samply load");
        let stdout = child.stdout.take().unwrap();
        let mut rd = BufReader::new(stdout);
        let mut line = String::new();
        rd.read_line(&mut line).expect("read URL line");
        // keep draining stdout ("Error serving connection …" lines) so the server never blocks on it
        std::thread::spawn(move || {
            let mut sink = Vec::new();
            let _ = rd.read_to_end(&mut sink);
        });
        // …/?symbolServer=http%3A%2F%2F127.0.0.1%3A<port>%2F<token>
        let enc = line.trim().rsplit("symbolServer=").next().unwrap_or("");
        let url = percent_decode(enc);
        let rest = url.strip_prefix("http://").unwrap_or_else(|| panic!("unexpected URL line {line:?}"));
        let (hostport, token) = rest.split_once('/').unwrap_or_else(|| panic!("unexpected URL line {line:?}"));
        let port: u16 = hostport.rsplit(':').next().and_then(|p| p.parse().ok()).expect("port");
        if kind == "d" {
            std::fs::remove_file(&path).unwrap();
        }
        Server { child: Mutex::new(child), port, token: token.to_string(), file_bytes: bytes }
    }

    fn server(&self, kind: &str) -> Arc<Server> {
        let mut m = self.servers.lock().unwrap();
        if let Some(s) = m.get(kind) {
            return s.clone();
        }
        // the templates {U}/{C:k} need a letter in the token; a token of 39 digits has probability
        // (10/32)^39 — restart in that case so that the op lines mean the same in every run
        let mut s = self.start_server(kind);
        while !s.token.bytes().any(|b| b.is_ascii_alphabetic()) {
            s = self.start_server(kind);
        }
        let s = Arc::new(s);
        m.insert(kind.to_string(), s.clone());
        s
    }
}

// ---------------------------------------------------------------------------------------------
// token templates (mirror of C18.expand in lean/SamplyModel/Iface/C18.lean)

fn expand_spec(tok: &str, spec: &str) -> String {
    let t: Vec<u8> = tok.bytes().collect();
    let n = t.len();
    let parts: Vec<&str> = spec.split(':').collect();
    let num = |s: &str| s.parse::<usize>().unwrap_or(0);
    let s = |v: Vec<u8>| String::from_utf8_lossy(&v).to_string();
    match parts.as_slice() {
        ["T"] => tok.to_string(),
        ["T", a, b] => {
            let (a, b) = (num(a).min(n), num(b).min(n));
            if a >= b {
                String::new()
            } else {
                s(t[a..b].to_vec())
            }
        }
        ["U"] => tok.to_ascii_uppercase(),
        ["C", k] => {
            let idxs: Vec<usize> = (0..n).filter(|&i| t[i].is_ascii_alphabetic()).collect();
            if idxs.is_empty() {
                return tok.to_string();
            }
            let i = idxs[num(k) % idxs.len()];
            let mut v = t.clone();
            v[i] = v[i].to_ascii_uppercase();
            s(v)
        }
        ["X", k] if n > 0 => {
            let i = num(k) % n;
            let pos = ALPHABET.iter().position(|&c| c == t[i]).unwrap_or(ALPHABET.len());
            let mut v = t.clone();
            v[i] = ALPHABET[(pos + 1) % ALPHABET.len()];
            s(v)
        }
        ["P", k] if n > 0 => {
            let i = num(k) % n;
            format!("{}%{:02x}{}", &tok[..i], t[i], &tok[i + 1..])
        }
        ["D", k] if n > 0 => {
            let i = num(k) % n;
            format!("{}{}", &tok[..i], &tok[i + 1..])
        }
        ["I", k] if n > 0 => {
            let i = num(k) % n;
            let pos = ALPHABET.iter().position(|&c| c == t[i]).unwrap_or(ALPHABET.len());
            format!("{}{}{}", &tok[..i], ALPHABET[(pos + 1) % ALPHABET.len()] as char, &tok[i..])
        }
        ["X", _] | ["P", _] | ["D", _] | ["I", _] => tok.to_string(),
        _ => format!("{{{spec}}}"),
    }
}

fn expand(tok: &str, tmpl: &str) -> String {
    let mut out = String::new();
    let mut pieces = tmpl.split('{');
    out.push_str(pieces.next().unwrap_or(""));
    for piece in pieces {
        match piece.split_once('}') {
            Some((spec, lit)) => {
                out.push_str(&expand_spec(tok, spec));
                out.push_str(lit);
            }
            None => out.push_str(&expand_spec(tok, piece)),
        }
    }
    out
}

// ---------------------------------------------------------------------------------------------
// raw HTTP/1.1

struct HttpResp {
    status: u16,
    headers: Vec<(String, String)>,
    body: Vec<u8>,
}

enum ReadErr {
    Closed,
    Timeout,
    Malformed,
}

struct Conn {
    stream: TcpStream,
    buf: Vec<u8>,
}

impl Conn {
    fn fill(&mut self) -> Result<usize, ReadErr> {
        let mut tmp = [0u8; 16384];
        match self.stream.read(&mut tmp) {
            Ok(0) => Ok(0),
            Ok(n) => {
                self.buf.extend_from_slice(&tmp[..n]);
                Ok(n)
            }
            Err(e) if e.kind() == std::io::ErrorKind::WouldBlock || e.kind() == std::io::ErrorKind::TimedOut => {
                Err(ReadErr::Timeout)
            }
            Err(_) => Ok(0), // connection reset = closed
        }
    }
    fn read_line(&mut self) -> Result<String, ReadErr> {
        loop {
            if let Some(p) = self.buf.windows(2).position(|w| w == b"\r\n") {
                let line: Vec<u8> = self.buf.drain(..p + 2).collect();
                return Ok(String::from_utf8_lossy(&line[..p]).to_string());
            }
            if self.fill()? == 0 {
                return Err(if self.buf.is_empty() { ReadErr::Closed } else { ReadErr::Malformed });
            }
        }
    }
    fn read_exact_n(&mut self, n: usize) -> Result<Vec<u8>, ReadErr> {
        while self.buf.len() < n {
            if self.fill()? == 0 {
                return Err(ReadErr::Malformed);
            }
        }
        Ok(self.buf.drain(..n).collect())
    }
    fn read_response(&mut self, head_request: bool) -> Result<HttpResp, ReadErr> {
        let status_line = self.read_line()?;
        let mut w = status_line.split_whitespace();
        if !w.next().map(|v| v.starts_with("HTTP/1.")).unwrap_or(false) {
            return Err(ReadErr::Malformed);
        }
        let status: u16 = w.next().and_then(|s| s.parse().ok()).ok_or(ReadErr::Malformed)?;
        let mut headers = Vec::new();
        loop {
            let l = match self.read_line() {
                Ok(l) => l,
                Err(ReadErr::Closed) => return Err(ReadErr::Malformed),
                Err(e) => return Err(e),
            };
            if l.is_empty() {
                break;
            }
            let (k, v) = l.split_once(':').ok_or(ReadErr::Malformed)?;
            headers.push((k.trim().to_ascii_lowercase(), v.trim().to_string()));
        }
        let get = |k: &str| headers.iter().find(|(n, _)| n == k).map(|(_, v)| v.clone());
        let mut body = Vec::new();
        if head_request || status == 204 || status == 304 || (100..200).contains(&status) {
            // no body
        } else if get("transfer-encoding").map(|v| v.to_ascii_lowercase().contains("chunked")).unwrap_or(false) {
            loop {
                let l = self.read_line().map_err(|_| ReadErr::Malformed)?;
                let n = usize::from_str_radix(l.split(';').next().unwrap_or("").trim(), 16).map_err(|_| ReadErr::Malformed)?;
                if n == 0 {
                    // trailers until the empty line
                    loop {
                        let t = self.read_line().map_err(|_| ReadErr::Malformed)?;
                        if t.is_empty() {
                            break;
                        }
                    }
                    break;
                }
                body.extend(self.read_exact_n(n)?);
                let _ = self.read_exact_n(2)?;
            }
        } else if let Some(cl) = get("content-length") {
            let n: usize = cl.parse().map_err(|_| ReadErr::Malformed)?;
            body = self.read_exact_n(n)?;
        } else {
            loop {
                if self.fill()? == 0 {
                    break;
                }
            }
            body = std::mem::take(&mut self.buf);
        }
        Ok(HttpResp { status, headers, body })
    }
}

struct ReqOp {
    cfg: String,
    method: String,
    target_tmpl: String,
    acrm: Option<String>,
    acrh: Option<String>,
    origin: Option<String>,
    body: Option<Vec<u8>>,
}

fn field(w: &str, pre: &str) -> Option<Option<String>> {
    let v = w.strip_prefix(pre)?;
    Some(if v == "-" { None } else { Some(v.to_string()) })
}

fn parse_req(l: &str) -> Option<ReqOp> {
    let w: Vec<&str> = l.split_whitespace().collect();
    if w.len() != 8 || w[0] != "req" {
        return None;
    }
    Some(ReqOp {
        cfg: w[1].to_string(),
        method: w[2].to_string(),
        target_tmpl: w[3].to_string(),
        acrm: field(w[4], "acrm=")?,
        acrh: field(w[5], "acrh=")?,
        origin: field(w[6], "origin=")?,
        body: field(w[7], "body=")?.map(|h| unhex(&h)),
    })
}

fn classify(r: &HttpResp, op: &ReqOp, srv: &Server, stats: &mut Stats) -> String {
    let vals = |k: &str| -> Vec<&str> { r.headers.iter().filter(|(n, _)| n == k).map(|(_, v)| v.as_str()).collect() };
    let class = |k: &str, f: &dyn Fn(&str) -> Option<&'static str>| -> String {
        let v = vals(k);
        match v.as_slice() {
            [] => "-".to_string(),
            [one] => f(one).unwrap_or("other").to_string(),
            _ => "other".to_string(),
        }
    };
    let acao = class("access-control-allow-origin", &|v| if v == "*" { Some("*") } else { None });
    let acam = class("access-control-allow-methods", &|v| if v == "POST, GET, OPTIONS" { Some("std") } else { None });
    let acma = class("access-control-max-age", &|v| if v == "86400" { Some("86400") } else { None });
    let want = op.acrh.clone();
    let acah = class("access-control-allow-headers", &|v| if Some(v.to_string()) == want { Some("echo") } else { None });
    let known = [
        "access-control-allow-origin",
        "access-control-allow-methods",
        "access-control-max-age",
        "access-control-allow-headers",
    ];
    let extra = r.headers.iter().filter(|(n, _)| n.starts_with("access-control-") && !known.contains(&n.as_str())).count();
    let acx = if extra == 0 { "-".to_string() } else { extra.to_string() };
    let text = String::from_utf8_lossy(&r.body);
    let body = if r.body.is_empty() {
        "empty"
    } else if r.body == srv.file_bytes || r.body == PROFILE_JSON.as_bytes() || text.contains("c18-secret-profile") {
        "profile"
    } else if text.contains("<title>Profiler Symbol Server</title>") {
        if text.contains("Download the raw profile JSON") {
            "landing-p"
        } else {
            "landing-n"
        }
    } else if serde_json::from_slice::<serde_json::Value>(&r.body).is_ok() {
        "json"
    } else {
        "other"
    };
    if body.starts_with("landing") && text.contains(&srv.token) {
        // by design (server.rs:166-171 substitutes PATH_PREFIX / PROFILE_URL); recorded as an observation
        stats.bump("landing_page_discloses_token");
    }
    stats.bump(&format!("resp_status_{}", r.status));
    stats.bump(&format!("resp_body_{body}"));
    if acao != "-" || acam != "-" || acma != "-" || acah != "-" || acx != "-" {
        stats.bump("resp_with_cors_header");
    } else {
        stats.bump("resp_without_cors_header");
    }
    format!("r status={} acao={acao} acam={acam} acma={acma} acah={acah} acx={acx} body={body}", r.status)
}

// ---------------------------------------------------------------------------------------------
// generators

const METHODS: [&str; 9] = ["GET", "POST", "OPTIONS", "HEAD", "PUT", "DELETE", "PATCH", "get", "PROPFIND"];
/// (acrm, acrh, origin)
const HEADER_SETS: [(&str, &str, &str); 6] = [
    ("-", "-", "-"),
    ("-", "-", "http://evil.example"),
    ("POST", "-", "http://evil.example"),
    ("POST", "content-type,x-foo", "https://profiler.firefox.com"),
    ("-", "content-type", "-"),
    ("GET", "*", "null"),
];
const API_SUFFIXES: [&str; 12] = [
    "",
    "/",
    "/profile.json",
    "/symbolicate/v5",
    "/source/v1",
    "/asm/v1",
    "/zzz",
    "x",
    "/profile.json/",
    "/profile.json?x=1",
    "//profile.json",
    "/PROFILE.JSON",
];
const SYMBOLICATE_BODY: &str = "{\"jobs\":[{\"memoryMap\":[],\"stacks\":[[]]}]}";

fn req_line(cfg: &str, method: &str, target: &str, hs: (&str, &str, &str), body: Option<&[u8]>) -> String {
    let b = match body {
        None => "-".to_string(),
        Some(b) if b.is_empty() => "-".to_string(),
        Some(b) => hex(b),
    };
    format!("req {cfg} {method} {target} acrm={} acrh={} origin={} body={b}", hs.0, hs.1, hs.2)
}

fn default_body(method: &str) -> Option<&'static [u8]> {
    if method == "POST" {
        Some(SYMBOLICATE_BODY.as_bytes())
    } else {
        None
    }
}

/// every request-target family of DESIGN.md §7 C18 / Appendix B
fn boundary_targets() -> Vec<String> {
    let mut v: Vec<String> = Vec::new();
    // the token path and what lives under it
    for s in API_SUFFIXES {
        v.push(format!("/{{T}}{s}"));
    }
    for s in ["/./profile.json", "/../profile.json", "/../{T}/profile.json", "%2fprofile.json", "/profile%2ejson", "#/profile.json", "?/profile.json"] {
        v.push(format!("/{{T}}{s}"));
    }
    // no token at all
    for s in [
        "/", "/profile.json", "/symbolicate/v5", "/source/v1", "/asm/v1", "/index.html", "//", "/.", "/..", "/?", "/?x=1", "/#", "*",
        "/?{T}", "/?/{T}/profile.json", "/#/{T}/profile.json", "/?path=/{T}/symbolicate/v5",
    ] {
        v.push(s.to_string());
    }
    // decorations in front of the token
    for pre in ["//", "/./", "/../", "/x/../", "/x/", "/%2f", "/%2F", "/%2e/", "/;/", "/\\", "/@", "/:"] {
        v.push(format!("{pre}{{T}}/profile.json"));
        v.push(format!("{pre}{{T}}/symbolicate/v5"));
    }
    // case, percent-encoding, one character changed / deleted / doubled
    v.push("/{U}/profile.json".to_string());
    v.push("/{U}/symbolicate/v5".to_string());
    v.push("/{U}".to_string());
    for k in 0..4 {
        v.push(format!("/{{C:{k}}}/profile.json"));
    }
    for k in 0..39 {
        v.push(format!("/{{X:{k}}}/profile.json"));
        v.push(format!("/{{P:{k}}}/profile.json"));
    }
    for k in [0, 1, 19, 37, 38] {
        v.push(format!("/{{D:{k}}}/profile.json"));
        v.push(format!("/{{I:{k}}}/profile.json"));
        v.push(format!("/{{X:{k}}}/symbolicate/v5"));
        v.push(format!("/{{C:{k}}}/symbolicate/v5"));
    }
    // every proper prefix of the token path, alone and followed by the API paths; suffixes of the token
    for n in 0..39 {
        v.push(format!("/{{T:0:{n}}}"));
        v.push(format!("/{{T:0:{n}}}/profile.json"));
    }
    for n in [1, 2, 20, 38] {
        v.push(format!("/{{T:{n}:39}}/profile.json"));
        v.push(format!("/{{T:0:{n}}}/symbolicate/v5"));
        v.push(format!("/{{T:0:{n}}}/{{T:{n}:39}}/profile.json"));
    }
    v.push("/{T:0:20}%00{T:20:39}/profile.json".to_string());
    // absolute-form, authority-form and malformed request-targets
    for s in [
        "http://127.0.0.1/{T}/profile.json",
        "http://evil.example/{T}/symbolicate/v5",
        "http://{T}/profile.json",
        "http://{T}",
        "http://x.example",
        "http://x.example?/{T}/profile.json",
        "http://x.example/?/{T}/profile.json",
        "http://x.example/{U}/profile.json",
        "http://x.example//{T}/profile.json",
        "{T}",
        "{T}/profile.json",
        "x/{T}/profile.json",
    ] {
        v.push(s.to_string());
    }
    v
}

const GARBAGE: &[u8] = b"abcxyzABCXYZ0189-._~!$&'()*+,;=:@%/|\\[]^";

fn random_target(rng: &mut Rng) -> String {
    if rng.chance(1, 4) {
        // the intended use: something directly under the token path
        let suf = if rng.chance(3, 4) {
            rng.pick(&API_SUFFIXES).to_string()
        } else {
            let n = rng.range(1, 10);
            (0..n).map(|_| *rng.pick(GARBAGE) as char).collect()
        };
        return format!("/{{T}}{suf}");
    }
    let tokenish = match rng.below(14) {
        0..=3 => "{T}".to_string(),
        4 => "{U}".to_string(),
        5 => format!("{{C:{}}}", rng.below(40)),
        6 => format!("{{X:{}}}", rng.below(39)),
        7 => format!("{{P:{}}}", rng.below(39)),
        8 => format!("{{D:{}}}", rng.below(39)),
        9 => format!("{{I:{}}}", rng.below(39)),
        10 => {
            let b = rng.range(0, 39);
            format!("{{T:0:{b}}}")
        }
        11 => {
            let a = rng.range(0, 38);
            format!("{{T:{a}:39}}")
        }
        12 => {
            let a = rng.range(1, 38);
            format!("{{T:0:{a}}}{}{{T:{a}:39}}", *rng.pick(&["/", "%2f", ".", "?", "#", "//", "%"]))
        }
        _ => String::new(),
    };
    let pre = *rng.pick(&[
        "/", "/", "/", "/", "/", "//", "/./", "/../", "/x/", "/x/../", "/%2f", "/%2e%2e/", "/?", "/#", "/?p=/", "/;", "", "http://h.example/",
        "http://h.example", "http://h.example?", "http://h.example//", "/profile.json/", "/symbolicate/v5/", "/\\", "/*",
    ]);
    let suf = match rng.below(8) {
        0..=4 => rng.pick(&API_SUFFIXES).to_string(),
        5 => format!("{}{}", rng.pick(&API_SUFFIXES), rng.pick(&["?x", "#y", "?/", "/.."])),
        _ => {
            let n = rng.range(1, 12);
            (0..n).map(|_| *rng.pick(GARBAGE) as char).collect()
        }
    };
    // A piece that is shorter than the token ({D:k}, {T:0:b}) must not be completed to the token by the
    // literal that follows it — whether it would be depends on the run's token. The letters e o u t are
    // outside the alphabet, so they are safe (and interesting) continuations.
    let partial = tokenish.starts_with("{D:") || (tokenish.starts_with("{T:0:") && !tokenish.contains("}{"));
    let suf = if partial && suf.bytes().next().map(|b| ALPHABET.contains(&b)).unwrap_or(false) {
        format!("{}{suf}", *rng.pick(&["e", "o", "u", "t", "-", "_", "E"]))
    } else {
        suf
    };
    let mut t = format!("{pre}{tokenish}{suf}");
    if rng.chance(1, 12) {
        // flip the case of one literal character outside the templates
        let bytes: Vec<u8> = t.bytes().collect();
        let mut depth = 0;
        let cands: Vec<usize> = bytes
            .iter()
            .enumerate()
            .filter(|(_, &b)| {
                if b == b'{' {
                    depth += 1;
                }
                let inside = depth > 0;
                if b == b'}' {
                    depth -= 1;
                }
                !inside && b.is_ascii_alphabetic()
            })
            .map(|(i, _)| i)
            .collect();
        if !cands.is_empty() {
            let i = *rng.pick(&cands);
            let mut b = bytes.clone();
            b[i] ^= 0x20;
            t = String::from_utf8(b).unwrap();
        }
    }
    sanitize(t)
}

/// Keep the request-target inside the forms whose reading by the `http` crate the model describes
/// (origin-form, `*`, `http://authority[/path]`, bare authority, `authority/…` = rejected): the
/// authority part must be plain `[A-Za-z0-9.-]+`, otherwise the target is turned into origin-form.
fn sanitize(t: String) -> String {
    if t.starts_with('/') || t == "*" {
        return t;
    }
    let probe = expand("t0ken", &t);
    let rest = probe.strip_prefix("http://").unwrap_or(&probe);
    let auth: &str = rest.split(|c| c == '/' || c == '?' || c == '#').next().unwrap_or("");
    let plain = !auth.is_empty() && auth.bytes().all(|b| b.is_ascii_alphanumeric() || b == b'.' || b == b'-');
    // a bare authority followed by `?`/`#` is not one of the described forms either
    let bare_ok = probe.starts_with("http://") || !rest[auth.len()..].starts_with(|c| c == '?' || c == '#');
    if plain && bare_ok && !t.contains('%') {
        t
    } else {
        format!("/{t}")
    }
}

impl Prop for C18 {
    fn id(&self) -> &'static str {
        "C18"
    }
    fn case_count(&self, tier: Tier) -> u64 {
        match tier {
            Tier::Quick => 4000,
            Tier::Thorough => 60000,
        }
    }
    fn fixed_cases(&self, tier: Tier) -> Vec<Case> {
        let mut v = Vec::new();
        // (first in the list, so that a defect in the token shape or a defect that depends on earlier
        // requests is reported through a self-contained case)
        // token statistics over several server starts (freshness: runtime evidence only)
        v.push(Case { name: "tokens".to_string(), ops: vec![format!("tokens {}", if tier == Tier::Quick { 4 } else { 12 })] });
        // several requests over one connection: a request under the prefix must not open anything for the next
        let seqs: [&[(&str, &str)]; 6] = [
            &[("GET", "/{T}/profile.json"), ("GET", "/profile.json"), ("GET", "/"), ("OPTIONS", "/")],
            &[("OPTIONS", "/{T}/symbolicate/v5"), ("OPTIONS", "/symbolicate/v5"), ("POST", "/symbolicate/v5")],
            &[("GET", "/"), ("GET", "/{T}/profile.json"), ("HEAD", "/{T}/profile.json"), ("GET", "/{U}/profile.json")],
            &[("GET", "{T}/x"), ("GET", "/{T}/profile.json")],
            &[("HEAD", "/"), ("GET", "/{T:0:38}/profile.json"), ("GET", "/{T}/profile.json"), ("GET", "/{X:38}/profile.json")],
            &[("OPTIONS", "*"), ("GET", "*"), ("GET", "{T}"), ("GET", "/{T}")],
        ];
        for (i, s) in seqs.iter().enumerate() {
            for (hi, hs) in HEADER_SETS.iter().enumerate() {
                let ops = s.iter().map(|(m, t)| req_line("j", m, t, *hs, None)).collect();
                v.push(Case { name: format!("seq{i}-h{hi}"), ops });
            }
        }
        let targets = boundary_targets();
        // boundary targets x methods x header sets; thorough: the full product on the json server and the
        // main methods on the gz server; quick: every target with every method once (header sets rotate)
        // plus the full header product for the five main methods on a thinned target list
        let mut k = 0usize;
        for (ti, t) in targets.iter().enumerate() {
            for (mi, m) in METHODS.iter().enumerate() {
                for (hi, hs) in HEADER_SETS.iter().enumerate() {
                    let full = tier == Tier::Thorough || (mi < 5 && ti % 7 == hi % 7) || hi == (ti + mi) % HEADER_SETS.len() || (*m == "OPTIONS" && hi == 3);
                    if !full {
                        continue;
                    }
                    k += 1;
                    let cfg = if k % 11 == 0 { "z" } else { "j" };
                    v.push(Case { name: format!("b{ti}-{m}-h{hi}"), ops: vec![req_line(cfg, m, t, *hs, default_body(m))] });
                }
            }
        }
        // the deleted-profile server and request bodies that are not UTF-8 (the two `expect`s)
        for t in ["/{T}/profile.json", "/profile.json", "/", "/{U}/profile.json", "/{T}/symbolicate/v5"] {
            for m in ["GET", "POST", "OPTIONS"] {
                v.push(Case { name: format!("d-{m}-{}", v.len()), ops: vec![req_line("d", m, t, HEADER_SETS[0], default_body(m))] });
            }
        }
        for t in ["/{T}/symbolicate/v5", "/symbolicate/v5", "/{U}/symbolicate/v5", "/{T}", "/"] {
            for body in [&b"\xff\xfe"[..], &b"{\"a\":\"\xc3\x28\"}"[..], &b"\xc3\xa4"[..], &b"not json"[..]] {
                for m in ["POST", "PUT"] {
                    v.push(Case { name: format!("u-{m}-{}", v.len()), ops: vec![req_line("j", m, t, HEADER_SETS[1], Some(body))] });
                }
            }
        }
        // the encoder on boundary inputs: the crate's own vectors, all lengths 0..40 with extreme bit patterns
        let mut enc = vec!["enc -".to_string(), "enc 47b2d8f260c2d48116044bc43fe3de0f".to_string(), "enc 1f74d74729abdc08f4f84e8f7f8c808c8ed92ee5".to_string()];
        for len in 1..=40usize {
            for pat in 0..5 {
                let bytes: Vec<u8> = (0..len)
                    .map(|i| match pat {
                        0 => 0x00,
                        1 => 0xff,
                        2 => i as u8,
                        3 => if i == len - 1 { 0x80 } else { 0 },
                        _ => if i == 0 { 0x01 } else { 0 },
                    })
                    .collect();
                enc.push(format!("enc {}", hex(&bytes)));
            }
        }
        for (i, chunk) in enc.chunks(20).enumerate() {
            v.push(Case { name: format!("enc{i}"), ops: chunk.to_vec() });
        }
        v
    }
    fn generate(&self, rng: &mut Rng, _tier: Tier, _index: u64) -> Vec<String> {
        if rng.chance(1, 12) {
            // encoder: mostly the 24 bytes the server draws, sometimes other lengths
            let n = rng.range(1, 8);
            return (0..n)
                .map(|_| {
                    let len = if rng.chance(2, 3) { 24 } else { rng.range(1, 64) };
                    let bytes: Vec<u8> = (0..len)
                        .map(|_| match rng.below(8) {
                            0 => 0,
                            1 => 0xff,
                            _ => rng.below(256) as u8,
                        })
                        .collect();
                    format!("enc {}", hex(&bytes))
                })
                .collect();
        }
        let n = if rng.chance(1, 3) { rng.range(2, 4) } else { 1 };
        let cfg = match rng.below(12) {
            0 => "d",
            1 | 2 => "z",
            _ => "j",
        };
        let mut ops = Vec::new();
        for i in 0..n {
            let last = i + 1 == n;
            let method = match rng.below(16) {
                0..=5 => "GET",
                6..=8 => "POST",
                9..=11 => "OPTIONS",
                12 => "HEAD",
                13 => "PUT",
                _ => *rng.pick(&METHODS),
            };
            let target = random_target(rng);
            let hs = if rng.chance(1, 2) {
                *rng.pick(&HEADER_SETS)
            } else {
                (*rng.pick(&["-", "POST", "GET", "DELETE"]), *rng.pick(&["-", "content-type", "x-a,x-b", "*"]), *rng.pick(&["-", "http://evil.example", "null"]))
            };
            // a request body is only sent with the last request of a connection (an unread body makes
            // hyper's keep-alive decision timing-dependent)
            let body: Option<Vec<u8>> = if !last {
                None
            } else if method == "POST" {
                Some(match rng.below(10) {
                    0 => b"\xff\xfe".to_vec(),
                    1 => b"{\"x\":\"\xc3\x28\"}".to_vec(),
                    2 => b"{}".to_vec(),
                    3 => Vec::new(),
                    _ => SYMBOLICATE_BODY.as_bytes().to_vec(),
                })
            } else if method == "PUT" && rng.chance(1, 2) {
                Some(b"\xffdata".to_vec())
            } else {
                None
            };
            let method = if !last && method == "POST" { "GET" } else { method };
            ops.push(req_line(cfg, method, &target, hs, body.as_deref()));
        }
        ops
    }
    fn execute(&self, ops: &[String], stats: &mut Stats) -> Vec<String> {
        let mut out = Vec::new();
        let mut conn: Option<Conn> = None;
        let mut dead = false;
        let n_req = ops.iter().filter(|l| l.starts_with("req ")).count();
        let mut seen_req = 0;
        for l in ops {
            let w: Vec<&str> = l.split_whitespace().collect();
            match w.first().copied() {
                Some("req") => {
                    seen_req += 1;
                    let Some(op) = parse_req(l) else {
                        out.push("bad-op".to_string());
                        continue;
                    };
                    stats.bump(&format!("method_{}", op.method));
                    stats.bump(&format!("cfg_{}", op.cfg));
                    if op.target_tmpl.contains('{') {
                        stats.bump("target_with_token_piece");
                    } else {
                        stats.bump("target_without_token_piece");
                    }
                    if op.acrm.is_some() {
                        stats.bump("hdr_acrm");
                    }
                    if op.acrh.is_some() {
                        stats.bump("hdr_acrh");
                    }
                    if op.origin.is_some() {
                        stats.bump("hdr_origin");
                    }
                    if dead {
                        stats.bump("closed_connection_already_dead");
                        out.push("closed".to_string());
                        continue;
                    }
                    let srv = self.server(&op.cfg);
                    if conn.is_none() {
                        let s = TcpStream::connect(("127.0.0.1", srv.port)).expect("connect to samply server");
                        s.set_read_timeout(Some(Duration::from_secs(20))).unwrap();
                        s.set_nodelay(true).unwrap();
                        conn = Some(Conn { stream: s, buf: Vec::new() });
                    }
                    let c = conn.as_mut().unwrap();
                    let target = expand(&srv.token, &op.target_tmpl);
                    if target.starts_with(&format!("/{}", srv.token)) {
                        stats.bump("target_literally_under_prefix");
                    } else {
                        stats.bump("target_not_literally_under_prefix");
                    }
                    let mut raw = format!("{} {} HTTP/1.1\r\nHost: 127.0.0.1:{}\r\n", op.method, target, srv.port).into_bytes();
                    if let Some(v) = &op.origin {
                        raw.extend(format!("Origin: {v}\r\n").bytes());
                    }
                    if let Some(v) = &op.acrm {
                        raw.extend(format!("Access-Control-Request-Method: {v}\r\n").bytes());
                    }
                    if let Some(v) = &op.acrh {
                        raw.extend(format!("Access-Control-Request-Headers: {v}\r\n").bytes());
                    }
                    let body = op.body.clone().unwrap_or_default();
                    if op.body.is_some() || op.method == "POST" || op.method == "PUT" {
                        raw.extend(format!("Content-Length: {}\r\n", body.len()).bytes());
                    }
                    if seen_req == n_req {
                        raw.extend(b"Connection: close\r\n");
                    }
                    raw.extend(b"\r\n");
                    raw.extend(&body);
                    if c.stream.write_all(&raw).is_err() {
                        dead = true;
                        stats.bump("closed_on_write");
                        out.push("closed".to_string());
                        continue;
                    }
                    match c.read_response(op.method == "HEAD") {
                        Ok(r) => {
                            let closes = r.headers.iter().any(|(k, v)| k == "connection" && v.eq_ignore_ascii_case("close"));
                            out.push(classify(&r, &op, &srv, stats));
                            if closes {
                                dead = true;
                            }
                        }
                        Err(ReadErr::Closed) => {
                            dead = true;
                            stats.bump("closed_without_response");
                            out.push("closed".to_string());
                        }
                        Err(ReadErr::Timeout) => {
                            dead = true;
                            out.push("timeout".to_string());
                        }
                        Err(ReadErr::Malformed) => {
                            dead = true;
                            out.push("malformed-response".to_string());
                        }
                    }
                }
                Some("tokens") => {
                    let k: usize = w.get(1).and_then(|s| s.parse().ok()).unwrap_or(2);
                    let mut toks: Vec<String> = Vec::new();
                    for kind in ["j", "z", "d"] {
                        toks.push(self.server(kind).token.clone());
                    }
                    for _ in 0..k {
                        let s = self.start_server("t");
                        toks.push(s.token.clone());
                    }
                    stats.add("tokens_compared", toks.len() as u64);
                    let mut sorted = toks.clone();
                    sorted.sort();
                    sorted.dedup();
                    let distinct = sorted.len() == toks.len();
                    let lens: Vec<usize> = toks.iter().map(|t| t.len()).collect();
                    let len = if lens.iter().all(|&l| l == lens[0]) { lens[0].to_string() } else { "mixed".to_string() };
                    let alpha = toks.iter().all(|t| t.bytes().all(|b| ALPHABET.contains(&b)));
                    // no character position is the same in all tokens (for 7 honest tokens a constant
                    // position has probability 39 * 32^-6 < 4e-8): catches partly-filled RNG buffers
                    let minlen = lens.iter().copied().min().unwrap_or(0);
                    let varied = minlen > 0 && (0..minlen).all(|i| toks.iter().any(|t| t.as_bytes()[i] != toks[0].as_bytes()[i]));
                    out.push(format!(
                        "tokens distinct={} len={len} alphabet={} varied={}",
                        if distinct { "yes" } else { "no" },
                        if alpha { "ok" } else { "bad" },
                        if varied { "yes" } else { "no" }
                    ));
                }
                Some("enc") => {
                    let bytes = unhex(w.get(1).copied().unwrap_or("-"));
                    stats.bump(&format!("enc_len_{}", if bytes.len() == 24 { "24".to_string() } else if bytes.is_empty() { "0".to_string() } else { "other".to_string() }));
                    match std::panic::catch_unwind(|| nix_base32::to_nix_base32(&bytes)) {
                        Ok(s) => out.push(format!("tok {s}")),
                        Err(_) => {
                            stats.bump("enc_panics");
                            out.push("panic".to_string());
                        }
                    }
                }
                _ => out.push("bad-op".to_string()),
            }
        }
        out
    }
    fn nontrivial(&self, ops: &[String], out: &[String]) -> bool {
        // a request that got an answer (or was dropped), a token comparison, or an encoding
        !ops.is_empty() && ops.len() == out.len() && out.iter().all(|l| l != "bad-op" && l != "timeout" && l != "malformed-response")
    }
    fn parallel(&self) -> bool {
        true
    }
    fn setup(&self, _tier: Tier) {
        // Start the three servers here, on the main thread: PR_SET_PDEATHSIG fires when the *thread*
        // that spawned the child exits, and worker threads end before the run does.
        for kind in ["j", "z", "d"] {
            let _ = self.server(kind);
        }
    }
    fn teardown(&self) {
        self.servers.lock().unwrap().clear();
        let _ = std::fs::remove_dir_all(tmp_dir());
    }
}

fn main() {
    let p = C18 { servers: Mutex::new(HashMap::new()), counter: Mutex::new(0) };
    verif_harness::runner::run_main(&p);
}
