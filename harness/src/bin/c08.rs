//! C08 — no request and no Breakpad symbol file can crash the symbolication API.
//!
//! Drives the real code in-process:
//!  * kernel operations call the public kernel functions directly (`CodeId::from_str`,
//!    `PeCodeId::from_str`, `ElfBuildId::from_str`, `MappedPath::from_special_path_str`,
//!    `BreakpadIndex::parse_symindex_file`, Breakpad lookups through
//!    `SymbolManager::load_symbol_map_from_location`, `/asm/v1` request parsing) and print the value,
//!    which the Lean model (`PK.*`) reproduces from the same operation line;
//!  * exploration operations run `samply_api::Api::query_api(path, body)`, Breakpad `.sym` / `.symindex`
//!    loading + lookups, `BreakpadIndexCreator` and `DebugId::from_breakpad` under `catch_unwind` with a
//!    watchdog (no answer within 10 s = `hang`) and print `fine` when the call returned (and, for the
//!    API, the response parsed as a JSON object).
//!
//! Operation / outcome lines: see lean/SamplyModel/Iface/C08.lean.
use std::collections::HashMap;
use std::panic::{catch_unwind, AssertUnwindSafe};
use std::str::FromStr;
use std::sync::{Arc, OnceLock};
use std::time::Duration;

use samply_api::samply_symbols::{
    self, BreakpadIndex, BreakpadIndexCreator, CandidatePathInfo, CodeId, ElfBuildId, FileAndPathHelper,
    FileAndPathHelperResult, FileLocation, FramesLookupResult, LibraryInfo, LookupAddress, MappedPath,
    OptionallySendFuture, PeCodeId, SymbolManager,
};
use samply_api::Api;
use verif_harness::common::*;

use verif_harness::gen::c08 as gen;

pub struct C08;

const WATCHDOG: Duration = Duration::from_secs(10);
const WALL_LIMIT: Duration = Duration::from_secs(120);

/// CPU time consumed so far by a (running) thread
fn thread_cpu<T>(h: &std::thread::JoinHandle<T>) -> Option<Duration> {
    use std::os::unix::thread::JoinHandleExt;
    unsafe {
        let mut clk: libc::clockid_t = 0;
        if libc::pthread_getcpuclockid(h.as_pthread_t(), &mut clk) != 0 {
            return None;
        }
        let mut ts: libc::timespec = std::mem::zeroed();
        if libc::clock_gettime(clk, &mut ts) != 0 {
            return None;
        }
        Some(Duration::new(ts.tv_sec as u64, ts.tv_nsec as u32))
    }
}

// ---------------------------------------------------------------------------------------------
// in-memory FileAndPathHelper

#[derive(Clone, Debug)]
struct Loc(String);
impl std::fmt::Display for Loc {
    fn fmt(&self, f: &mut std::fmt::Formatter<'_>) -> std::fmt::Result {
        write!(f, "{}", self.0)
    }
}
impl FileLocation for Loc {
    fn location_for_dyld_subcache(&self, suffix: &str) -> Option<Self> {
        Some(Loc(format!("{}{}", self.0, suffix)))
    }
    fn location_for_external_object_file(&self, object_file: &str) -> Option<Self> {
        Some(Loc(object_file.to_string()))
    }
    fn location_for_pdb_from_binary(&self, _pdb_path_in_binary: &str) -> Option<Self> {
        None
    }
    fn location_for_source_file(&self, source_file_path: &str) -> Option<Self> {
        Some(Loc(source_file_path.to_string()))
    }
    fn location_for_breakpad_symindex(&self) -> Option<Self> {
        let base = self.0.strip_suffix(".sym").unwrap_or(&self.0);
        Some(Loc(format!("{base}.symindex")))
    }
    fn location_for_dwo(&self, _comp_dir: &str, _path: &str) -> Option<Self> {
        None
    }
    fn location_for_dwp(&self) -> Option<Self> {
        Some(Loc(format!("{}.dwp", self.0)))
    }
}

type Bytes = Arc<[u8]>;

/// repository fixtures served under fixed names (read once)
fn base_files() -> &'static HashMap<String, Bytes> {
    static BASE: OnceLock<HashMap<String, Bytes>> = OnceLock::new();
    BASE.get_or_init(|| {
        let repo = std::env::var("VERIF_REPO").unwrap_or_else(|_| {
            let root = std::env::var("VERIF_ROOT").unwrap_or_else(|_| "..".to_string());
            format!("{root}/repo-link")
        });
        let mut m = HashMap::new();
        for (name, rel) in [
            ("firefox.exe", "fixtures/win64-local/firefox.exe"),
            ("example-linux", "fixtures/other/example-linux"),
            ("libsoftokn3.so", "fixtures/android32-local/libsoftokn3.so"),
            ("firefox-macos", "fixtures/macos-ci/firefox"),
        ] {
            if let Ok(d) = std::fs::read(format!("{repo}/{rel}")) {
                m.insert(name.to_string(), Arc::from(d.into_boxed_slice()));
            }
        }
        m
    })
}

struct MemHelper {
    overlay: HashMap<String, Bytes>,
}

impl MemHelper {
    fn get(&self, name: &str) -> Option<Bytes> {
        self.overlay.get(name).cloned().or_else(|| base_files().get(name).cloned())
    }
}

impl FileAndPathHelper for MemHelper {
    type F = Bytes;
    type FL = Loc;

    fn get_candidate_paths_for_debug_file(
        &self,
        info: &LibraryInfo,
    ) -> FileAndPathHelperResult<Vec<CandidatePathInfo<Loc>>> {
        let Some(debug_name) = info.debug_name.as_deref() else { return Ok(vec![]) };
        Ok(vec![
            CandidatePathInfo::SingleFile(Loc(format!("{debug_name}.sym"))),
            CandidatePathInfo::SingleFile(Loc(debug_name.to_string())),
        ])
    }
    fn get_candidate_paths_for_binary(
        &self,
        info: &LibraryInfo,
    ) -> FileAndPathHelperResult<Vec<CandidatePathInfo<Loc>>> {
        let Some(name) = info.name.as_deref().or(info.debug_name.as_deref()) else { return Ok(vec![]) };
        Ok(vec![CandidatePathInfo::SingleFile(Loc(name.to_string()))])
    }
    fn get_dyld_shared_cache_paths(&self, _arch: Option<&str>) -> FileAndPathHelperResult<Vec<Loc>> {
        Ok(vec![])
    }
    fn load_file(
        &self,
        location: Loc,
    ) -> std::pin::Pin<Box<dyn OptionallySendFuture<Output = FileAndPathHelperResult<Bytes>> + '_>> {
        let r = self.get(&location.0);
        Box::pin(async move {
            match r {
                Some(b) => Ok(b),
                None => Err(Box::new(std::io::Error::new(std::io::ErrorKind::NotFound, "no such file"))
                    as Box<dyn std::error::Error + Send + Sync>),
            }
        })
    }
}

// ---------------------------------------------------------------------------------------------
// specification side of the exploration outcomes (nothing here calls samply's own parsing code)

/// ALLOC, non-NOBITS sections of the ELF64 fixture `example-linux` as (start, end) in relative addresses
fn example_linux_sections() -> &'static Vec<(u64, u64)> {
    static SECS: OnceLock<Vec<(u64, u64)>> = OnceLock::new();
    SECS.get_or_init(|| {
        let Some(d) = base_files().get("example-linux") else { return vec![] };
        let d: &[u8] = d;
        let rd16 = |o: usize| d.get(o..o + 2).map(|b| u16::from_le_bytes([b[0], b[1]]) as usize);
        let rd32 = |o: usize| d.get(o..o + 4).map(|b| u32::from_le_bytes([b[0], b[1], b[2], b[3]]));
        let rd64 = |o: usize| d.get(o..o + 8).map(|b| u64::from_le_bytes(b.try_into().unwrap()));
        let inner = || -> Option<Vec<(u64, u64)>> {
            if d.get(..6)? != [0x7f, b'E', b'L', b'F', 2, 1] {
                return None;
            }
            let (phoff, phentsize, phnum) = (rd64(0x20)? as usize, rd16(0x36)?, rd16(0x38)?);
            let mut base = None;
            for i in 0..phnum {
                let o = phoff + i * phentsize;
                if rd32(o)? == 1 {
                    base = Some(rd64(o + 0x10)?);
                    break;
                }
            }
            let base = base?;
            let (shoff, shentsize, shnum) = (rd64(0x28)? as usize, rd16(0x3a)?, rd16(0x3c)?);
            let mut v = Vec::new();
            for i in 0..shnum {
                let o = shoff + i * shentsize;
                let (ty, flags, addr, size) = (rd32(o + 4)?, rd64(o + 8)?, rd64(o + 0x10)?, rd64(o + 0x20)?);
                if flags & 2 != 0 && ty != 8 && size > 0 && addr >= base {
                    v.push((addr - base, addr - base + size));
                }
            }
            Some(v)
        };
        inner().unwrap_or_default()
    })
}

fn hex_field(v: &serde_json::Value, key: &str) -> Option<u64> {
    let s = v.get(key)?.as_str()?;
    u64::from_str_radix(s.strip_prefix("0x")?, 16).ok()
}

/// Clause (b) of the property on one response object: a result of the endpoint or an object with an error
/// message. Returns the class for the statistics or the reason of the violation.
fn response_shape(path: &str, body: &str, o: &serde_json::Map<String, serde_json::Value>) -> Result<&'static str, String> {
    use serde_json::Value;
    if let Some(e) = o.get("error") {
        return match e {
            Value::String(m) if !m.is_empty() => Ok("error"),
            _ => Err("error-not-a-message".to_string()),
        };
    }
    let all = |keys: &[&str], pred: fn(&Value) -> bool| keys.iter().all(|k| o.get(*k).is_some_and(pred));
    match path {
        "/symbolicate/v5" => {
            let Some(Value::Array(results)) = o.get("results") else { return Err("no-results-array".to_string()) };
            for r in results {
                let ok = r.get("stacks").is_some_and(Value::is_array) && r.get("found_modules").is_some_and(Value::is_object);
                if !ok {
                    return Err("result-without-stacks-or-found_modules".to_string());
                }
            }
            let req: Option<Value> = serde_json::from_str(body).ok();
            let jobs = req.as_ref().and_then(|v| v.get("jobs")).and_then(Value::as_array).map(|a| a.len());
            if results.len() == 1 || jobs == Some(results.len()) {
                Ok("result")
            } else {
                Err(format!("results={}-jobs={:?}", results.len(), jobs))
            }
        }
        "/source/v1" => {
            if all(&["file", "source"], Value::is_string) { Ok("result") } else { Err("source-result-keys".to_string()) }
        }
        "/asm/v1" => {
            if !(all(&["startAddress", "size", "arch"], Value::is_string) && all(&["syntax", "instructions"], Value::is_array)) {
                return Err("asm-result-keys".to_string());
            }
            let v = Value::Object(o.clone());
            let (Some(_), Some(size)) = (hex_field(&v, "startAddress"), hex_field(&v, "size")) else {
                return Err("asm-hex-fields".to_string());
            };
            // listed offsets: numbers, strictly increasing, below the reported size
            let mut prev: Option<u64> = None;
            for ins in o["instructions"].as_array().unwrap() {
                let Some(off) = ins.as_array().and_then(|a| a.first()).and_then(Value::as_u64) else {
                    return Err("asm-instruction-shape".to_string());
                };
                if prev.is_some_and(|p| off <= p) || off >= size.max(1) {
                    return Err(format!("asm-offset-{off}-size-{size}"));
                }
                prev = Some(off);
            }
            Ok("result")
        }
        _ => Err("result-on-unknown-path".to_string()),
    }
}

/// Clause (d) "never overflows", observed end to end on `/asm/v1` results for the x86-64 fixture: the listing
/// covers the requested length as far as the section reaches (a wrapped or truncated read length shows up as
/// a listing that stops early). `size + 15 >= min(requested, bytes to the section end)`.
fn asm_short_listing(body: &str, o: &serde_json::Map<String, serde_json::Value>) -> Option<String> {
    let req: serde_json::Value = serde_json::from_str(body).ok()?;
    let lib = req.get("name").and_then(|v| v.as_str()).or(req.get("debugName").and_then(|v| v.as_str()))?;
    if lib != "example-linux" || o.get("arch")?.as_str()? != "x86_64" {
        return None;
    }
    let (start, want) = (hex_field(&req, "startAddress")?, hex_field(&req, "size")?);
    let resp = serde_json::Value::Object(o.clone());
    let (rstart, rsize) = (hex_field(&resp, "startAddress")?, hex_field(&resp, "size")?);
    if rstart != start {
        return Some(format!("start={start:#x} reported={rstart:#x}"));
    }
    let (_, end) = example_linux_sections().iter().find(|(a, b)| *a <= start && start < *b)?;
    let need = want.min(end - start);
    (rsize + 15 < need).then(|| format!("size={rsize:#x} requested={want:#x} available={:#x}", end - start))
}

/// CPU time consumed by the calling thread
fn own_cpu() -> Duration {
    unsafe {
        let mut ts: libc::timespec = std::mem::zeroed();
        libc::clock_gettime(libc::CLOCK_THREAD_CPUTIME_ID, &mut ts);
        Duration::new(ts.tv_sec as u64, ts.tv_nsec as u32)
    }
}

fn size_class(n: usize) -> &'static str {
    match n {
        0..=2047 => "<2K",
        2048..=65535 => "<64K",
        65536..=1048575 => "<1M",
        1048576..=8388607 => "<8M",
        _ => ">=8M",
    }
}

fn look_line(a: u32, r: Result<Option<samply_symbols::SyncAddressInfo>, ()>, stats: &mut Stats) -> String {
    let opt = |o: Option<String>| o.unwrap_or_else(|| "none".to_string());
    match r {
        Err(()) => "panic".to_string(),
        Ok(None) => "none".to_string(),
        Ok(Some(info)) => {
            // what the API layers compute from a lookup result without checking (symbolicate/mod.rs:231, :237)
            if a.checked_sub(info.symbol.address).is_none() {
                return "neg-offset".to_string();
            }
            let (n, frames) = match &info.frames {
                None => ("none".to_string(), &[][..]),
                Some(FramesLookupResult::Available(fr)) => (fr.len().to_string(), &fr[..]),
                Some(_) => ("ext".to_string(), &[][..]),
            };
            if n == "0" {
                return "empty-frames".to_string();
            }
            stats.bump(&format!("bpmap_frames={}", frames.len().min(17)));
            let s = &info.symbol;
            let mut line = format!("sym {} {} {} {n}", s.address, opt(s.size.map(|v| v.to_string())), hex(s.name.as_bytes()));
            for fr in frames {
                line.push_str(&format!(
                    " , frame {} {} {}",
                    opt(fr.function.as_ref().map(|s| hex(s.as_bytes()))),
                    opt(fr.file_path.as_ref().map(|p| hex(p.raw_path().as_bytes()))),
                    opt(fr.line_number.map(|v| v.to_string()))
                ));
            }
            line
        }
    }
}

/// deterministic large `.sym` text: `nfuncs` FUNC blocks (every third with an INLINE record) with `nlines`
/// line records each, `nfiles` FILE records in descending order, PUBLIC records in between, ascending addresses
fn big_sym(nfuncs: u64, nlines: u64, nfiles: u64, seed: u64) -> (Vec<u8>, Vec<u32>) {
    use std::io::Write;
    let mut rng = Rng::new(seed);
    let mut t = Vec::with_capacity((nfuncs * (48 + nlines * 16) + nfiles * 40) as usize);
    let _ = writeln!(t, "MODULE Linux x86_64 {MODULE_ID} t");
    for i in (0..nfiles).rev() {
        let _ = writeln!(t, "FILE {i} /builds/worker/checkouts/gecko/dir{}/file{i}.cpp", i % 97);
    }
    for i in 0..(nfiles / 4).max(1) {
        let _ = writeln!(t, "INLINE_ORIGIN {i} inlined_function_number_{i}(int, char const*)");
    }
    let mut addrs = vec![0u32, 0xffff_ffff];
    let mut a: u64 = 0x1000;
    // blocks in ascending address order for an odd seed, in DESCENDING order for an even one (the worst case of
    // an insertion-based sort; dump_syms writes ascending files, the property quantifies over all)
    let mut blocks: Vec<Vec<u8>> = Vec::with_capacity(nfuncs as usize);
    for f in 0..nfuncs {
        let mut t = Vec::with_capacity(96 + 16 * nlines as usize);
        let per = 4 + rng.below(12);
        let size = per * nlines.max(1);
        if a + size + 16 > 0xffff_0000 {
            break;
        }
        let _ = writeln!(t, "FUNC {a:x} {size:x} 0 function_number_{f}(std::vector<int, std::allocator<int> > const&)");
        if f % 3 == 0 {
            let _ = writeln!(t, "INLINE 0 {} {} {} {a:x} {:x}", f % 1000, f % nfiles.max(1), f % (nfiles / 4).max(1), per);
        }
        for l in 0..nlines {
            let _ = writeln!(t, "{:x} {per:x} {} {}", a + l * per, 1 + (f + l) % 5000, (f * 7 + l) % nfiles.max(1));
        }
        if f % 64 == 0 {
            addrs.extend([a as u32, (a + size - 1) as u32, (a + size) as u32]);
        }
        a += size;
        if f % 5 == 4 {
            let _ = writeln!(t, "PUBLIC {a:x} 0 public_symbol_{f}");
            a += 16;
        }
        blocks.push(t);
    }
    if seed % 2 == 0 {
        blocks.reverse();
    }
    for b in &blocks {
        t.extend_from_slice(b);
    }
    addrs.push(a as u32);
    (t, addrs)
}

// ---------------------------------------------------------------------------------------------
// executing one operation

fn utf8(hexs: &str) -> Option<String> {
    String::from_utf8(unhex(hexs)).ok()
}

fn guarded(f: impl FnOnce() -> String) -> String {
    match catch_unwind(AssertUnwindSafe(f)) {
        Ok(s) => s,
        Err(_) => "panic".to_string(),
    }
}

const MODULE_ID: &str = "BE4E976C325246EE9D6B7847A670B2A90";

/// load `text` as a Breakpad .sym through the public loader and look one address up
fn bp_lookup(text: Vec<u8>, addr: u32) -> Result<Option<samply_symbols::SyncAddressInfo>, String> {
    let mut overlay = HashMap::new();
    overlay.insert("t.sym".to_string(), Arc::from(text.into_boxed_slice()));
    let sm = SymbolManager::with_helper(MemHelper { overlay });
    let map = futures::executor::block_on(sm.load_symbol_map_from_location(Loc("t.sym".into()), None))
        .map_err(|e| e.to_string())?;
    Ok(map.lookup_sync(LookupAddress::Relative(addr)))
}

fn bp_text(lines: &[Vec<u8>]) -> Vec<u8> {
    let mut t = format!("MODULE Linux x86_64 {MODULE_ID} t\n").into_bytes();
    for l in lines {
        t.extend_from_slice(l);
        t.push(b'\n');
    }
    t
}

fn join_toks(prefix: &str, toks: &[&[u8]], suffix: &str) -> Vec<u8> {
    let mut v = prefix.as_bytes().to_vec();
    for (i, t) in toks.iter().enumerate() {
        if i > 0 || !prefix.is_empty() {
            v.push(b' ');
        }
        v.extend_from_slice(t);
    }
    v.extend_from_slice(suffix.as_bytes());
    v
}

fn run_api(overlay: HashMap<String, Bytes>, path: &str, body: &str) -> String {
    let sm = SymbolManager::with_helper(MemHelper { overlay });
    futures::executor::block_on(Api::new(&sm).query_api(path, body))
}

/// `found_modules` / `module_errors` are serialized from a `HashMap`: with two or more entries the order of the
/// text changes from call to call, so such a response cannot be written into an operation line
fn order_independent(resp: &str) -> bool {
    fn walk(v: &serde_json::Value) -> bool {
        match v {
            serde_json::Value::Object(o) => o.iter().all(|(k, x)| {
                let hashed = k == "found_modules" || k == "module_errors";
                !(hashed && x.as_object().is_some_and(|m| m.len() > 1)) && walk(x)
            }),
            serde_json::Value::Array(a) => a.iter().all(walk),
            _ => true,
        }
    }
    serde_json::from_str::<serde_json::Value>(resp).map(|v| walk(&v)).unwrap_or(true)
}

/// Turns some `api` operations of a case into `apiresp` operations: the request is run now (on a helper
/// thread, given up after 20 s) and the response text is written into the operation, so that the Lean judge can
/// run its own JSON recogniser on the text the implementation returns when the case is executed.
fn with_response_texts(ops: Vec<String>, rng: &mut Rng, num: u64, den: u64) -> Vec<String> {
    let mut overlay: HashMap<String, Bytes> = HashMap::new();
    ops.into_iter()
        .map(|l| {
            let w: Vec<&str> = l.split_whitespace().collect();
            match w.as_slice() {
                ["file", name, data] => {
                    if let Some(name) = utf8(name) {
                        overlay.insert(name, Arc::from(unhex(data).into_boxed_slice()));
                    }
                    l
                }
                ["api", path, body] if rng.chance(num, den) => {
                    let (Some(p), Some(b)) = (utf8(path), utf8(body)) else { return l };
                    let ov = overlay.clone();
                    let (tx, rx) = std::sync::mpsc::channel();
                    let spawned = std::thread::Builder::new().stack_size(16 << 20).spawn(move || {
                        let _ = tx.send(catch_unwind(AssertUnwindSafe(|| run_api(ov, &p, &b))).ok());
                    });
                    let Ok(handle) = spawned else { return l };
                    // given up after 3 s of CPU time of the helper thread (or 60 s of wall time): a request that
                    // hangs stays a plain `api` operation and is reported as `hang` when the case is executed
                    let started = std::time::Instant::now();
                    let resp = loop {
                        match rx.recv_timeout(Duration::from_millis(100)) {
                            Ok(r) => break r,
                            Err(std::sync::mpsc::RecvTimeoutError::Disconnected) => break None,
                            Err(std::sync::mpsc::RecvTimeoutError::Timeout) => {
                                let burnt = thread_cpu(&handle).unwrap_or(started.elapsed());
                                if burnt >= Duration::from_secs(3) || started.elapsed() >= Duration::from_secs(60) {
                                    break None;
                                }
                            }
                        }
                    };
                    match resp {
                        Some(resp) if resp.len() <= 65536 && order_independent(&resp) => {
                            format!("apiresp {path} {body} {}", hex(resp.as_bytes()))
                        }
                        _ => l,
                    }
                }
                _ => l,
            }
        })
        .collect()
}

fn exec_kernel(w: &[&str], stats: &mut Stats) -> Option<String> {
    let out = match w {
        ["codeid", s] => {
            let s = utf8(s)?;
            guarded(|| match CodeId::from_str(&s) {
                Ok(CodeId::PeCodeId(p)) => format!("ok pe {} {}", p.timestamp, p.image_size),
                Ok(CodeId::MachoUuid(u)) => format!("ok macho {}", hex(u.as_bytes())),
                Ok(CodeId::ElfBuildId(e)) => format!("ok elf {}", hex(&e.0)),
                Err(()) => "err".to_string(),
            })
        }
        ["pecodeid", s] => {
            let s = utf8(s)?;
            guarded(|| match PeCodeId::from_str(&s) {
                Ok(p) => format!("ok {} {}", p.timestamp, p.image_size),
                Err(()) => "err".to_string(),
            })
        }
        ["elfbuildid", s] => {
            let s = utf8(s)?;
            guarded(|| match ElfBuildId::from_str(&s) {
                Ok(e) => format!("ok {}", hex(&e.0)),
                Err(()) => "err".to_string(),
            })
        }
        ["specialpath", s] => {
            let s = utf8(s)?;
            guarded(|| match MappedPath::from_special_path_str(&s) {
                Some(MappedPath::Git { repo, path, rev }) => {
                    format!("ok git {} {} {}", hex(repo.as_bytes()), hex(path.as_bytes()), hex(rev.as_bytes()))
                }
                Some(MappedPath::Hg { repo, path, rev }) => {
                    format!("ok hg {} {} {}", hex(repo.as_bytes()), hex(path.as_bytes()), hex(rev.as_bytes()))
                }
                Some(MappedPath::S3 { bucket, digest, path }) => {
                    format!("ok s3 {} {} {}", hex(bucket.as_bytes()), hex(digest.as_bytes()), hex(path.as_bytes()))
                }
                Some(MappedPath::Cargo { registry, crate_name, version, path }) => format!(
                    "ok cargo {} {} {} {}",
                    hex(registry.as_bytes()),
                    hex(crate_name.as_bytes()),
                    hex(version.as_bytes()),
                    hex(path.as_bytes())
                ),
                None => "err".to_string(),
            })
        }
        ["symindex", _oracle, d] => {
            let data = unhex(d);
            guarded(|| match BreakpadIndex::parse_symindex_file(&data[..]) {
                Ok(i) => format!(
                    "ok {} {} {} {}",
                    i.module_info_bytes.len(),
                    i.files.len(),
                    i.inline_origins.len(),
                    i.symbol_addresses.len()
                ),
                Err(e) => format!("err {e:?}"),
            })
        }
        ["asmreq", a, b] => {
            let (a, b) = (utf8(a)?, utf8(b)?);
            let body = serde_json::json!({"name": "nonexistent-binary", "debugName": "nonexistent-binary",
                "debugId": MODULE_ID, "startAddress": a, "size": b})
            .to_string();
            guarded(|| {
                let sm = SymbolManager::with_helper(MemHelper { overlay: HashMap::new() });
                let r = futures::executor::block_on(Api::new(&sm).query_api("/asm/v1", &body));
                match serde_json::from_str::<serde_json::Value>(&r) {
                    Ok(serde_json::Value::Object(o)) => match o.get("error").and_then(|e| e.as_str()) {
                        Some(e) if e.starts_with("Couldn't parse request") => "parse-err".to_string(),
                        _ => "parsed".to_string(),
                    },
                    Ok(_) => "notobject".to_string(),
                    Err(_) => "badjson".to_string(),
                }
            })
        }
        ["bpfunc", a, s, addr] => {
            let (a, s, addr) = (unhex(a), unhex(s), addr.parse::<u32>().ok()?);
            guarded(|| {
                let text = bp_text(&[join_toks("FUNC", &[&a, &s], " 0 fn")]);
                match bp_lookup(text, addr) {
                    Ok(Some(i)) => format!("sym {} {}", i.symbol.address, i.symbol.size.unwrap_or(u32::MAX)),
                    Ok(None) => "none".to_string(),
                    Err(e) => format!("load-error {}", e.replace(' ', "_")),
                }
            })
        }
        ["bppublic", a, addr] => {
            let (a, addr) = (unhex(a), addr.parse::<u32>().ok()?);
            guarded(|| {
                let text = bp_text(&[join_toks("PUBLIC", &[&a], " 0 pn")]);
                match bp_lookup(text, addr) {
                    Ok(Some(i)) => format!(
                        "sym {} {}",
                        i.symbol.address,
                        i.symbol.size.map_or("none".to_string(), |s| s.to_string())
                    ),
                    Ok(None) => "none".to_string(),
                    Err(e) => format!("load-error {}", e.replace(' ', "_")),
                }
            })
        }
        ["bpline", a, s, l, f, addr] => {
            let (a, s, l, f, addr) = (unhex(a), unhex(s), unhex(l), unhex(f), addr.parse::<u32>().ok()?);
            guarded(|| {
                let text = bp_text(&[b"FUNC 1000 100 0 fn".to_vec(), join_toks("", &[&a, &s, &l, &f], "")]);
                match bp_lookup(text, addr) {
                    Ok(Some(i)) => match i.frames {
                        Some(FramesLookupResult::Available(fr)) if !fr.is_empty() => {
                            format!("line {}", fr[0].line_number.map_or("none".to_string(), |n| n.to_string()))
                        }
                        _ => "noframes".to_string(),
                    },
                    Ok(None) => "none".to_string(),
                    Err(e) => format!("load-error {}", e.replace(' ', "_")),
                }
            })
        }
        ["bpinline", d, a, s, addr] => {
            let (d, a, s, addr) = (unhex(d), unhex(a), unhex(s), addr.parse::<u32>().ok()?);
            guarded(|| {
                let mut inl = b"INLINE ".to_vec();
                inl.extend_from_slice(&d);
                inl.extend_from_slice(b" 7 0 0 ");
                inl.extend_from_slice(&a);
                inl.push(b' ');
                inl.extend_from_slice(&s);
                let text =
                    bp_text(&[b"INLINE_ORIGIN 0 g".to_vec(), b"FUNC 1000 100 0 fn".to_vec(), inl]);
                match bp_lookup(text, addr) {
                    Ok(Some(i)) => match i.frames {
                        Some(FramesLookupResult::Available(fr)) => format!("frames {}", fr.len()),
                        _ => "noframes".to_string(),
                    },
                    Ok(None) => "none".to_string(),
                    Err(e) => format!("load-error {}", e.replace(' ', "_")),
                }
            })
        }
        ["errjson", m] => {
            let m = utf8(m)?;
            guarded(|| format!("json {}", hex(serde_json::json!({ "error": m }).to_string().as_bytes())))
        }
        ["badurl", p] => {
            let p = utf8(p)?;
            if ["/symbolicate/v5", "/source/v1", "/asm/v1"].contains(&p.as_str()) {
                "known-path".to_string()
            } else {
                guarded(|| {
                    let sm = SymbolManager::with_helper(MemHelper { overlay: HashMap::new() });
                    let r = futures::executor::block_on(Api::new(&sm).query_api(&p, "{}"));
                    format!("json {}", hex(r.as_bytes()))
                })
            }
        }
        _ => return None,
    };
    let cls = if w[0] == "symindex" { out.replace(' ', "_").chars().take(48).collect::<String>() } else { out.split(' ').next().unwrap_or("").to_string() };
    let cls = if w[0] == "symindex" && cls.starts_with("ok_") { "ok".to_string() } else { cls };
    stats.bump(&format!("kernel_{}_{}", w[0], cls));
    Some(out)
}

fn exec_explore(w: &[&str], overlay: &mut HashMap<String, Bytes>, stats: &mut Stats) -> Option<String> {
    let out = match w {
        ["file", name, data] => {
            let name = utf8(name)?;
            let data = unhex(data);
            if name.ends_with(".sym") {
                stats.bump(&format!("served_sym_size{}", size_class(data.len())));
            } else if name.ends_with(".symindex") {
                stats.bump(&format!("served_symindex_{}", if BreakpadIndex::parse_symindex_file(&data[..]).is_ok() { "accepted(File)" } else { "rejected(Owned)" }));
            }
            overlay.insert(name, Arc::from(data.into_boxed_slice()));
            return Some("set".to_string());
        }
        ["api", path, body] => {
            let (path, body) = (utf8(path)?, utf8(body)?);
            let ov = overlay.clone();
            let mut class = "";
            let (mut arch, mut jobs, mut max_inlines) = (String::new(), 0usize, 0usize);
            let r = guarded(|| {
                let sm = SymbolManager::with_helper(MemHelper { overlay: ov });
                let resp = futures::executor::block_on(Api::new(&sm).query_api(&path, &body));
                match serde_json::from_str::<serde_json::Value>(&resp) {
                    Ok(serde_json::Value::Object(o)) => match response_shape(&path, &body, &o) {
                        Ok(c) => {
                            class = c;
                            if c == "result" && path == "/asm/v1" {
                                arch = o.get("arch").and_then(|a| a.as_str()).unwrap_or("?").to_string();
                                if let Some(why) = asm_short_listing(&body, &o) {
                                    return format!("short-listing {why}");
                                }
                            }
                            if c == "result" && path == "/symbolicate/v5" {
                                let rs = o["results"].as_array().unwrap();
                                jobs = rs.len();
                                for r in rs {
                                    for st in r["stacks"].as_array().into_iter().flatten() {
                                        for fr in st.as_array().into_iter().flatten() {
                                            if let Some(i) = fr.get("inlines").and_then(|i| i.as_array()) {
                                                max_inlines = max_inlines.max(i.len());
                                            }
                                        }
                                    }
                                }
                            }
                            "fine".to_string()
                        }
                        Err(why) => format!("badshape {why}"),
                    },
                    Ok(_) => "notobject".to_string(),
                    Err(_) => "badjson".to_string(),
                }
            });
            if !arch.is_empty() {
                stats.bump(&format!("api_asm_arch_{arch}"));
            }
            if jobs > 0 {
                stats.bump(&format!("api_symbolicate_jobs={}", jobs.min(5)));
                stats.bump(&format!("api_symbolicate_max_inlines={}", max_inlines.min(17)));
            }
            let ep = match path.as_str() {
                "/symbolicate/v5" => "symbolicate",
                "/source/v1" => "source",
                "/asm/v1" => "asm",
                _ => "otherpath",
            };
            stats.bump(&format!("api_{ep}_{}", if r == "fine" { class } else { r.split(' ').next().unwrap_or("") }));
            r
        }
        ["apiresp", path, body, _expected] => {
            let (path, body) = (utf8(path)?, utf8(body)?);
            let ov = overlay.clone();
            let r = guarded(|| format!("resp {}", hex(run_api(ov, &path, &body).as_bytes())));
            stats.bump(&format!("apiresp_{}", r.split(' ').next().unwrap_or("")));
            r
        }
        ["lookup", name, addrs @ ..] => {
            let name = utf8(name)?;
            let ov = overlay.clone();
            let addrs: Vec<u32> = addrs.iter().filter_map(|a| a.parse().ok()).collect();
            let mut class = "loaderr";
            let mut max_frames = 0usize;
            let r = guarded(|| {
                let sm = SymbolManager::with_helper(MemHelper { overlay: ov });
                match futures::executor::block_on(sm.load_symbol_map_from_location(Loc(name), None)) {
                    Ok(map) => {
                        class = "loaded";
                        let mut hits = 0;
                        for a in &addrs {
                            if let Some(i) = map.lookup_sync(LookupAddress::Relative(*a)) {
                                hits += 1;
                                // what the API layers compute from a lookup result: `address - symbol.address`
                                // (symbolicate/mod.rs:231) must not underflow, a frame list is never empty (:237)
                                if a.checked_sub(i.symbol.address).is_none() {
                                    return "neg-offset".to_string();
                                }
                                if let Some(FramesLookupResult::Available(fr)) = &i.frames {
                                    if fr.is_empty() {
                                        return "empty-frames".to_string();
                                    }
                                    max_frames = max_frames.max(fr.len());
                                }
                                let _end = i.symbol.size.and_then(|s| i.symbol.address.checked_add(s));
                            }
                        }
                        let _n = map.iter_symbols().take(2000).count();
                        let _c = map.symbol_count();
                        if hits > 0 {
                            class = "loaded_hits";
                        }
                    }
                    Err(_) => {}
                }
                "fine".to_string()
            });
            stats.bump(&format!("lookup_{}", if r == "fine" { class } else { r.as_str() }));
            if max_frames > 0 {
                stats.bump(&format!("lookup_max_frames={}", max_frames.min(17)));
            }
            r
        }
        ["symcreate", chunk, data] => {
            let chunk: usize = chunk.parse().ok().filter(|c| *c > 0)?;
            // `@<name>`: the contents of a file served earlier in this case
            let data = match data.strip_prefix('@') {
                Some(n) => overlay.get(&utf8(n)?).map(|b| b.to_vec()).unwrap_or_default(),
                None => unhex(data),
            };
            let mut class = "err";
            let r = guarded(|| {
                let mut c = BreakpadIndexCreator::new();
                for piece in data.chunks(chunk) {
                    c.consume(piece);
                }
                if let Ok(bytes) = c.finish() {
                    // what make_symbol_map does with a freshly created index
                    class = if BreakpadIndex::parse_symindex_file(&bytes[..]).is_ok() { "ok" } else { "ok_unparseable" };
                }
                "fine".to_string()
            });
            stats.bump(&format!("symcreate_{}", if r == "fine" { class } else { r.as_str() }));
            r
        }
        ["bpmap", text, idx, addrs @ ..] => {
            let (text, idx) = (unhex(text), unhex(idx));
            // `iter` among the addresses = `iter_symbols()` collected at that point (None in the list)
            // the token with `|` = `<intent>|<ties>`: statistics / the model's tie-break oracle, not used here
            let intent = addrs.iter().find(|a| a.contains('|')).and_then(|a| a.split('|').next()).unwrap_or("");
            let addrs: Vec<Option<u32>> = addrs.iter().filter(|a| !a.contains('|')).filter_map(|a| if *a == "iter" { Some(None) } else { a.parse().ok().map(Some) }).collect();
            let mut st = Stats::default();
            if !intent.is_empty() {
                st.bump(&format!("bpmap_intent_{intent}"));
            }
            let r = guarded(|| {
                // (whether the stored index is used, ignored as foreign or rejected is `make_index_storage`'s
                // business and is not decided here; only the load outcome and the lookups are printed)
                st.bump(if BreakpadIndex::parse_symindex_file(&idx[..]).is_ok() { "bpmap_index_parses" } else { "bpmap_index_unparsable" });
                let mut overlay = HashMap::new();
                overlay.insert("t.sym".to_string(), Arc::from(text.into_boxed_slice()));
                overlay.insert("t.symindex".to_string(), Arc::from(idx.into_boxed_slice()));
                let sm = SymbolManager::with_helper(MemHelper { overlay });
                let map = match futures::executor::block_on(sm.load_symbol_map_from_location(Loc("t.sym".into()), None)) {
                    Ok(m) => m,
                    Err(e) => {
                        let kind = match e {
                            samply_symbols::Error::InvalidInputError(_) => "notbreakpad",
                            samply_symbols::Error::BreakpadParsing(_) => "nomodule",
                            _ => "loaderr",
                        };
                        st.bump(&format!("bpmap_{kind}"));
                        return format!("served {kind}");
                    }
                };
                st.bump("bpmap_served");
                // the debug id the map reports (for a used sidecar: the sidecar's, not necessarily the text's)
                let mut looks: Vec<String> = vec![format!("id {}", map.debug_id().breakpad())];
                for a in &addrs {
                    let Some(a) = a else {
                        let names = catch_unwind(AssertUnwindSafe(|| {
                            map.iter_symbols().map(|(a, n)| format!("{a}:{}", hex(n.as_bytes()))).collect::<Vec<String>>()
                        }));
                        match names {
                            Ok(ns) => {
                                st.bump("bpmap_iter");
                                looks.push(format!("iter {} {}", ns.len(), ns.join(",")).trim_end().to_string());
                            }
                            Err(_) => {
                                // (the cache mutex is poisoned now; the model stops here as well)
                                looks.push("iter panic".to_string());
                                break;
                            }
                        }
                        continue;
                    };
                    let r = catch_unwind(AssertUnwindSafe(|| map.lookup_sync(LookupAddress::Relative(*a)))).map_err(|_| ());
                    let l = look_line(*a, r, &mut st);
                    st.bump(&format!("bpmap_look_{}", l.split(' ').next().unwrap_or("")));
                    looks.push(l);
                }
                format!("served {}", looks.join(" ; "))
            });
            stats.merge(&st);
            r
        }
        ["bigsym", nfuncs, nlines, nfiles, seed] => {
            let (nfuncs, nlines, nfiles, seed): (u64, u64, u64, u64) =
                (nfuncs.parse().ok()?, nlines.parse().ok()?, nfiles.parse().ok()?, seed.parse().ok()?);
            let mut st = Stats::default();
            let r = guarded(|| {
                let (text, addrs) = big_sym(nfuncs, nlines, nfiles, seed);
                let n = text.len();
                st.bump(&format!("bigsym_size{}", size_class(n)));
                st.bump(&format!("served_sym_size{}", size_class(n)));
                let mut overlay = HashMap::new();
                overlay.insert("t.sym".to_string(), Arc::from(text.into_boxed_slice()));
                let sm = SymbolManager::with_helper(MemHelper { overlay });
                let t0 = own_cpu();
                // the 1 MiB chunk loop of make_index_storage (symbol_map.rs:71-90), then lookups and a request
                let map = match futures::executor::block_on(sm.load_symbol_map_from_location(Loc("t.sym".into()), None)) {
                    Ok(m) => m,
                    Err(e) => return format!("load-error {}", e.to_string().replace(' ', "_")),
                };
                let mut hits = 0;
                for a in &addrs {
                    if let Some(i) = map.lookup_sync(LookupAddress::Relative(*a)) {
                        hits += 1;
                        if a.checked_sub(i.symbol.address).is_none() {
                            return "neg-offset".to_string();
                        }
                    }
                }
                if hits == 0 {
                    return "no-hits".to_string();
                }
                let stack: Vec<String> = addrs.iter().take(200).map(|a| format!("[0,{a}]")).collect();
                let body = format!("{{\"memoryMap\":[[\"t\",\"{MODULE_ID}\"]],\"stacks\":[[{}]]}}", stack.join(","));
                let resp = futures::executor::block_on(Api::new(&sm).query_api("/symbolicate/v5", &body));
                match serde_json::from_str::<serde_json::Value>(&resp) {
                    Ok(serde_json::Value::Object(o)) => {
                        if let Err(why) = response_shape("/symbolicate/v5", &body, &o) {
                            return format!("badshape {why}");
                        }
                    }
                    Ok(_) => return "notobject".to_string(),
                    Err(_) => return "badjson".to_string(),
                }
                // size-relative CPU budget of the calling thread: 0.2 s + 3 ns * n * log2 n (n = bytes of the file).
                // Measured on the harness profile: about 0.3 ns * n * log2 n (2 MiB: 14 ms; 4 MiB: 30 ms), i.e. a
                // margin of 10x and more; an insertion-based sort on the 40 000-block descending file needs 1 s.
                let used = own_cpu().saturating_sub(t0);
                let budget = Duration::from_millis(200) + Duration::from_nanos((3.0 * n as f64 * (n as f64).log2()) as u64);
                st.add("bigsym_cpu_ms", used.as_millis() as u64);
                st.add("bigsym_bytes", n as u64);
                if used > budget {
                    return format!("slow bytes={n} cpu_ms={} budget_ms={}", used.as_millis(), budget.as_millis());
                }
                "fine".to_string()
            });
            stats.merge(&st);
            stats.bump(&format!("bigsym_{}", r.split(' ').next().unwrap_or("")));
            r
        }
        ["debugid", s] => {
            let s = utf8(s)?;
            let all_hex = !s.is_empty() && s.bytes().all(|b| b.is_ascii_hexdigit());
            let r = guarded(|| {
                let r = samply_api::debugid::DebugId::from_breakpad(&s);
                if all_hex { if r.is_ok() { "id-ok" } else { "id-err" }.to_string() } else { "fine".to_string() }
            });
            stats.bump(&format!("debugid_{r}"));
            r
        }
        _ => return None,
    };
    Some(out)
}

/// all operations of a case, on a thread of their own so that the watchdog can give up on them
fn run_case(ops: Vec<String>, tx: std::sync::mpsc::Sender<Result<String, Stats>>) {
    let mut stats = Stats::default();
    let mut overlay: HashMap<String, Bytes> = HashMap::new();
    for l in &ops {
        let w: Vec<&str> = l.split_whitespace().collect();
        let out = exec_kernel(&w, &mut stats)
            .or_else(|| exec_explore(&w, &mut overlay, &mut stats))
            .unwrap_or_else(|| "bad-op".to_string());
        if out == "panic" {
            stats.bump("panics");
        }
        stats.bump(&format!("op_{}", w.first().copied().unwrap_or("?")));
        if tx.send(Ok(out)).is_err() {
            return;
        }
    }
    let _ = tx.send(Err(stats));
}

impl Prop for C08 {
    fn id(&self) -> &'static str {
        "C08"
    }
    fn case_count(&self, tier: Tier) -> u64 {
        match tier {
            Tier::Quick => 4000,
            Tier::Thorough => 130_000,
        }
    }
    fn fixed_cases(&self, tier: Tier) -> Vec<Case> {
        let mut rng = Rng::new(0xC08A);
        gen::fixed_cases(tier)
            .into_iter()
            .map(|c| Case { name: c.name, ops: with_response_texts(c.ops, &mut rng, 1, 1) })
            .collect()
    }
    fn generate(&self, rng: &mut Rng, tier: Tier, index: u64) -> Vec<String> {
        let ops = gen::generate(rng, tier, index);
        let den = if tier == Tier::Quick { 6 } else { 40 };
        with_response_texts(ops, rng, 1, den)
    }
    fn setup(&self, _tier: Tier) {
        let _ = base_files();
    }
    /// cases run in child processes: a stack overflow, an abort or an out-of-memory kill of the code under
    /// test becomes the outcome `crash:<how>` of one case (with a shrunk replay) instead of a dead harness.
    /// The per-operation hang criterion stays the in-process CPU-time watchdog; the child's wall-clock limit
    /// (120 s per 8 cases) is only the backstop.
    fn isolate(&self) -> Option<(u64, u64)> {
        Some((120, 8192))
    }
    fn execute(&self, ops: &[String], stats: &mut Stats) -> Vec<String> {
        let (tx, rx) = std::sync::mpsc::channel();
        let owned = ops.to_vec();
        // (a failed spawn is the machine's problem, not an outcome of the code under test: retry)
        let mut handle = None;
        for attempt in 0..200 {
            let (o, t) = (owned.clone(), tx.clone());
            match std::thread::Builder::new().stack_size(16 << 20).spawn(move || run_case(o, t)) {
                Ok(h) => {
                    handle = Some(h);
                    break;
                }
                Err(_) => {
                    stats.bump("spawn_retries");
                    std::thread::sleep(Duration::from_millis(50 + 10 * attempt));
                }
            }
        }
        drop(tx);
        let handle = handle.expect("could not spawn a case thread");
        let mut out = Vec::new();
        let mut waited = Duration::ZERO;
        let mut cpu_at_last_answer = thread_cpu(&handle);
        loop {
            match rx.recv_timeout(WATCHDOG) {
                Ok(Ok(line)) => {
                    out.push(line);
                    waited = Duration::ZERO;
                    cpu_at_last_answer = thread_cpu(&handle);
                }
                Ok(Err(s)) => {
                    stats.merge(&s);
                    let _ = handle.join();
                    break;
                }
                Err(std::sync::mpsc::RecvTimeoutError::Timeout) => {
                    // A hang = the call has burnt more than the watchdog time of CPU without answering,
                    // or has not answered for WALL_LIMIT (blocked). A thread that was merely starved of
                    // CPU by other processes is given more time, so machine load cannot fake a hang.
                    waited += WATCHDOG;
                    let burnt = match (thread_cpu(&handle), cpu_at_last_answer) {
                        (Some(now), Some(then)) => now.saturating_sub(then),
                        _ => waited,
                    };
                    if burnt >= WATCHDOG || waited >= WALL_LIMIT {
                        stats.bump("hangs");
                        out.push("hang".to_string());
                        break; // the stuck thread is abandoned
                    }
                    stats.bump("watchdog_extensions_under_load");
                }
                Err(std::sync::mpsc::RecvTimeoutError::Disconnected) => {
                    // the case thread died outside a guarded call
                    stats.bump("panics");
                    out.push("panic".to_string());
                    break;
                }
            }
        }
        out
    }
    fn nontrivial(&self, ops: &[String], out: &[String]) -> bool {
        // at least one operation that got past the first validation layer of its kernel / endpoint
        ops.len() == out.len()
            && out.iter().zip(ops).any(|(o, op)| {
                o.starts_with("ok ") || o.starts_with("sym ") || o.starts_with("line ") || o.starts_with("frames ")
                    || o == "parsed" || (o == "fine" && !op.starts_with("debugid")) || o == "id-ok" || o.starts_with("served id") || o.starts_with("resp ") || o.starts_with("json ")
            })
    }
}

fn main() {
    verif_harness::runner::run_main(&C08);
}
