//! C04 — drives the real `fxprof-processed-profile` sample / counter tables through the public API
//! (`Profile::{add_process, add_thread, add_sample, add_sample_same_stack_zero_cpu, add_allocation_sample,
//! add_marker, set_marker_stack, set_thread_samples_weight_type, add_counter, add_counter_sample}`) and reads the
//! tables back from `serde_json::to_value(&profile)` — at every `ser` op and once more at the end.
//!
//! Layout of every case (mirrored by `C04.procs` / `C04.nCounters` in lean/SamplyModel/Iface/C04.lean): a decoy
//! process with a decoy thread and a decoy counter (created first, one sample each, so that handle index 0 is never a
//! table under test), process P with threads 0 and 1, process Q with thread 2, counters 0 and 1.
//!
//! ops:  `add[@i] <t_ns> <none|k> <cpu_ns> <weight>` | `merge[@i] <t_ns> <weight>` | `alloc@<i> <t_ns> <none|k> <addr> <size>`
//!       | `marker@<i> <t_ns> <none|k>` | `wtype@<i> <0|1|2>` | `addc[@j] <t_ns> <value> <n>` | `ser`
//! out:  per snapshot `snap <k>` and, per thread, `t<i> len …` / `t<i> deltas …` / `t<i> row <time> <stack> <weight> <cpu_us>`*
//!       / `t<i> meta <weightType> <#markers>` / `t<i> allocs …` / `t<i> arow …`*; per counter `c<j> clen …` /
//!       `c<j> cdeltas …` / `c<j> crow <time> <count> <number>`*;   or   `panic op <j>` | `panic serialize`
//! (see lean/SamplyModel/Iface/C04.lean). Millisecond floats are converted back to integer nanoseconds by
//! `round(x * 1e6)`; all generated timestamps are < 2^40 ns so that this is exact. Rows of equal time are
//! sorted (the implementation's sort is unstable: tie groups are compared as multisets). Counter values are `f64`
//! tokens: an integer (|v| <= 2^53), `-0.0`, `f<bits>` for everything else, `null` for what serde_json writes for a
//! non-finite number.
use fxprof_processed_profile::{
    Category, CategoryColor, CategoryHandle, CounterHandle, CpuDelta, FrameFlags, MarkerTiming, Profile, ReferenceTimestamp,
    SamplingInterval, StackHandle, StaticSchemaMarker, StaticSchemaMarkerField, StringHandle, ThreadHandle, Timestamp, WeightType,
};
use serde_json::Value;
use std::panic::{catch_unwind, AssertUnwindSafe};
use verif_harness::common::*;

pub struct C04;

const NSTACKS: usize = 3;
const TS_LIMIT: u64 = 1 << 40;

fn ts(n: u64) -> Timestamp {
    Timestamp::from_nanos_since_reference(n)
}

/// integer nanoseconds of a millisecond float; `None` when not a finite number
fn ns_of_ms(v: &Value) -> Option<i128> {
    let x = v.as_f64()?;
    if !x.is_finite() {
        return None;
    }
    Some((x * 1e6).round() as i128)
}

fn arr<'a>(v: &'a Value, key: &str) -> &'a [Value] {
    v.get(key).and_then(|a| a.as_array()).map(|a| a.as_slice()).unwrap_or(&[])
}

/// label of the leaf frame of stack `idx` of thread `t` ("s<k>" for the k-th pre-made stack)
fn stack_label(t: &Value, idx: u64) -> String {
    let get = |tbl: &str, col: &str, i: u64| -> Option<u64> { t.get(tbl)?.get(col)?.as_array()?.get(i as usize)?.as_u64() };
    let name = (|| {
        let frame = get("stackTable", "frame", idx)?;
        let func = get("frameTable", "func", frame)?;
        let name = get("funcTable", "name", func)?;
        let s = t.get("stringArray")?.as_array()?.get(name as usize)?.as_str()?;
        Some(s.to_string())
    })();
    match name {
        Some(s) if s.starts_with('s') && s[1..].parse::<u64>().is_ok() => s[1..].to_string(),
        Some(s) => format!("?{s}"),
        None => format!("?idx{idx}"),
    }
}

fn deltas_line(tag: &str, deltas: &[Option<i128>]) -> String {
    let mut s = tag.to_string();
    for d in deltas {
        match d {
            Some(d) => s.push_str(&format!(" {d}")),
            None => s.push_str(" nan"),
        }
    }
    s
}

/// cumulative times; sorting of the payload inside runs of equal time
fn emit_rows<K: Ord + Clone>(tag: &str, deltas: &[Option<i128>], payload: Vec<(K, String)>, out: &mut Vec<String>) {
    if deltas.iter().any(|d| d.is_none()) || payload.len() != deltas.len() {
        return;
    }
    let mut times = Vec::with_capacity(deltas.len());
    let mut acc: i128 = 0;
    for d in deltas {
        acc += d.unwrap();
        times.push(acc);
    }
    let mut i = 0;
    while i < times.len() {
        let mut j = i + 1;
        while j < times.len() && times[j] == times[i] {
            j += 1;
        }
        let mut group: Vec<(K, String)> = payload[i..j].to_vec();
        group.sort_by(|a, b| a.0.cmp(&b.0));
        for (_, s) in group {
            out.push(format!("{tag} {} {s}", times[i]));
        }
        i = j;
    }
}

fn int_of(v: &Value) -> Option<i128> {
    if let Some(i) = v.as_i64() {
        return Some(i as i128);
    }
    if let Some(u) = v.as_u64() {
        return Some(u as i128);
    }
    let x = v.as_f64()?;
    if x.is_finite() && x.fract() == 0.0 && x.abs() <= 9007199254740992.0 {
        Some(x as i128)
    } else {
        None
    }
}

/// canonical token of an `f64` (the same classes as `C04.cvalOfBits`)
fn canon_token(x: f64) -> String {
    if x == 0.0 {
        return if x.is_sign_negative() { "-0.0".to_string() } else { "0".to_string() };
    }
    if x.is_finite() && x.fract() == 0.0 && x.abs() <= 9007199254740992.0 {
        return format!("{}", x as i128);
    }
    format!("f{:016x}", x.to_bits())
}

fn f64_of_token(s: &str) -> f64 {
    if s == "-0.0" {
        -0.0
    } else if let Some(h) = s.strip_prefix('f') {
        f64::from_bits(u64::from_str_radix(h, 16).unwrap())
    } else {
        s.parse::<i64>().unwrap() as f64
    }
}

/// (sort key, token) of a serialized counter value
fn count_token(v: &Value) -> ((u8, i128), String) {
    match v {
        Value::Null => ((3, 0), "null".to_string()),
        _ => match v.as_f64() {
            Some(x) => {
                let t = canon_token(x);
                let key = if t == "-0.0" {
                    (1, 0)
                } else if t.starts_with('f') {
                    (2, x.to_bits() as i128)
                } else {
                    (0, t.parse::<i128>().unwrap())
                };
                (key, t)
            }
            None => ((4, 0), format!("?{v}")),
        },
    }
}

struct Mk {
    name: StringHandle,
}
impl StaticSchemaMarker for Mk {
    const UNIQUE_MARKER_TYPE_NAME: &'static str = "C04Marker";
    const CATEGORY: Category<'static> = Category("C04Cat", CategoryColor::Green);
    const FIELDS: &'static [StaticSchemaMarkerField] = &[];
    fn name(&self, _p: &mut Profile) -> StringHandle {
        self.name
    }
    fn string_field_value(&self, _i: u32) -> StringHandle {
        unreachable!()
    }
    fn number_field_value(&self, _i: u32) -> f64 {
        unreachable!()
    }
}

const NTHREADS: usize = 3;
const NCOUNTERS: usize = 2;

/// `add@2` -> ("add", 2); `add` -> ("add", 0)
fn split_target(w: &str) -> (&str, usize) {
    match w.split_once('@') {
        Some((a, i)) => (a, i.parse().unwrap()),
        None => (w, 0),
    }
}

impl C04 {
    fn exhaustive_thread(&self, len: usize, full: bool, out: &mut Vec<Case>) {
        // alphabet per step: add × timestamps {0..3} × cpu choices (× stack choices when `full`), merge × timestamps
        let cpus: &[u64] = if full { &[0, 999, 5000] } else { &[0, 5000] };
        let nstack = if full { 2 } else { 1 };
        let n_add = 4 * cpus.len() * nstack;
        let alphabet = n_add + 4;
        let mut idx = vec![0usize; len];
        loop {
            let mut ops = Vec::with_capacity(len);
            for (pos, &c) in idx.iter().enumerate() {
                let w = 1i64 << pos; // distinct weights make every row distinguishable
                if c < n_add {
                    let t = c % 4;
                    let cpu = cpus[(c / 4) % cpus.len()];
                    let stack = if full {
                        if c / (4 * cpus.len()) == 0 { "none".to_string() } else { "0".to_string() }
                    } else if pos % 2 == 0 {
                        format!("{}", pos % NSTACKS)
                    } else {
                        "none".to_string()
                    };
                    ops.push(format!("add {t} {stack} {cpu} {w}"));
                } else {
                    ops.push(format!("merge {} {w}", c - n_add));
                }
            }
            let name = format!(
                "x{}{}-{}",
                if full { "f" } else { "r" },
                len,
                idx.iter().map(|c| format!("{c:02}")).collect::<Vec<_>>().join("")
            );
            out.push(Case { name, ops });
            let mut k = 0;
            loop {
                if k == len {
                    return;
                }
                idx[k] += 1;
                if idx[k] < alphabet {
                    break;
                }
                idx[k] = 0;
                k += 1;
            }
        }
    }

    fn exhaustive_counter(&self, len: usize, out: &mut Vec<Case>) {
        let mut idx = vec![0usize; len];
        loop {
            let ops: Vec<String> =
                idx.iter().enumerate().map(|(pos, &t)| format!("addc {t} {} {}", (pos as i64 + 1) * if pos % 2 == 0 { 1 } else { -1 }, 10 + pos)).collect();
            out.push(Case { name: format!("xc{}-{}", len, idx.iter().map(|c| format!("{c}")).collect::<String>()), ops });
            let mut k = 0;
            loop {
                if k == len {
                    return;
                }
                idx[k] += 1;
                if idx[k] < 4 {
                    break;
                }
                idx[k] = 0;
                k += 1;
            }
        }
    }
}

impl C04 {
    /// every history of length `len` over: add@{0,1} x t{0,1,2} x cpu{0,5000}, merge@{0,1} x t{0,1,2}, alloc@1 (lands in
    /// thread 0), marker@0 with another stack, ser
    fn exhaustive_profile(&self, len: usize, reduced: bool, out: &mut Vec<Case>) {
        // reduced: add@0 x t{0,1} x cpu{0,5000}, merge@0 x t{0,1}, add@1 1 cpu 0, merge@1 0, alloc@1, ser
        const REDUCED: [usize; 10] = [0, 2, 6, 8, 12, 14, 3, 13, 18, 20];
        let alphabet = if reduced { REDUCED.len() } else { 21usize };
        let mut idx = vec![0usize; len];
        loop {
            let mut ops = Vec::with_capacity(len);
            for (pos, &c) in idx.iter().enumerate() {
                let w = 1i64 << pos;
                let c = if reduced { REDUCED[c] } else { c };
                ops.push(match c {
                    0..=11 => format!("add@{} {} {} {} {w}", c % 2, (c / 2) % 3, if pos % 2 == 0 { "0" } else { "none" }, if c / 6 == 0 { 0 } else { 5000 }),
                    12..=17 => format!("merge@{} {} {w}", c % 2, (c - 12) / 2),
                    18 => "alloc@1 1 2 4096 64".to_string(),
                    19 => "marker@0 1 2".to_string(),
                    _ => "ser".to_string(),
                });
            }
            out.push(Case { name: format!("xp{}{}-{}", if reduced { "r" } else { "" }, len, idx.iter().map(|c| format!("{c:02}")).collect::<Vec<_>>().join("")), ops });
            let mut k = 0;
            loop {
                if k == len {
                    return;
                }
                idx[k] += 1;
                if idx[k] < alphabet {
                    break;
                }
                idx[k] = 0;
                k += 1;
            }
        }
    }
}

/// a counter value token: integers, `-0.0`, fractions, neighbours in the last bit, subnormals, huge values, NaN, +-inf
fn gen_cval(rng: &mut Rng) -> String {
    let x: f64 = match rng.below(16) {
        0..=2 => (rng.below(2000) as f64) - 1000.0,
        3 => -0.0,
        4 => 0.0,
        5 => 0.5 * (rng.below(9) as f64 - 4.0),
        6 => (rng.below(1000) as f64) / 10.0,
        7 => 1e-9 * (rng.range(1, 9) as f64),
        8 => f64::from_bits(0.1f64.to_bits() + rng.below(3)),
        9 => f64::from_bits(rng.range(1, 5)), // subnormal
        10 => -f64::from_bits(rng.range(1, 5)),
        11 => 1e300 * (rng.range(1, 9) as f64),
        12 => 9007199254740992.0 + 2.0 * (rng.below(3) as f64), // integer-valued at / beyond 2^53
        13 => f64::NAN,
        14 => if rng.chance(1, 2) { f64::INFINITY } else { f64::NEG_INFINITY },
        _ => f64::from_bits(rng.next_u64()),
    };
    canon_token(x)
}

fn gen_thread_call(rng: &mut Rng, i: u64, t: u64) -> String {
    if rng.chance(1, 2) {
        format!("add@{i} {t} {} {} {}", gen_stack(rng), gen_cpu(rng), gen_weight(rng))
    } else {
        format!("merge@{i} {t} {}", gen_weight(rng))
    }
}

/// a call of `Thread` other than the two sample calls
fn gen_neighbour(rng: &mut Rng, i: u64, t: u64) -> String {
    match rng.below(4) {
        0..=1 => format!("alloc@{i} {t} {} {} {}", gen_stack(rng), rng.below(1 << 40), rng.below(8192) as i64 - 4096),
        2 => format!("marker@{i} {t} {}", gen_stack(rng)),
        _ => format!("wtype@{i} {}", rng.below(3)),
    }
}

fn gen_cpu(rng: &mut Rng) -> u64 {
    match rng.below(20) {
        0..=7 => 0,
        8..=11 => rng.range(1, 999), // sub-microsecond: truncates to ZERO, merge-eligible
        12 => 1000,
        13..=16 => rng.range(1001, 20_000),
        17..=18 => rng.range(20_000, 5_000_000_000),
        _ => u64::MAX - rng.below(2000),
    }
}

fn gen_weight(rng: &mut Rng) -> i64 {
    match rng.below(10) {
        0..=3 => 1,
        4 => -1,
        5 => 0,
        6..=7 => rng.range(2, 100) as i64,
        8 => -(rng.range(2, 100) as i64),
        _ => rng.range(0, 2_000_000) as i64 - 1_000_000,
    }
}

fn gen_stack(rng: &mut Rng) -> String {
    match rng.below(4) {
        0 => "none".to_string(),
        k => format!("{}", k - 1),
    }
}

impl Prop for C04 {
    fn id(&self) -> &'static str {
        "C04"
    }
    fn case_count(&self, tier: Tier) -> u64 {
        match tier {
            Tier::Quick => 6000,
            Tier::Thorough => 200_000,
        }
    }
    fn fixed_cases(&self, tier: Tier) -> Vec<Case> {
        let mut v = Vec::new();
        let lit = |name: &str, ops: &[&str]| Case { name: name.to_string(), ops: ops.iter().map(|s| s.to_string()).collect() };
        // the history repaired by cfcb4a41 and neighbours of it
        v.push(lit("legacy", &["add 10 none 0 1", "merge 20 1", "add 15 none 0 1"]));
        v.push(lit("legacy-stack", &["add 10 1 999 1", "merge 20 1", "merge 30 4", "add 15 2 7000 1", "merge 12 3"]));
        v.push(lit("merge-back", &["add 10 0 0 1", "add 20 1 0 2", "merge 5 4", "add 7 2 3000 8"]));
        v.push(lit("merge-first", &["merge 7 3", "merge 4 5", "add 5 1 1000 1", "merge 5 2"]));
        v.push(lit("ties", &["add 5 0 1000 1", "add 5 1 2000 2", "add 5 2 3000 3", "add 4 none 4000 4", "addc 5 1 1", "addc 5 2 2", "addc 4 3 3"]));
        v.push(lit("empty", &[]));
        v.push(lit("big-times", &["add 1099511627775 0 0 1", "add 1099511627774 1 18446744073709551615 -5", "add 0 2 1 2147483647", "addc 1099511627775 9007199254740991 4294967295", "addc 1 -9007199254740991 0"]));
        // the excluded point: merged weight leaves i32
        v.push(lit("overflow-pos", &["add 1 none 0 2147483647", "merge 2 1"]));
        v.push(lit("overflow-neg", &["add 3 0 500 -2147483648", "add 1 1 0 5", "merge 2 -2147483647", "merge 2 -7", "add 0 2 0 1"]));
        v.push(lit("overflow-edge-ok", &["add 1 none 0 2147483646", "merge 2 1", "merge 0 -2147483647", "merge 0 -2147483648"]));
        // --- profile level: serialize in the middle, neighbouring Thread calls, interleaved threads, f64 counter values
        // out-of-order table, serialize, one more sample, serialize again (a cached sort order would be stale)
        v.push(lit("ser-cache", &["add 20 0 5000 1", "add 10 1 5000 2", "ser", "add 5 2 5000 4", "ser", "add 30 none 0 8", "merge 7 16", "ser"]));
        v.push(lit("ser-cache-counter", &["addc 20 1 1", "addc 10 2 2", "ser", "addc 5 3 3", "ser", "addc 30 f3fe0000000000000 4"]));
        v.push(lit("ser-sorted-then-unsorted", &["add 10 0 0 1", "ser", "merge 20 2", "ser", "add 15 1 0 4", "ser", "addc 3 1 1", "ser", "addc 2 2 2"]));
        // a call of another kind between `add` and `merge` must not disturb last_sample_stack / last_sample_was_zero_cpu
        v.push(lit("alloc-between", &["add 10 0 5000 1", "alloc@0 11 2 4096 64", "merge 12 2"]));
        v.push(lit("alloc-between-zero", &["add 10 0 0 1", "alloc@1 11 2 4096 -64", "merge 12 2", "alloc@0 13 none 8192 1", "merge 14 4"]));
        v.push(lit("marker-between", &["add@1 10 1 5000 1", "marker@1 11 2", "merge@1 12 2", "wtype@1 2", "merge@1 13 4"]));
        v.push(lit("alloc-routing", &["alloc@1 5 1 100 10", "alloc@2 6 2 200 -20", "alloc@0 4 none 300 30", "ser", "alloc@2 1 0 400 40"]));
        // threads interleaved: the merge fields are per thread
        v.push(lit("interleaved", &["add@0 10 0 5000 1", "add@1 11 2 0 2", "merge@0 12 4", "merge@1 13 8", "add@2 9 1 0 16", "merge@2 8 32", "merge@0 7 64"]));
        v.push(lit("interleaved-counters", &["addc@0 5 1 1", "addc@1 4 2 2", "addc@0 3 3 3", "addc@1 6 4 4", "ser", "addc@1 1 5 5"]));
        // f64 counter values: fraction, -0.0 next to 0, neighbours in the last bit, subnormal, huge, NaN, +-inf
        v.push(lit("counter-f64", &["addc 5 f3fe0000000000000 1", "addc 5 -0.0 2", "addc 5 0 3", "addc 4 f3fb999999999999a 4", "addc 4 f3fb999999999999b 5", "addc 3 f0000000000000001 6", "addc 9 f7e37e43c8800759c 7"]));
        v.push(lit("counter-nonfinite", &["addc 5 f7ff8000000000000 1", "addc 4 f7ff0000000000000 2", "addc 4 ffff0000000000000 3", "addc 6 1 4"]));
        v.push(lit("overflow-other-thread", &["add@1 1 none 0 2147483647", "add@0 1 none 0 1", "merge@0 2 2147483646", "ser", "merge@1 2 1"]));
        let (max_full, max_red, max_c, max_p) = match tier {
            Tier::Quick => (3, 4, 5, 4),
            Tier::Thorough => (4, 5, 7, 4),
        };
        for len in 1..=3 {
            self.exhaustive_profile(len, false, &mut v);
        }
        for len in 4..=max_p {
            self.exhaustive_profile(len, true, &mut v);
        }
        for len in 1..=max_full {
            self.exhaustive_thread(len, true, &mut v);
        }
        for len in (max_full + 1)..=max_red {
            self.exhaustive_thread(len, false, &mut v);
        }
        for len in 1..=max_c {
            self.exhaustive_counter(len, &mut v);
        }
        v
    }
    fn generate(&self, rng: &mut Rng, _tier: Tier, index: u64) -> Vec<String> {
        let family = index % 12;
        let len = if rng.chance(1, 12) { rng.range(80, 400) } else { rng.range(1, 30) } as usize;
        let mut ops = Vec::with_capacity(len);
        match family {
            // 0-2: timestamps drawn from a small range: many ties and inversions
            0..=2 => {
                let r = *rng.pick(&[2u64, 3, 5, 8, 20, 60]);
                let scale = *rng.pick(&[1u64, 1, 1000, 999_983]);
                for _ in 0..len {
                    let t = rng.below(r) * scale;
                    match rng.below(20) {
                        0..=8 => ops.push(format!("add {t} {} {} {}", gen_stack(rng), gen_cpu(rng), gen_weight(rng))),
                        9..=15 => ops.push(format!("merge {t} {}", gen_weight(rng))),
                        _ => ops.push(format!("addc {t} {} {}", gen_weight(rng) * 7, rng.below(50))),
                    }
                }
            }
            // 3: increasing time with idle runs (the intended use of the merge call) and occasional steps back
            3 => {
                let mut t = rng.below(1000);
                for _ in 0..len {
                    let back = rng.chance(1, 8);
                    let step = rng.below(2000);
                    t = if back { t.saturating_sub(step) } else { t + step };
                    match rng.below(10) {
                        0..=3 => ops.push(format!("add {t} {} {} 1", gen_stack(rng), gen_cpu(rng))),
                        4..=8 => ops.push(format!("merge {t} 1")),
                        _ => ops.push(format!("addc {t} {} 1", rng.below(4096))),
                    }
                }
            }
            // 4: sorted prefix, one late inversion / late backwards merge (sortedness flag must flip exactly then)
            4 => {
                let mut t = rng.below(50);
                let flip = rng.below(len as u64) as usize;
                for i in 0..len {
                    t += rng.below(4);
                    let tt = if i == flip && rng.chance(3, 4) { t.saturating_sub(rng.range(1, 6)) } else { t };
                    if rng.chance(1, 2) {
                        ops.push(format!("add {tt} {} {} {}", gen_stack(rng), if rng.chance(1, 2) { 0 } else { gen_cpu(rng) }, gen_weight(rng)));
                    } else {
                        ops.push(format!("merge {tt} {}", gen_weight(rng)));
                    }
                    if rng.chance(1, 6) {
                        ops.push(format!("addc {tt} {} {}", i as i64 - 7, i));
                    }
                }
            }
            // 5: wide timestamps (up to 2^40 - 1), large cpu deltas
            5 => {
                for _ in 0..len {
                    let t = match rng.below(4) {
                        0 => rng.below(TS_LIMIT),
                        1 => TS_LIMIT - 1 - rng.below(3),
                        2 => rng.below(3),
                        _ => rng.below(1 << 20),
                    };
                    match rng.below(10) {
                        0..=4 => ops.push(format!("add {t} {} {} {}", gen_stack(rng), gen_cpu(rng), gen_weight(rng))),
                        5..=7 => ops.push(format!("merge {t} {}", gen_weight(rng))),
                        _ => ops.push(format!("addc {t} {} {}", rng.below(1 << 53) as i64 - (1i64 << 52), rng.below(1 << 32))),
                    }
                }
            }
            // 6: counters only, ties and inversions
            6 => {
                let r = *rng.pick(&[2u64, 4, 10, 1000]);
                for i in 0..len {
                    ops.push(format!("addc {} {} {}", rng.below(r), gen_weight(rng) * 3 + i as i64, rng.below(1000)));
                }
            }
            // 8: three threads and two counters interleaved, neighbouring calls and serializations sprinkled in
            8 => {
                let r = *rng.pick(&[3u64, 6, 20]);
                for _ in 0..len.min(60) {
                    let t = rng.below(r);
                    let i = rng.below(NTHREADS as u64);
                    match rng.below(20) {
                        0..=10 => ops.push(gen_thread_call(rng, i, t)),
                        11..=13 => ops.push(format!("addc@{} {t} {} {}", rng.below(NCOUNTERS as u64), gen_cval(rng), rng.below(50))),
                        14..=16 => ops.push(gen_neighbour(rng, i, t)),
                        _ => ops.push("ser".to_string()),
                    }
                }
            }
            // 9: one table goes out of order, is serialized, and grows further (earlier and later samples), several times
            9 => {
                let i = rng.below(NTHREADS as u64);
                let j = rng.below(NCOUNTERS as u64);
                let counter = rng.chance(1, 3);
                let mut t = 100 + rng.below(50);
                for k in 0..len.min(40) {
                    t = if rng.chance(1, 3) { t.saturating_sub(rng.range(1, 30)) } else { t + rng.below(10) };
                    if counter {
                        ops.push(format!("addc@{j} {t} {} {k}", gen_cval(rng)));
                    } else {
                        ops.push(gen_thread_call(rng, i, t));
                    }
                    if rng.chance(1, 4) {
                        ops.push("ser".to_string());
                    }
                }
            }
            // 10: `add` (zero / non-zero cpu), a call of another kind on the same thread / process, `merge`
            10 => {
                let mut t = rng.below(100);
                for _ in 0..len.min(24) {
                    let i = rng.below(NTHREADS as u64);
                    t += rng.below(5);
                    ops.push(format!("add@{i} {t} {} {} {}", gen_stack(rng), if rng.chance(1, 2) { 0 } else { 5000 }, gen_weight(rng)));
                    for _ in 0..rng.range(1, 2) {
                        let n = if rng.chance(3, 4) { i } else { rng.below(NTHREADS as u64) };
                        ops.push(gen_neighbour(rng, n, t + 1));
                    }
                    if rng.chance(1, 4) {
                        ops.push(gen_thread_call(rng, (i + 1) % NTHREADS as u64, t));
                    }
                    ops.push(format!("merge@{i} {} {}", t + rng.below(3), gen_weight(rng)));
                }
            }
            // 11: f64 counter values (fractions, -0.0, neighbours, subnormal, huge, non-finite), ties and inversions
            11 => {
                let r = *rng.pick(&[2u64, 4, 10, 1000]);
                for _ in 0..len.min(80) {
                    ops.push(format!("addc@{} {} {} {}", rng.below(NCOUNTERS as u64), rng.below(r), gen_cval(rng), rng.below(1000)));
                    if rng.chance(1, 10) {
                        ops.push("ser".to_string());
                    }
                }
            }
            // 7: the excluded point: weights near the i32 limits, merged
            _ => {
                let r = *rng.pick(&[3u64, 10]);
                for _ in 0..len.min(12) {
                    let w: i64 = match rng.below(6) {
                        0 => i32::MAX as i64 - rng.below(3) as i64,
                        1 => i32::MIN as i64 + rng.below(3) as i64,
                        2 => 1 << 30,
                        3 => -(1 << 30),
                        4 => 1,
                        _ => -1,
                    };
                    let t = rng.below(r);
                    if rng.chance(2, 5) {
                        ops.push(format!("add {t} {} {} {w}", gen_stack(rng), if rng.chance(2, 3) { rng.below(1000) } else { 2000 }));
                    } else {
                        ops.push(format!("merge {t} {w}"));
                    }
                }
            }
        }
        ops
    }
    fn execute(&self, ops: &[String], stats: &mut Stats) -> Vec<String> {
        let mut profile = Profile::new("c04", ReferenceTimestamp::from_millis_since_unix_epoch(0.0), SamplingInterval::from_millis(1));
        // a decoy process / thread / counter, created first, so that picking the wrong table would be noticed
        let decoy_process = profile.add_process("decoy", 9, ts(0));
        let decoy_thread = profile.add_thread(decoy_process, 7, ts(0), false);
        profile.add_sample(decoy_thread, ts(123_456), None, CpuDelta::from_nanos(77_000), 77);
        let decoy_counter = profile.add_counter(decoy_process, "decoy", "cat", "decoy counter");
        profile.add_counter_sample(decoy_counter, ts(654_321), 77.0, 77);
        let proc_p = profile.add_process("p", 1, ts(0));
        let proc_q = profile.add_process("q", 2, ts(0));
        // thread i has tid i + 1; threads 0 and 1 live in process P (0 is created first), thread 2 in process Q
        let threads: Vec<ThreadHandle> =
            vec![profile.add_thread(proc_p, 1, ts(0), true), profile.add_thread(proc_p, 2, ts(0), false), profile.add_thread(proc_q, 3, ts(0), true)];
        let counters: Vec<CounterHandle> =
            vec![profile.add_counter(proc_p, "c04-0", "cat", "counter under test"), profile.add_counter(proc_q, "c04-1", "cat", "counter under test")];
        let mut stacks: Vec<Vec<StackHandle>> = Vec::new();
        for &thread in &threads {
            let mut st: Vec<StackHandle> = Vec::new();
            for k in 0..NSTACKS {
                let label = profile.handle_for_string(&format!("s{k}"));
                let frame = profile.handle_for_frame_with_label(thread, label, CategoryHandle::OTHER, FrameFlags::empty());
                // s1 is a child of s0, s0 and s2 are roots
                let parent = if k == 1 { Some(st[0]) } else { None };
                st.push(profile.handle_for_stack(thread, frame, parent));
            }
            stacks.push(st);
        }
        let marker_name = profile.handle_for_string("m");

        // statistics only
        let mut last_zero = [false; NTHREADS];
        let mut calls = [0usize; NTHREADS];
        let mut last_t: [Option<u64>; NTHREADS] = [None; NTHREADS];
        let mut last_kind: [u8; NTHREADS] = [0; NTHREADS]; // 1 = add, 2 = neighbour call after an add
        let mut last_global_thread: Option<usize> = None;
        let mut inversions = 0u64;
        let mut ties = 0u64;
        let mut sers = 0u64;
        let mut unsorted_before_ser = false;
        let mut grew_after_unsorted_ser = false;
        let mut out = Vec::new();
        let mut snap = 0usize;
        for (j, l) in ops.iter().enumerate() {
            let w: Vec<&str> = l.split_whitespace().collect();
            let (tag, i) = split_target(w[0]);
            if tag == "ser" {
                stats.bump("op_ser");
                sers += 1;
                if inversions > 0 {
                    unsorted_before_ser = true;
                }
                match self.snapshot(&profile, snap, stats) {
                    Ok(mut lines) => out.append(&mut lines),
                    Err(e) => return vec![e],
                }
                snap += 1;
                continue;
            }
            let stack_of = |s: &str| if s == "none" { None } else { Some(stacks[i][s.parse::<usize>().unwrap()]) };
            let r = catch_unwind(AssertUnwindSafe(|| match tag {
                "add" => {
                    let t: u64 = w[1].parse().unwrap();
                    let cpu: u64 = w[3].parse().unwrap();
                    let weight: i32 = w[4].parse().unwrap();
                    profile.add_sample(threads[i], ts(t), stack_of(w[2]), CpuDelta::from_nanos(cpu), weight);
                }
                "merge" => {
                    let t: u64 = w[1].parse().unwrap();
                    let weight: i32 = w[2].parse().unwrap();
                    profile.add_sample_same_stack_zero_cpu(threads[i], ts(t), weight);
                }
                "alloc" => {
                    let t: u64 = w[1].parse().unwrap();
                    let addr: u64 = w[3].parse().unwrap();
                    let size: i64 = w[4].parse().unwrap();
                    profile.add_allocation_sample(threads[i], ts(t), stack_of(w[2]), addr, size);
                }
                "marker" => {
                    let t: u64 = w[1].parse().unwrap();
                    let m = profile.add_marker(threads[i], MarkerTiming::Instant(ts(t)), Mk { name: marker_name });
                    profile.set_marker_stack(threads[i], m, stack_of(w[2]));
                }
                "wtype" => {
                    let k: u8 = w[1].parse().unwrap();
                    profile.set_thread_samples_weight_type(threads[i], match k {
                        0 => WeightType::Samples,
                        1 => WeightType::TracingMs,
                        _ => WeightType::Bytes,
                    });
                }
                "addc" => {
                    let t: u64 = w[1].parse().unwrap();
                    let n: u32 = w[3].parse().unwrap();
                    profile.add_counter_sample(counters[i], ts(t), f64_of_token(w[2]), n);
                }
                other => panic!("bad op {other}"),
            }));
            if r.is_err() {
                stats.bump("panic_in_call");
                return vec![format!("panic op {j}")];
            }
            if unsorted_before_ser && matches!(tag, "add" | "merge" | "addc") {
                grew_after_unsorted_ser = true;
            }
            match tag {
                "add" | "merge" => {
                    calls[i] += 1;
                    if i != 0 {
                        stats.bump("thread_call_not_on_thread_0");
                    }
                    if let Some(g) = last_global_thread {
                        if g != i {
                            stats.bump("thread_call_after_call_on_other_thread");
                        }
                    }
                    last_global_thread = Some(i);
                    let t: u64 = w[1].parse().unwrap();
                    if let Some(lt) = last_t[i] {
                        if t < lt {
                            inversions += 1;
                        } else if t == lt {
                            ties += 1;
                        }
                    }
                    last_t[i] = Some(t);
                    if tag == "add" {
                        let cpu: u64 = w[3].parse().unwrap();
                        stats.bump("op_add");
                        if cpu == 0 {
                            stats.bump("add_cpu_zero");
                        } else if cpu < 1000 {
                            stats.bump("add_cpu_sub_microsecond");
                        } else {
                            stats.bump("add_cpu_nonzero");
                        }
                        if w[2] == "none" {
                            stats.bump("add_stack_none");
                        }
                        last_zero[i] = cpu < 1000;
                        last_kind[i] = 1;
                    } else {
                        stats.bump(if last_zero[i] { "op_merge_extends_last" } else if calls[i] == 1 { "op_merge_first_call" } else { "op_merge_appends" });
                        if last_kind[i] == 2 {
                            stats.bump("merge_after_add_then_neighbour_call");
                        }
                        last_zero[i] = true;
                        last_kind[i] = 0;
                    }
                    if w.last().map(|s| s.starts_with('-')).unwrap_or(false) {
                        stats.bump("negative_weight");
                    }
                }
                "alloc" | "marker" | "wtype" => {
                    stats.bump(&format!("op_{tag}"));
                    // the allocation sample lands in the first thread of the process
                    let target = if tag == "alloc" && i == 1 { 0 } else { i };
                    if last_kind[target] == 1 {
                        last_kind[target] = 2;
                    }
                }
                _ => {
                    stats.bump("op_addc");
                    let v = w[2];
                    stats.bump(if v == "-0.0" {
                        "addc_value_negative_zero"
                    } else if let Some(h) = v.strip_prefix('f') {
                        if f64::from_bits(u64::from_str_radix(h, 16).unwrap()).is_finite() { "addc_value_non_integer_f64" } else { "addc_value_non_finite" }
                    } else {
                        "addc_value_integer"
                    });
                }
            }
        }
        stats.add("thread_call_inversions", inversions);
        stats.add("thread_call_ties", ties);
        if inversions > 0 {
            stats.bump("cases_with_thread_inversion");
        }
        if sers > 0 {
            stats.bump("cases_with_ser_in_the_middle");
        }
        if grew_after_unsorted_ser {
            stats.bump("cases_with_table_growing_after_unsorted_ser");
        }
        if calls.iter().filter(|c| **c > 0).count() > 1 {
            stats.bump("cases_with_several_sampled_threads");
        }
        match self.snapshot(&profile, snap, stats) {
            Ok(mut lines) => out.append(&mut lines),
            Err(e) => return vec![e],
        }
        out
    }
    fn nontrivial(&self, ops: &[String], out: &[String]) -> bool {
        // at least two calls and either two serialized rows or the excluded-point panic
        ops.len() >= 2 && (out.iter().filter(|l| l.contains(" row ") || l.contains(" crow ")).count() >= 2 || out.iter().any(|l| l.starts_with("panic")))
    }
}

impl C04 {
    /// `serde_json::to_value(&profile)` and the canonical lines of the tables under test
    fn snapshot(&self, profile: &Profile, k: usize, stats: &mut Stats) -> Result<Vec<String>, String> {
        let v = match catch_unwind(AssertUnwindSafe(|| serde_json::to_value(profile))) {
            Ok(Ok(v)) => v,
            Ok(Err(_)) => return Err("err:serialize".to_string()),
            Err(_) => {
                stats.bump("panic_in_serialize");
                return Err("panic serialize".to_string());
            }
        };
        let mut out = vec![format!("snap {k}")];
        for i in 0..NTHREADS {
            let tid = format!("{}", i + 1);
            let t = arr(&v, "threads").iter().find(|t| t.get("tid").map(|x| x.to_string().trim_matches('"') == tid).unwrap_or(false));
            let Some(t) = t else { return Err(format!("err:no-thread-{i}")) };
            let p = format!("t{i}");
            let start = out.len();
            let s = &t["samples"];
            let (stack, deltas, weight, cpu) = (arr(s, "stack"), arr(s, "timeDeltas"), arr(s, "weight"), arr(s, "threadCPUDelta"));
            let length = s.get("length").and_then(|x| x.as_u64()).map(|x| x.to_string()).unwrap_or("?".into());
            out.push(format!("{p} len {length} {} {} {} {}", stack.len(), deltas.len(), weight.len(), cpu.len()));
            let d: Vec<Option<i128>> = deltas.iter().map(ns_of_ms).collect();
            out.push(deltas_line(&format!("{p} deltas"), &d));
            let stack_name = |x: &Value| -> (u64, String) {
                match x {
                    Value::Null => (0u64, "none".to_string()),
                    x => match x.as_u64() {
                        Some(idx) => {
                            let l = stack_label(t, idx);
                            (l.parse::<u64>().map(|k| k + 1).unwrap_or(u64::MAX), l)
                        }
                        None => (u64::MAX, format!("?{x}")),
                    },
                }
            };
            if stack.len() == d.len() && weight.len() == d.len() && cpu.len() == d.len() {
                let mut payload = Vec::with_capacity(d.len());
                for r in 0..d.len() {
                    let (skey, sname) = stack_name(&stack[r]);
                    let wv = int_of(&weight[r]);
                    let cv = int_of(&cpu[r]);
                    let ws = wv.map(|x| x.to_string()).unwrap_or(format!("?{}", weight[r]));
                    let cs = cv.map(|x| x.to_string()).unwrap_or(format!("?{}", cpu[r]));
                    payload.push(((skey, wv.unwrap_or(0), cv.unwrap_or(0)), format!("{sname} {ws} {cs}")));
                }
                emit_rows(&format!("{p} row"), &d, payload, &mut out);
            }
            stats.add("rows_serialized", d.len() as u64);
            if d.iter().skip(1).any(|x| *x == Some(0)) {
                stats.bump("snapshots_with_tie_in_output");
            }
            let wt = match s.get("weightType").and_then(|x| x.as_str()) {
                Some("samples") => "0".to_string(),
                Some("tracing-ms") => "1".to_string(),
                Some("bytes") => "2".to_string(),
                other => format!("?{other:?}"),
            };
            let nm = t.get("markers").and_then(|m| m.get("length")).and_then(|x| x.as_u64()).map(|x| x.to_string()).unwrap_or("?".into());
            out.push(format!("{p} meta {wt} {nm}"));
            if let Some(a) = t.get("nativeAllocations") {
                let (time, weight, stack, addr, tidc) = (arr(a, "time"), arr(a, "weight"), arr(a, "stack"), arr(a, "memoryAddress"), arr(a, "threadId"));
                let length = a.get("length").and_then(|x| x.as_u64()).map(|x| x.to_string()).unwrap_or("?".into());
                out.push(format!("{p} allocs {length} {} {} {} {} {}", time.len(), weight.len(), stack.len(), addr.len(), tidc.len()));
                if weight.len() == time.len() && stack.len() == time.len() && addr.len() == time.len() {
                    for r in 0..time.len() {
                        let tn = ns_of_ms(&time[r]).map(|x| x.to_string()).unwrap_or("nan".into());
                        let (_, sname) = stack_name(&stack[r]);
                        let ad = int_of(&addr[r]).map(|x| x.to_string()).unwrap_or(format!("?{}", addr[r]));
                        let sz = int_of(&weight[r]).map(|x| x.to_string()).unwrap_or(format!("?{}", weight[r]));
                        out.push(format!("{p} arow {tn} {sname} {ad} {sz}"));
                    }
                }
                stats.add("allocation_rows_serialized", time.len() as u64);
            }
            // a thread nothing has happened to: one line
            if out.len() == start + 3 && out[start] == format!("{p} len 0 0 0 0 0") && out[start + 1] == format!("{p} deltas") && out[start + 2] == format!("{p} meta 0 0") {
                out.truncate(start);
                out.push(format!("{p} empty"));
            }
        }
        for j in 0..NCOUNTERS {
            let name = format!("c04-{j}");
            let c = arr(&v, "counters").iter().find(|c| c.get("name").and_then(|x| x.as_str()) == Some(name.as_str()));
            let Some(c) = c else { return Err(format!("err:no-counter-{j}")) };
            let p = format!("c{j}");
            let start = out.len();
            let s = &c["samples"];
            let (count, number, deltas) = (arr(s, "count"), arr(s, "number"), arr(s, "timeDeltas"));
            let length = s.get("length").and_then(|x| x.as_u64()).map(|x| x.to_string()).unwrap_or("?".into());
            out.push(format!("{p} clen {length} {} {} {}", count.len(), number.len(), deltas.len()));
            let d: Vec<Option<i128>> = deltas.iter().map(ns_of_ms).collect();
            out.push(deltas_line(&format!("{p} cdeltas"), &d));
            if count.len() == d.len() && number.len() == d.len() {
                let mut payload = Vec::with_capacity(d.len());
                for r in 0..d.len() {
                    let (ckey, cs) = count_token(&count[r]);
                    let nv = int_of(&number[r]);
                    let ns = nv.map(|x| x.to_string()).unwrap_or(format!("?{}", number[r]));
                    payload.push(((ckey, nv.unwrap_or(0)), format!("{cs} {ns}")));
                }
                emit_rows(&format!("{p} crow"), &d, payload, &mut out);
            }
            stats.add("counter_rows_serialized", d.len() as u64);
            if out.len() == start + 2 && out[start] == format!("{p} clen 0 0 0 0") && out[start + 1] == format!("{p} cdeltas") {
                out.truncate(start);
                out.push(format!("{p} empty"));
            }
        }
        Ok(out)
    }
}

fn main() {
    verif_harness::runner::run_main(&C04);
}
