//! C04 — drives the real `fxprof-processed-profile` sample / counter tables through the public API
//! (`Profile::{add_process, add_thread, add_sample, add_sample_same_stack_zero_cpu, add_counter,
//! add_counter_sample}`) and reads the tables back from `serde_json::to_value(&profile)`.
//!
//! ops:  `add <t_ns> <none|k> <cpu_ns> <weight>` | `merge <t_ns> <weight>` | `addc <t_ns> <value> <n>`
//! out:  `len …` / `deltas …` / `row <time> <stack> <weight> <cpu_us>`* / `clen …` / `cdeltas …` /
//!       `crow <time> <count> <number>`*   or   `panic op <j>` | `panic serialize`
//! (see lean/SamplyModel/Iface/C04.lean). Millisecond floats are converted back to integer nanoseconds by
//! `round(x * 1e6)`; all generated timestamps are < 2^40 ns so that this is exact. Rows of equal time are
//! sorted (the implementation's sort is unstable: tie groups are compared as multisets).
use fxprof_processed_profile::{
    CategoryHandle, CpuDelta, FrameFlags, Profile, ReferenceTimestamp, SamplingInterval, StackHandle, Timestamp,
};
use serde_json::Value;
use std::panic::{catch_unwind, AssertUnwindSafe};
use verif_harness::common::*;

pub struct C04;

const NSTACKS: usize = 3;
const TS_LIMIT: u64 = 1 << 40;

fn ts(n: u64) -> Timestamp {
    Timestamp::from_nanos_since_reference(n)
}

/// integer nanoseconds of a millisecond float; `None` when not a finite number
fn ns_of_ms(v: &Value) -> Option<i128> {
    let x = v.as_f64()?;
    if !x.is_finite() {
        return None;
    }
    Some((x * 1e6).round() as i128)
}

fn arr<'a>(v: &'a Value, key: &str) -> &'a [Value] {
    v.get(key).and_then(|a| a.as_array()).map(|a| a.as_slice()).unwrap_or(&[])
}

/// label of the leaf frame of stack `idx` of thread `t` ("s<k>" for the k-th pre-made stack)
fn stack_label(t: &Value, idx: u64) -> String {
    let get = |tbl: &str, col: &str, i: u64| -> Option<u64> { t.get(tbl)?.get(col)?.as_array()?.get(i as usize)?.as_u64() };
    let name = (|| {
        let frame = get("stackTable", "frame", idx)?;
        let func = get("frameTable", "func", frame)?;
        let name = get("funcTable", "name", func)?;
        let s = t.get("stringArray")?.as_array()?.get(name as usize)?.as_str()?;
        Some(s.to_string())
    })();
    match name {
        Some(s) if s.starts_with('s') && s[1..].parse::<u64>().is_ok() => s[1..].to_string(),
        Some(s) => format!("?{s}"),
        None => format!("?idx{idx}"),
    }
}

fn deltas_line(tag: &str, deltas: &[Option<i128>]) -> String {
    let mut s = tag.to_string();
    for d in deltas {
        match d {
            Some(d) => s.push_str(&format!(" {d}")),
            None => s.push_str(" nan"),
        }
    }
    s
}

/// cumulative times; sorting of the payload inside runs of equal time
fn emit_rows<K: Ord + Clone>(tag: &str, deltas: &[Option<i128>], payload: Vec<(K, String)>, out: &mut Vec<String>) {
    if deltas.iter().any(|d| d.is_none()) || payload.len() != deltas.len() {
        return;
    }
    let mut times = Vec::with_capacity(deltas.len());
    let mut acc: i128 = 0;
    for d in deltas {
        acc += d.unwrap();
        times.push(acc);
    }
    let mut i = 0;
    while i < times.len() {
        let mut j = i + 1;
        while j < times.len() && times[j] == times[i] {
            j += 1;
        }
        let mut group: Vec<(K, String)> = payload[i..j].to_vec();
        group.sort_by(|a, b| a.0.cmp(&b.0));
        for (_, s) in group {
            out.push(format!("{tag} {} {s}", times[i]));
        }
        i = j;
    }
}

fn int_of(v: &Value) -> Option<i128> {
    if let Some(i) = v.as_i64() {
        return Some(i as i128);
    }
    if let Some(u) = v.as_u64() {
        return Some(u as i128);
    }
    let x = v.as_f64()?;
    if x.is_finite() && x.fract() == 0.0 && x.abs() <= 9007199254740992.0 {
        Some(x as i128)
    } else {
        None
    }
}

impl C04 {
    fn exhaustive_thread(&self, len: usize, full: bool, out: &mut Vec<Case>) {
        // alphabet per step: add × timestamps {0..3} × cpu choices (× stack choices when `full`), merge × timestamps
        let cpus: &[u64] = if full { &[0, 999, 5000] } else { &[0, 5000] };
        let nstack = if full { 2 } else { 1 };
        let n_add = 4 * cpus.len() * nstack;
        let alphabet = n_add + 4;
        let mut idx = vec![0usize; len];
        loop {
            let mut ops = Vec::with_capacity(len);
            for (pos, &c) in idx.iter().enumerate() {
                let w = 1i64 << pos; // distinct weights make every row distinguishable
                if c < n_add {
                    let t = c % 4;
                    let cpu = cpus[(c / 4) % cpus.len()];
                    let stack = if full {
                        if c / (4 * cpus.len()) == 0 { "none".to_string() } else { "0".to_string() }
                    } else if pos % 2 == 0 {
                        format!("{}", pos % NSTACKS)
                    } else {
                        "none".to_string()
                    };
                    ops.push(format!("add {t} {stack} {cpu} {w}"));
                } else {
                    ops.push(format!("merge {} {w}", c - n_add));
                }
            }
            let name = format!(
                "x{}{}-{}",
                if full { "f" } else { "r" },
                len,
                idx.iter().map(|c| format!("{c:02}")).collect::<Vec<_>>().join("")
            );
            out.push(Case { name, ops });
            let mut k = 0;
            loop {
                if k == len {
                    return;
                }
                idx[k] += 1;
                if idx[k] < alphabet {
                    break;
                }
                idx[k] = 0;
                k += 1;
            }
        }
    }

    fn exhaustive_counter(&self, len: usize, out: &mut Vec<Case>) {
        let mut idx = vec![0usize; len];
        loop {
            let ops: Vec<String> =
                idx.iter().enumerate().map(|(pos, &t)| format!("addc {t} {} {}", (pos as i64 + 1) * if pos % 2 == 0 { 1 } else { -1 }, 10 + pos)).collect();
            out.push(Case { name: format!("xc{}-{}", len, idx.iter().map(|c| format!("{c}")).collect::<String>()), ops });
            let mut k = 0;
            loop {
                if k == len {
                    return;
                }
                idx[k] += 1;
                if idx[k] < 4 {
                    break;
                }
                idx[k] = 0;
                k += 1;
            }
        }
    }
}

fn gen_cpu(rng: &mut Rng) -> u64 {
    match rng.below(20) {
        0..=7 => 0,
        8..=11 => rng.range(1, 999), // sub-microsecond: truncates to ZERO, merge-eligible
        12 => 1000,
        13..=16 => rng.range(1001, 20_000),
        17..=18 => rng.range(20_000, 5_000_000_000),
        _ => u64::MAX - rng.below(2000),
    }
}

fn gen_weight(rng: &mut Rng) -> i64 {
    match rng.below(10) {
        0..=3 => 1,
        4 => -1,
        5 => 0,
        6..=7 => rng.range(2, 100) as i64,
        8 => -(rng.range(2, 100) as i64),
        _ => rng.range(0, 2_000_000) as i64 - 1_000_000,
    }
}

fn gen_stack(rng: &mut Rng) -> String {
    match rng.below(4) {
        0 => "none".to_string(),
        k => format!("{}", k - 1),
    }
}

impl Prop for C04 {
    fn id(&self) -> &'static str {
        "C04"
    }
    fn case_count(&self, tier: Tier) -> u64 {
        match tier {
            Tier::Quick => 6000,
            Tier::Thorough => 300_000,
        }
    }
    fn fixed_cases(&self, tier: Tier) -> Vec<Case> {
        let mut v = Vec::new();
        let lit = |name: &str, ops: &[&str]| Case { name: name.to_string(), ops: ops.iter().map(|s| s.to_string()).collect() };
        // the history repaired by cfcb4a41 and neighbours of it
        v.push(lit("legacy", &["add 10 none 0 1", "merge 20 1", "add 15 none 0 1"]));
        v.push(lit("legacy-stack", &["add 10 1 999 1", "merge 20 1", "merge 30 4", "add 15 2 7000 1", "merge 12 3"]));
        v.push(lit("merge-back", &["add 10 0 0 1", "add 20 1 0 2", "merge 5 4", "add 7 2 3000 8"]));
        v.push(lit("merge-first", &["merge 7 3", "merge 4 5", "add 5 1 1000 1", "merge 5 2"]));
        v.push(lit("ties", &["add 5 0 1000 1", "add 5 1 2000 2", "add 5 2 3000 3", "add 4 none 4000 4", "addc 5 1 1", "addc 5 2 2", "addc 4 3 3"]));
        v.push(lit("empty", &[]));
        v.push(lit("big-times", &["add 1099511627775 0 0 1", "add 1099511627774 1 18446744073709551615 -5", "add 0 2 1 2147483647", "addc 1099511627775 9007199254740991 4294967295", "addc 1 -9007199254740991 0"]));
        // the excluded point: merged weight leaves i32
        v.push(lit("overflow-pos", &["add 1 none 0 2147483647", "merge 2 1"]));
        v.push(lit("overflow-neg", &["add 3 0 500 -2147483648", "add 1 1 0 5", "merge 2 -2147483647", "merge 2 -7", "add 0 2 0 1"]));
        v.push(lit("overflow-edge-ok", &["add 1 none 0 2147483646", "merge 2 1", "merge 0 -2147483647", "merge 0 -2147483648"]));
        let (max_full, max_red, max_c) = match tier {
            Tier::Quick => (3, 4, 5),
            Tier::Thorough => (4, 5, 7),
        };
        for len in 1..=max_full {
            self.exhaustive_thread(len, true, &mut v);
        }
        for len in (max_full + 1)..=max_red {
            self.exhaustive_thread(len, false, &mut v);
        }
        for len in 1..=max_c {
            self.exhaustive_counter(len, &mut v);
        }
        v
    }
    fn generate(&self, rng: &mut Rng, _tier: Tier, index: u64) -> Vec<String> {
        let family = index % 8;
        let len = if rng.chance(1, 12) { rng.range(80, 400) } else { rng.range(1, 30) } as usize;
        let mut ops = Vec::with_capacity(len);
        match family {
            // 0-2: timestamps drawn from a small range: many ties and inversions
            0..=2 => {
                let r = *rng.pick(&[2u64, 3, 5, 8, 20, 60]);
                let scale = *rng.pick(&[1u64, 1, 1000, 999_983]);
                for _ in 0..len {
                    let t = rng.below(r) * scale;
                    match rng.below(20) {
                        0..=8 => ops.push(format!("add {t} {} {} {}", gen_stack(rng), gen_cpu(rng), gen_weight(rng))),
                        9..=15 => ops.push(format!("merge {t} {}", gen_weight(rng))),
                        _ => ops.push(format!("addc {t} {} {}", gen_weight(rng) * 7, rng.below(50))),
                    }
                }
            }
            // 3: increasing time with idle runs (the intended use of the merge call) and occasional steps back
            3 => {
                let mut t = rng.below(1000);
                for _ in 0..len {
                    let back = rng.chance(1, 8);
                    let step = rng.below(2000);
                    t = if back { t.saturating_sub(step) } else { t + step };
                    match rng.below(10) {
                        0..=3 => ops.push(format!("add {t} {} {} 1", gen_stack(rng), gen_cpu(rng))),
                        4..=8 => ops.push(format!("merge {t} 1")),
                        _ => ops.push(format!("addc {t} {} 1", rng.below(4096))),
                    }
                }
            }
            // 4: sorted prefix, one late inversion / late backwards merge (sortedness flag must flip exactly then)
            4 => {
                let mut t = rng.below(50);
                let flip = rng.below(len as u64) as usize;
                for i in 0..len {
                    t += rng.below(4);
                    let tt = if i == flip && rng.chance(3, 4) { t.saturating_sub(rng.range(1, 6)) } else { t };
                    if rng.chance(1, 2) {
                        ops.push(format!("add {tt} {} {} {}", gen_stack(rng), if rng.chance(1, 2) { 0 } else { gen_cpu(rng) }, gen_weight(rng)));
                    } else {
                        ops.push(format!("merge {tt} {}", gen_weight(rng)));
                    }
                    if rng.chance(1, 6) {
                        ops.push(format!("addc {tt} {} {}", i as i64 - 7, i));
                    }
                }
            }
            // 5: wide timestamps (up to 2^40 - 1), large cpu deltas
            5 => {
                for _ in 0..len {
                    let t = match rng.below(4) {
                        0 => rng.below(TS_LIMIT),
                        1 => TS_LIMIT - 1 - rng.below(3),
                        2 => rng.below(3),
                        _ => rng.below(1 << 20),
                    };
                    match rng.below(10) {
                        0..=4 => ops.push(format!("add {t} {} {} {}", gen_stack(rng), gen_cpu(rng), gen_weight(rng))),
                        5..=7 => ops.push(format!("merge {t} {}", gen_weight(rng))),
                        _ => ops.push(format!("addc {t} {} {}", rng.below(1 << 53) as i64 - (1i64 << 52), rng.below(1 << 32))),
                    }
                }
            }
            // 6: counters only, ties and inversions
            6 => {
                let r = *rng.pick(&[2u64, 4, 10, 1000]);
                for i in 0..len {
                    ops.push(format!("addc {} {} {}", rng.below(r), gen_weight(rng) * 3 + i as i64, rng.below(1000)));
                }
            }
            // 7: the excluded point: weights near the i32 limits, merged
            _ => {
                let r = *rng.pick(&[3u64, 10]);
                for _ in 0..len.min(12) {
                    let w: i64 = match rng.below(6) {
                        0 => i32::MAX as i64 - rng.below(3) as i64,
                        1 => i32::MIN as i64 + rng.below(3) as i64,
                        2 => 1 << 30,
                        3 => -(1 << 30),
                        4 => 1,
                        _ => -1,
                    };
                    let t = rng.below(r);
                    if rng.chance(2, 5) {
                        ops.push(format!("add {t} {} {} {w}", gen_stack(rng), if rng.chance(2, 3) { rng.below(1000) } else { 2000 }));
                    } else {
                        ops.push(format!("merge {t} {w}"));
                    }
                }
            }
        }
        ops
    }
    fn execute(&self, ops: &[String], stats: &mut Stats) -> Vec<String> {
        let mut profile = Profile::new("c04", ReferenceTimestamp::from_millis_since_unix_epoch(0.0), SamplingInterval::from_millis(1));
        let process = profile.add_process("p", 1, ts(0));
        // a decoy thread and counter, created first, so that picking the wrong table would be noticed
        let decoy_thread = profile.add_thread(process, 7, ts(0), false);
        profile.add_sample(decoy_thread, ts(123_456), None, CpuDelta::from_nanos(77_000), 77);
        let decoy_counter = profile.add_counter(process, "decoy", "cat", "decoy counter");
        profile.add_counter_sample(decoy_counter, ts(654_321), 77.0, 77);
        let thread = profile.add_thread(process, 1, ts(0), true);
        let counter = profile.add_counter(process, "c04", "cat", "counter under test");
        let mut stacks: Vec<StackHandle> = Vec::new();
        for k in 0..NSTACKS {
            let label = profile.handle_for_string(&format!("s{k}"));
            let frame = profile.handle_for_frame_with_label(thread, label, CategoryHandle::OTHER, FrameFlags::empty());
            // s1 is a child of s0, s0 and s2 are roots
            let parent = if k == 1 { Some(stacks[0]) } else { None };
            stacks.push(profile.handle_for_stack(thread, frame, parent));
        }

        let mut j = 0usize; // index among thread calls
        let mut last_zero = false; // statistics only
        let mut last_t: Option<u64> = None;
        let mut inversions = 0u64;
        let mut ties = 0u64;
        for l in ops {
            let w: Vec<&str> = l.split_whitespace().collect();
            let r = catch_unwind(AssertUnwindSafe(|| match w[0] {
                "add" => {
                    let t: u64 = w[1].parse().unwrap();
                    let stack = if w[2] == "none" { None } else { Some(stacks[w[2].parse::<usize>().unwrap()]) };
                    let cpu: u64 = w[3].parse().unwrap();
                    let weight: i32 = w[4].parse().unwrap();
                    profile.add_sample(thread, ts(t), stack, CpuDelta::from_nanos(cpu), weight);
                }
                "merge" => {
                    let t: u64 = w[1].parse().unwrap();
                    let weight: i32 = w[2].parse().unwrap();
                    profile.add_sample_same_stack_zero_cpu(thread, ts(t), weight);
                }
                "addc" => {
                    let t: u64 = w[1].parse().unwrap();
                    let value: i64 = w[2].parse().unwrap();
                    let n: u32 = w[3].parse().unwrap();
                    profile.add_counter_sample(counter, ts(t), value as f64, n);
                }
                other => panic!("bad op {other}"),
            }));
            if r.is_err() {
                stats.bump("panic_in_call");
                return vec![format!("panic op {j}")];
            }
            match w[0] {
                "add" | "merge" => {
                    j += 1;
                    let t: u64 = w[1].parse().unwrap();
                    if let Some(lt) = last_t {
                        if t < lt {
                            inversions += 1;
                        } else if t == lt {
                            ties += 1;
                        }
                    }
                    last_t = Some(t);
                    if w[0] == "add" {
                        let cpu: u64 = w[3].parse().unwrap();
                        stats.bump("op_add");
                        if cpu == 0 {
                            stats.bump("add_cpu_zero");
                        } else if cpu < 1000 {
                            stats.bump("add_cpu_sub_microsecond");
                        } else {
                            stats.bump("add_cpu_nonzero");
                        }
                        if w[2] == "none" {
                            stats.bump("add_stack_none");
                        }
                        last_zero = cpu < 1000;
                    } else {
                        stats.bump(if last_zero { "op_merge_extends_last" } else if j == 1 { "op_merge_first_call" } else { "op_merge_appends" });
                        last_zero = true;
                    }
                    if w.last().map(|s| s.starts_with('-')).unwrap_or(false) {
                        stats.bump("negative_weight");
                    }
                }
                _ => stats.bump("op_addc"),
            }
        }
        stats.add("thread_call_inversions", inversions);
        stats.add("thread_call_ties", ties);
        if inversions > 0 {
            stats.bump("cases_with_thread_inversion");
        }

        let v = match catch_unwind(AssertUnwindSafe(|| serde_json::to_value(&profile))) {
            Ok(Ok(v)) => v,
            Ok(Err(_)) => return vec!["err:serialize".to_string()],
            Err(_) => {
                stats.bump("panic_in_serialize");
                return vec!["panic serialize".to_string()];
            }
        };
        let mut out = Vec::new();
        // --- thread under test: tid "1"
        let t = arr(&v, "threads").iter().find(|t| t.get("tid").map(|x| x.to_string().trim_matches('"') == "1").unwrap_or(false));
        let Some(t) = t else { return vec!["err:no-thread".to_string()] };
        let s = &t["samples"];
        let (stack, deltas, weight, cpu) = (arr(s, "stack"), arr(s, "timeDeltas"), arr(s, "weight"), arr(s, "threadCPUDelta"));
        let length = s.get("length").and_then(|x| x.as_u64()).map(|x| x.to_string()).unwrap_or("?".into());
        out.push(format!("len {length} {} {} {} {}", stack.len(), deltas.len(), weight.len(), cpu.len()));
        let d: Vec<Option<i128>> = deltas.iter().map(ns_of_ms).collect();
        out.push(deltas_line("deltas", &d));
        if stack.len() == d.len() && weight.len() == d.len() && cpu.len() == d.len() {
            let mut payload = Vec::with_capacity(d.len());
            for i in 0..d.len() {
                let (skey, sname) = match &stack[i] {
                    Value::Null => (0u64, "none".to_string()),
                    x => match x.as_u64() {
                        Some(idx) => {
                            let l = stack_label(t, idx);
                            (l.parse::<u64>().map(|k| k + 1).unwrap_or(u64::MAX), l)
                        }
                        None => (u64::MAX, format!("?{x}")),
                    },
                };
                let wv = int_of(&weight[i]);
                let cv = int_of(&cpu[i]);
                let ws = wv.map(|x| x.to_string()).unwrap_or(format!("?{}", weight[i]));
                let cs = cv.map(|x| x.to_string()).unwrap_or(format!("?{}", cpu[i]));
                payload.push(((skey, wv.unwrap_or(0), cv.unwrap_or(0)), format!("{sname} {ws} {cs}")));
            }
            emit_rows("row", &d, payload, &mut out);
        }
        stats.add("rows_serialized", d.len() as u64);
        if d.iter().skip(1).any(|x| *x == Some(0)) {
            stats.bump("cases_with_tie_in_output");
        }
        // --- counter under test: name "c04"
        let c = arr(&v, "counters").iter().find(|c| c.get("name").and_then(|x| x.as_str()) == Some("c04"));
        let Some(c) = c else { return vec!["err:no-counter".to_string()] };
        let s = &c["samples"];
        let (count, number, deltas) = (arr(s, "count"), arr(s, "number"), arr(s, "timeDeltas"));
        let length = s.get("length").and_then(|x| x.as_u64()).map(|x| x.to_string()).unwrap_or("?".into());
        out.push(format!("clen {length} {} {} {}", count.len(), number.len(), deltas.len()));
        let d: Vec<Option<i128>> = deltas.iter().map(ns_of_ms).collect();
        out.push(deltas_line("cdeltas", &d));
        if count.len() == d.len() && number.len() == d.len() {
            let mut payload = Vec::with_capacity(d.len());
            for i in 0..d.len() {
                let cv = int_of(&count[i]);
                let nv = int_of(&number[i]);
                let cs = cv.map(|x| x.to_string()).unwrap_or(format!("?{}", count[i]));
                let ns = nv.map(|x| x.to_string()).unwrap_or(format!("?{}", number[i]));
                payload.push(((cv.unwrap_or(0), nv.unwrap_or(0)), format!("{cs} {ns}")));
            }
            emit_rows("crow", &d, payload, &mut out);
        }
        stats.add("counter_rows_serialized", d.len() as u64);
        out
    }
    fn nontrivial(&self, ops: &[String], out: &[String]) -> bool {
        // at least two calls and either two serialized rows or the excluded-point panic
        ops.len() >= 2 && (out.iter().filter(|l| l.starts_with("row ") || l.starts_with("crow ")).count() >= 2 || out.iter().any(|l| l.starts_with("panic")))
    }
}

fn main() {
    verif_harness::runner::run_main(&C04);
}
