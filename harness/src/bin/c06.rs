//! C06 — symbols and binaries are only ever served from files of the requested build.
//!
//! Drives the real `samply_symbols::SymbolManager` in-process with an in-memory `FileAndPathHelper`
//! that serves, per case, a generated list of candidate files.
//!
//! File references (`<ref>`, no blanks) say how a file's bytes are (re)built, so that a case replays
//! from its op lines alone:
//!
//!   base := fix/<path under repo/fixtures> | elf:<k=v;…> | macho:<k=v;…> | sym:<k=v;…> | jit:<k=v;…>
//!         | raw:<hex> | missing | fat:[<ref>|<ref>|…] | trunc:<n>:<base>
//!         | pad:<n>:<fill hex>:<base>     n bytes appended (multi-MiB debuglink companions)
//!         | idx:<base>                    the .symindex the real BreakpadIndexCreator builds from <base>
//!         | dyld:<base>                   <base> offered as a dyld shared cache (InDyldCache candidate / cache path)
//!   ref  := base (+p<offset>:<hex>)*            (byte patches applied last)
//!
//! Next to its reference every candidate carries its *abstract description* — what the real parsers
//! report when the file is loaded on its own (determined at generation time by doing exactly that):
//!
//!   symbol-map view:  ok:<DEBUGID> | open | parse | fat:<m>,<m>,…     m = <arch|->/<UUID|->/<ok:…|parse>
//!   binary view:      ok:<DEBUGID|none>:<codeid|none> | open | parse | fat:…
//!
//! The Lean model computes the expected outcome from the abstract descriptions only.
//!
//! ops (first line = header, `header_lines` = 1):
//!   symmap <DEBUGID>                                   then `cand <ref> <symview> truth=<DEBUGID from the spec|-> mark=<marker|->`*
//!   symidx <DEBUGID>                                   then `cand <symref> own=<ID> side=<ok:ID|open|parse> idx=<ref> mark=<marker> stale=<0|1> symhead=<hex> sideinfo=<hex|->`*
//!   dyld <sym|bin> <disamb>                            then `cache <ref> <symview|binview>`*
//!   binary name=<0|1> id=<DEBUGID|none> code=<codeid|none> arch=<arch|none>   then `cand <ref> <binview>`*
//!   fat <disamb>                                       then `member <ref> <arch|-> <UUID|-> <symres> <binres>`*
//!        disamb := none | arch:<a> | best:<a>,<b>,… | native | id:<DEBUGID>
//!   debuglink <mainref> probe=<hex> link=<0|1> wanted=<crc> id=<DEBUGID|none> base=<marker>
//!        then `cand <ref> readable=<0|1> crc=<n> parses=<0|1> marker=<marker|?>`*
//!   sup <mainref> probe=<hex> link=<0|1> wanted=<hex> id=<DEBUGID|none> base=<marker>
//!        then `cand <ref> readable=<0|1> object=<0|1> buildid=<hex|none> marker=<marker|?>`*
//!   pdb <mainref> probe=<hex> id=<DEBUGID> base=<marker>   then at most one `cand <ref> <symview> marker=<marker|?>`
//! out:
//!   symmap / symidx:  `ok <DEBUGID> from <k> [shows <marker>]` | `err <kind> [<kind>…]`
//!   dyld:    `ok <DEBUGID|none>` | `err <kind>`
//!   binary:  `ok <DEBUGID|none> <codeid|none>` | `err <kind>`
//!   fat:     `bin ok <arch|none> <DEBUGID|none> <codeid|none>` | `bin err <kind>`, then `sym ok <DEBUGID>` | `sym err <kind>`
//!   debuglink / sup / pdb:  `id <DEBUGID>` and `used <marker>`  |  `err <kind>`
use samply_symbols::debugid::DebugId;
use samply_symbols::{
    CandidatePathInfo, CodeId, ElfBuildId, Error, FileAndPathHelper, FileAndPathHelperResult,
    FileLocation, FramesLookupResult, LibraryInfo, LookupAddress, MultiArchDisambiguator,
    OptionallySendFuture, PeCodeId, SymbolManager,
};
use std::collections::HashMap;
use std::panic::{catch_unwind, AssertUnwindSafe};
use std::sync::{Arc, Mutex, OnceLock};
use verif_harness::common::*;
use verif_harness::gen::elf_ids::*;

// ---------------------------------------------------------------------------------------------
// in-memory helper

#[derive(Clone, Debug)]
struct Loc(String);
impl std::fmt::Display for Loc {
    fn fmt(&self, f: &mut std::fmt::Formatter<'_>) -> std::fmt::Result {
        write!(f, "{}", self.0)
    }
}
impl FileLocation for Loc {
    fn location_for_dyld_subcache(&self, _: &str) -> Option<Self> {
        None
    }
    fn location_for_external_object_file(&self, _: &str) -> Option<Self> {
        None
    }
    /// `<name>.pdb` — present in the file table only in `pdb` cases
    fn location_for_pdb_from_binary(&self, _: &str) -> Option<Self> {
        Some(Loc(format!("{}.pdb", self.0)))
    }
    fn location_for_source_file(&self, _: &str) -> Option<Self> {
        None
    }
    /// `<name>.symindex` — present in the file table only in `symidx` cases
    fn location_for_breakpad_symindex(&self) -> Option<Self> {
        Some(Loc(format!("{}.symindex", self.0)))
    }
    fn location_for_dwo(&self, _: &str, _: &str) -> Option<Self> {
        None
    }
    fn location_for_dwp(&self) -> Option<Self> {
        None
    }
}

#[derive(Clone)]
struct Bytes(Arc<Vec<u8>>);
impl std::ops::Deref for Bytes {
    type Target = [u8];
    fn deref(&self) -> &[u8] {
        &self.0
    }
}

#[derive(Default)]
struct Mem {
    files: HashMap<String, Arc<Vec<u8>>>,
    debug_cands: Vec<String>,
    bin_cands: Vec<String>,
    dl_cands: Vec<String>,
    sup_cands: Vec<String>,
    /// what `get_dyld_shared_cache_paths` answers
    dyld_caches: Vec<String>,
    /// names in `debug_cands` / `bin_cands` that are offered as `CandidatePathInfo::InDyldCache`
    in_dyld: std::collections::HashSet<String>,
}
const DYLIB_PATH: &str = "/usr/lib/libverif.dylib";
impl Mem {
    fn cand(&self, n: &str) -> CandidatePathInfo<Loc> {
        if self.in_dyld.contains(n) {
            CandidatePathInfo::InDyldCache { dyld_cache_path: Loc(n.to_string()), dylib_path: DYLIB_PATH.to_string() }
        } else {
            CandidatePathInfo::SingleFile(Loc(n.to_string()))
        }
    }
}
impl FileAndPathHelper for Mem {
    type F = Bytes;
    type FL = Loc;
    fn get_candidate_paths_for_debug_file(&self, _: &LibraryInfo) -> FileAndPathHelperResult<Vec<CandidatePathInfo<Loc>>> {
        Ok(self.debug_cands.iter().map(|n| self.cand(n)).collect())
    }
    fn get_candidate_paths_for_binary(&self, _: &LibraryInfo) -> FileAndPathHelperResult<Vec<CandidatePathInfo<Loc>>> {
        Ok(self.bin_cands.iter().map(|n| self.cand(n)).collect())
    }
    fn get_dyld_shared_cache_paths(&self, _: Option<&str>) -> FileAndPathHelperResult<Vec<Loc>> {
        Ok(self.dyld_caches.iter().map(|n| Loc(n.clone())).collect())
    }
    fn get_candidate_paths_for_gnu_debug_link_dest(&self, _: &Loc, _: &str) -> FileAndPathHelperResult<Vec<Loc>> {
        Ok(self.dl_cands.iter().map(|n| Loc(n.clone())).collect())
    }
    fn get_candidate_paths_for_supplementary_debug_file(&self, _: &Loc, _: &str, _: &ElfBuildId) -> FileAndPathHelperResult<Vec<Loc>> {
        Ok(self.sup_cands.iter().map(|n| Loc(n.clone())).collect())
    }
    fn load_file(&self, location: Loc) -> std::pin::Pin<Box<dyn OptionallySendFuture<Output = FileAndPathHelperResult<Bytes>> + '_>> {
        let r = self.files.get(&location.0).cloned();
        Box::pin(async move {
            match r {
                Some(b) => Ok(Bytes(b)),
                None => Err(Box::new(std::io::Error::new(std::io::ErrorKind::NotFound, "no such file")) as Box<dyn std::error::Error + Send + Sync>),
            }
        })
    }
}

fn block<T>(f: impl std::future::Future<Output = T>) -> T {
    futures::executor::block_on(f)
}

// ---------------------------------------------------------------------------------------------
// file references -> bytes

fn fixtures_root() -> String {
    if let Ok(r) = std::env::var("VERIF_REPO") {
        return format!("{r}/fixtures");
    }
    if let Ok(r) = std::env::var("VERIF_ROOT") {
        return format!("{r}/repo-link/fixtures");
    }
    concat!(env!("CARGO_MANIFEST_DIR"), "/../repo-link/fixtures").to_string()
}

fn fixture(path: &str) -> Option<Arc<Vec<u8>>> {
    static CACHE: OnceLock<Mutex<HashMap<String, Option<Arc<Vec<u8>>>>>> = OnceLock::new();
    let m = CACHE.get_or_init(|| Mutex::new(HashMap::new()));
    if let Some(v) = m.lock().unwrap().get(path) {
        return v.clone();
    }
    if path.contains("..") {
        return None;
    }
    let v = std::fs::read(format!("{}/{}", fixtures_root(), path)).ok().filter(|b| !b.is_empty()).map(Arc::new);
    m.lock().unwrap().insert(path.to_string(), v.clone());
    v
}

fn kv(s: &str) -> HashMap<String, String> {
    s.split(';').filter_map(|p| p.split_once('=')).map(|(k, v)| (k.to_string(), v.to_string())).collect()
}

fn split_top(s: &str, sep: char) -> Vec<&str> {
    // split at `sep` outside of [...]
    let mut out = Vec::new();
    let (mut depth, mut start) = (0i32, 0usize);
    for (i, c) in s.char_indices() {
        match c {
            '[' => depth += 1,
            ']' => depth -= 1,
            c if c == sep && depth == 0 => {
                out.push(&s[start..i]);
                start = i + c.len_utf8();
            }
            _ => {}
        }
    }
    out.push(&s[start..]);
    out
}

fn uuid_bytes(hex32: &str) -> Option<[u8; 16]> {
    let v = unhex(hex32);
    if hex32.len() == 32 && v.len() == 16 {
        let mut a = [0u8; 16];
        a.copy_from_slice(&v);
        Some(a)
    } else {
        None
    }
}

/// `None` = the file does not exist (the helper's `load_file` fails).
fn materialize(r: &str) -> Option<Arc<Vec<u8>>> {
    let parts = split_top(r, '+');
    let base = parts[0];
    let mut data: Arc<Vec<u8>> = if base == "missing" {
        return None;
    } else if let Some(p) = base.strip_prefix("fix/") {
        fixture(p)?
    } else if let Some(h) = base.strip_prefix("raw:") {
        Arc::new(unhex(h))
    } else if let Some(rest) = base.strip_prefix("trunc:") {
        let (n, inner) = rest.split_once(':')?;
        let d = materialize(inner)?;
        let n: usize = n.parse().ok()?;
        Arc::new(d[..n.min(d.len())].to_vec())
    } else if let Some(rest) = base.strip_prefix("pad:") {
        // pad:<n>:<fill byte hex>:<base> — `n` bytes appended (the file stays a valid object file)
        let mut it = rest.splitn(3, ':');
        let n: usize = it.next()?.parse().ok()?;
        let fill = u8::from_str_radix(it.next()?, 16).ok()?;
        let d = materialize(it.next()?)?;
        let mut v = d.to_vec();
        v.resize(v.len() + n, fill);
        Arc::new(v)
    } else if let Some(inner) = base.strip_prefix("dyld:") {
        // the file `<inner>` offered as a dyld shared cache (`CandidatePathInfo::InDyldCache` / a cache path)
        materialize(inner)?
    } else if let Some(rest) = base.strip_prefix("idxmi:") {
        // idxmi:<hex>:<base> — the `.symindex` of `<base>` re-serialized with the module info `<hex>`: the new module
        // info is appended (4-byte aligned) and the header fields module_info_offset (at 12) / module_info_len (at 16)
        // point at it; all tables stay where they are
        let (h, inner) = rest.split_once(':')?;
        let info = unhex(h);
        let d = materialize(&format!("idx:{inner}"))?;
        let mut v = d.to_vec();
        if v.len() < 20 {
            return None;
        }
        while v.len() % 4 != 0 {
            v.push(0);
        }
        let off = v.len() as u32;
        v[12..16].copy_from_slice(&off.to_le_bytes());
        v[16..20].copy_from_slice(&(info.len() as u32).to_le_bytes());
        v.extend_from_slice(&info);
        Arc::new(v)
    } else if let Some(inner) = base.strip_prefix("idx:") {
        // the `.symindex` that `BreakpadIndexCreator` (the code `ensure_symindex` runs) builds from `<base>`
        let d = materialize(inner)?;
        let mut c = samply_symbols::BreakpadIndexCreator::new();
        c.consume(&d);
        Arc::new(c.finish().ok()?)
    } else if let Some(rest) = base.strip_prefix("fat:[") {
        let inner = rest.strip_suffix(']')?;
        let mut members = Vec::new();
        if !inner.is_empty() {
            for (i, m) in split_top(inner, '|').into_iter().enumerate() {
                let d = materialize(m)?;
                // cpu type from the member's own Mach-O header when it has one
                let (ct, cst) = if d.len() >= 12 && d[0..4] == [0xcf, 0xfa, 0xed, 0xfe] {
                    (u32::from_le_bytes([d[4], d[5], d[6], d[7]]), u32::from_le_bytes([d[8], d[9], d[10], d[11]]))
                } else {
                    (0x0100_0007, 3 + i as u32)
                };
                members.push((ct, cst, d.to_vec()));
            }
        }
        Arc::new(write_fat32(&members))
    } else if let Some(s) = base.strip_prefix("elf:") {
        let m = kv(s);
        let spec = ElfSpec {
            big_endian: m.get("e").map(|e| e == "be").unwrap_or(false),
            build_id: m.get("b").map(|h| unhex(h)),
            with_text: m.get("t").map(|t| t != "-").unwrap_or(true),
            text_fill: m.get("t").and_then(|t| u8::from_str_radix(t, 16).ok()).unwrap_or(0x90),
            symbol: m.get("m").cloned(),
            debuglink: m.get("dl").map(|v| {
                let (n, c) = v.split_once('/').unwrap_or((v, "0"));
                (n.as_bytes().to_vec(), u32::from_str_radix(c, 16).unwrap_or(0))
            }),
            debugaltlink: m.get("alt").map(|v| {
                let (p, h) = v.split_once('/').unwrap_or((v, "-"));
                (p.as_bytes().to_vec(), unhex(h))
            }),
            dwarf_alt_name_offset: m.get("dw").and_then(|v| v.parse().ok()),
            debug_str: m.get("str").map(|v| {
                let mut out = Vec::new();
                for s in v.split(',') {
                    out.extend_from_slice(s.as_bytes());
                    out.push(0);
                }
                out
            }),
        };
        Arc::new(write_elf64(&spec))
    } else if let Some(s) = base.strip_prefix("macho:") {
        let m = kv(s);
        let arch = m.get("arch").map(|s| s.as_str()).unwrap_or("x86_64");
        let uuid = m.get("u").and_then(|u| uuid_bytes(u));
        Arc::new(write_macho64(arch, uuid, m.get("m").map(|s| s.as_str()).unwrap_or("macho_sym")))
    } else if let Some(s) = base.strip_prefix("sym:") {
        let m = kv(s);
        Arc::new(write_breakpad_sym(m.get("id").map(|s| s.as_str()).unwrap_or("0"), m.get("m").map(|s| s.as_str()).unwrap_or("sym_sym")))
    } else if let Some(s) = base.strip_prefix("jit:") {
        let m = kv(s);
        let g = |k: &str| m.get(k).and_then(|v| v.parse::<u64>().ok()).unwrap_or(0);
        Arc::new(write_jitdump_header(g("pid") as u32, g("ts"), g("arch") as u32))
    } else {
        return None;
    };
    for p in &parts[1..] {
        let p = p.strip_prefix('p')?;
        let (off, h) = p.split_once(':')?;
        let off: usize = off.parse().ok()?;
        let bytes = unhex(h);
        let v = Arc::make_mut(&mut data);
        for (i, b) in bytes.iter().enumerate() {
            if off + i < v.len() {
                v[off + i] = *b;
            }
        }
    }
    Some(data)
}

// ---------------------------------------------------------------------------------------------
// ground truth of generated files: the ids a file carries, derived from its *spec* by an independent
// re-implementation of the id rules (ELF build id -> first 16 bytes with the first three fields in the
// file's byte order; text-hash fallback; LC_UUID; MODULE line; jitdump header) — not by asking samply.

fn breakpad_of(u: [u8; 16], age: u32) -> String {
    let mut s = String::new();
    for b in u {
        s.push_str(&format!("{b:02X}"));
    }
    s.push_str(&format!("{age:x}"));
    s
}

fn id_from_identifier(id: &[u8], little_endian: bool) -> String {
    let mut d = [0u8; 16];
    for (i, b) in id.iter().take(16).enumerate() {
        d[i] = *b;
    }
    if little_endian {
        d[0..4].reverse();
        d[4..6].reverse();
        d[6..8].reverse();
    }
    breakpad_of(d, 0)
}

/// `(debug id | "none", code id | "none")` of an unmodified generated file; `None` = no ground truth
/// (fixtures, raw bytes, truncated / patched / padded files, archives)
fn truth_ids(r: &str) -> Option<(String, String)> {
    if r.contains('+') || r.contains('[') {
        return None;
    }
    if let Some(s) = r.strip_prefix("elf:") {
        let m = kv(s);
        let le = m.get("e").map(|e| e != "be").unwrap_or(true);
        if let Some(b) = m.get("b") {
            let b = unhex(b);
            if b.is_empty() {
                return None;
            }
            return Some((id_from_identifier(&b, le), format!("elf-{}", hex(&b))));
        }
        return match m.get("t").map(|t| t.as_str()) {
            Some("-") => Some(("none".into(), "none".into())),
            t => {
                let fill = t.and_then(|t| u8::from_str_radix(t, 16).ok()).unwrap_or(0x90);
                let mut h = [0u8; 16];
                for i in 0..(TEXT_SIZE as usize).min(4096) {
                    h[i % 16] ^= fill;
                }
                Some((id_from_identifier(&h, le), "none".into()))
            }
        };
    }
    if let Some(s) = r.strip_prefix("macho:") {
        let m = kv(s);
        let u = uuid_bytes(m.get("u")?)?;
        let id = breakpad_of(u, 0);
        return Some((id.clone(), format!("macho-{}", &id[..32])));
    }
    if let Some(s) = r.strip_prefix("sym:") {
        let m = kv(s);
        let id = m.get("id")?;
        if id.len() < 33 {
            return None;
        }
        let u = uuid_bytes(&id[..32])?;
        let age = u32::from_str_radix(&id[32..], 16).ok()?;
        return Some((breakpad_of(u, age), "-".into())); // a .sym file is no binary
    }
    if let Some(s) = r.strip_prefix("jit:") {
        let m = kv(s);
        let g = |k: &str| m.get(k).and_then(|v| v.parse::<u64>().ok()).unwrap_or(0);
        let mut c = [0u8; 20];
        c[0..4].copy_from_slice(b"JITD");
        c[4..8].copy_from_slice(&(g("pid") as u32).to_le_bytes());
        c[8..16].copy_from_slice(&g("ts").to_le_bytes());
        c[16..20].copy_from_slice(&(g("arch") as u32).to_le_bytes());
        // a GUID: the first three fields are stored little-endian
        return Some((id_from_identifier(&c[..16], true), "-".into()));
    }
    None
}

/// the symbol name a generated file shows at `PROBE_ADDR` (its `m=`), from the spec
fn spec_marker(r: &str) -> Option<String> {
    if r.contains('+') || r.contains('[') {
        return None;
    }
    if let Some(s) = r.strip_prefix("sym:") {
        // a Breakpad FUNC record with a line record: the symbol and one debug-info frame of the same name
        return kv(s).get("m").map(|m| format!("{m}|{m}"));
    }
    let s = r.strip_prefix("elf:").or_else(|| r.strip_prefix("macho:"))?;
    kv(s).get("m").cloned()
}

// ---------------------------------------------------------------------------------------------
// canonical printing

fn did(d: &DebugId) -> String {
    d.breakpad().to_string()
}
fn odid(d: &Option<DebugId>) -> String {
    d.as_ref().map(did).unwrap_or_else(|| "none".to_string())
}
fn cid(c: &CodeId) -> String {
    match c {
        CodeId::PeCodeId(p) => format!("pe-{:08x}-{:x}", p.timestamp, p.image_size),
        CodeId::MachoUuid(u) => format!("macho-{:X}", u.simple()),
        CodeId::ElfBuildId(b) => format!("elf-{}", hex(&b.0)),
    }
}
fn ocid(c: &Option<CodeId>) -> String {
    c.as_ref().map(cid).unwrap_or_else(|| "none".to_string())
}
fn parse_cid(s: &str) -> Option<CodeId> {
    if let Some(r) = s.strip_prefix("pe-") {
        let (t, i) = r.split_once('-')?;
        Some(CodeId::PeCodeId(PeCodeId { timestamp: u32::from_str_radix(t, 16).ok()?, image_size: u32::from_str_radix(i, 16).ok()? }))
    } else if let Some(r) = s.strip_prefix("macho-") {
        Some(CodeId::MachoUuid(uuid::Uuid::from_bytes(uuid_bytes(r)?)))
    } else if let Some(r) = s.strip_prefix("elf-") {
        Some(CodeId::ElfBuildId(ElfBuildId::from_bytes(&unhex(r))))
    } else {
        None
    }
}
fn parse_did(s: &str) -> Option<DebugId> {
    DebugId::from_breakpad(s).ok()
}

fn err_kind(e: &Error) -> String {
    match e {
        Error::HelperErrorDuringOpenFile(..) => "open".into(),
        Error::UnmatchedDebugId(actual, _) => format!("unmatched:{}", did(actual)),
        Error::UnmatchedDebugIdOptional(_, actual) => format!("unmatched:{}", odid(actual)),
        Error::UnmatchedCodeId(_, actual) => format!("unmatched-code:{}", ocid(actual)),
        Error::NoMatchMultiArch(_) => "fat-nomatch".into(),
        Error::NoDisambiguatorForFatArchive(_) => "fat-nodisamb".into(),
        Error::EmptyFatArchive => "fat-empty".into(),
        Error::NoCandidatePathForDyldCache => "no-dyld-cache".into(),
        Error::NoCandidatePathForDebugFile(_) | Error::NoCandidatePathForBinary(..) => "no-candidates".into(),
        Error::NotEnoughInformationToIdentifyBinary | Error::NotEnoughInformationToIdentifySymbolMap => "not-enough-info".into(),
        Error::NoSuccessfulCandidate(es) => {
            let mut s = "none-ok".to_string();
            for e in es {
                s.push(' ');
                s.push_str(&err_kind(e));
            }
            s
        }
        _ => "parse".into(),
    }
}

fn sanitize(s: &str) -> String {
    s.chars().map(|c| if c.is_ascii_graphic() && c != '?' { c } else { '_' }).collect()
}

/// what a lookup of `probe` shows: `<symbol name>|<function names of the debug-info frames>`
fn marker_of(map: &samply_symbols::SymbolMap<Mem>, probe: u32) -> String {
    match map.lookup_sync(LookupAddress::Relative(probe)) {
        None => "nosym".to_string(),
        Some(info) => {
            let mut s = sanitize(&info.symbol.name);
            if let Some(FramesLookupResult::Available(frames)) = info.frames {
                for f in frames {
                    s.push('|');
                    s.push_str(&sanitize(f.function.as_deref().unwrap_or("-")));
                }
            }
            s
        }
    }
}

// ---------------------------------------------------------------------------------------------
// abstract descriptions: what the real parsers say about one file loaded on its own

#[derive(Clone, Debug, PartialEq)]
enum Res {
    Ok(String),
    Open,
    Parse,
}
impl Res {
    fn show(&self) -> String {
        match self {
            Res::Ok(s) => format!("ok:{s}"),
            Res::Open => "open".into(),
            Res::Parse => "parse".into(),
        }
    }
}
#[derive(Clone, Debug)]
struct MemberAbs {
    arch: Option<String>,
    uuid: Option<String>,
    sym: Res,
    bin: Res,
}
#[derive(Clone, Debug)]
enum Abs {
    Single { sym: Res, bin: Res },
    Fat(Vec<MemberAbs>),
}
impl Abs {
    fn sym_view(&self) -> String {
        match self {
            Abs::Single { sym, .. } => sym.show(),
            Abs::Fat(ms) => format!(
                "fat:{}",
                ms.iter()
                    .map(|m| format!("{}/{}/{}", m.arch.as_deref().unwrap_or("-"), m.uuid.as_deref().unwrap_or("-"), m.sym.show()))
                    .collect::<Vec<_>>()
                    .join(",")
            ),
        }
    }
    fn bin_view(&self) -> String {
        match self {
            Abs::Single { bin, .. } => bin.show(),
            Abs::Fat(ms) => format!(
                "fat:{}",
                ms.iter()
                    .map(|m| format!("{}/{}/{}", m.arch.as_deref().unwrap_or("-"), m.uuid.as_deref().unwrap_or("-"), m.bin.show()))
                    .collect::<Vec<_>>()
                    .join(",")
            ),
        }
    }
}

const NO_ARCH: &str = "no-such-arch";

fn mem_one(data: Option<Arc<Vec<u8>>>) -> SymbolManager<Mem> {
    let mut m = Mem::default();
    if let Some(d) = data {
        m.files.insert("x".into(), d);
    }
    SymbolManager::with_helper(m)
}

fn abs_of_bytes(data: Option<Arc<Vec<u8>>>, allow_fat: bool) -> Abs {
    let sm = mem_one(data.clone());
    let dis = Some(MultiArchDisambiguator::Arch(NO_ARCH.to_string()));
    let symr = catch_unwind(AssertUnwindSafe(|| block(sm.load_symbol_map_from_location(Loc("x".into()), dis.clone()))));
    let binr = catch_unwind(AssertUnwindSafe(|| block(sm.load_binary_at_location(Loc("x".into()), None, None, dis.clone()))));
    // a fat archive answers the impossible architecture with the list of its members
    let members = match (&symr, &binr) {
        (Ok(Err(Error::NoMatchMultiArch(ms))), _) | (_, Ok(Err(Error::NoMatchMultiArch(ms)))) => Some(ms.clone()),
        (Ok(Err(Error::EmptyFatArchive)), _) => Some(Vec::new()),
        _ => None,
    };
    if let (Some(ms), true, Some(d)) = (members, allow_fat, data.as_ref()) {
        let mut out = Vec::new();
        for m in ms {
            let (o, s) = (m.offset_and_size.0 as usize, m.offset_and_size.1 as usize);
            let slice = d.get(o..o + s).map(|b| Arc::new(b.to_vec()));
            let (sym, bin) = match abs_of_bytes(slice, false) {
                Abs::Single { sym, bin } => (sym, bin),
                Abs::Fat(_) => (Res::Parse, Res::Parse),
            };
            out.push(MemberAbs { arch: m.arch.clone(), uuid: m.uuid.map(|u| format!("{:X}", u.simple())), sym, bin });
        }
        return Abs::Fat(out);
    }
    let sym = match symr {
        Ok(Ok(map)) => Res::Ok(did(&map.debug_id())),
        Ok(Err(Error::HelperErrorDuringOpenFile(..))) => Res::Open,
        _ => Res::Parse,
    };
    let bin = match binr {
        Ok(Ok(img)) => Res::Ok(format!("{}:{}", odid(&img.debug_id()), ocid(&img.code_id()))),
        Ok(Err(Error::HelperErrorDuringOpenFile(..))) => Res::Open,
        _ => Res::Parse,
    };
    Abs::Single { sym, bin }
}

/// what looking for `DYLIB_PATH` in this file as a dyld shared cache yields (the real loaders decide)
fn abs_of_dyld(data: Option<Arc<Vec<u8>>>) -> Abs {
    let mut m = Mem::default();
    if let Some(d) = data {
        m.files.insert("x".into(), d);
    }
    m.dyld_caches.push("x".into());
    let sm = SymbolManager::with_helper(m);
    let sym = match catch_unwind(AssertUnwindSafe(|| block(sm.load_symbol_map_for_dyld_cache_image(DYLIB_PATH, None)))) {
        Ok(Ok(map)) => Res::Ok(did(&map.debug_id())),
        Ok(Err(Error::HelperErrorDuringOpenFile(..))) => Res::Open,
        _ => Res::Parse,
    };
    let bin = match catch_unwind(AssertUnwindSafe(|| block(sm.load_binary_for_dyld_cache_image(DYLIB_PATH, None)))) {
        Ok(Ok(img)) => Res::Ok(format!("{}:{}", odid(&img.debug_id()), ocid(&img.code_id()))),
        Ok(Err(Error::HelperErrorDuringOpenFile(..))) => Res::Open,
        _ => Res::Parse,
    };
    Abs::Single { sym, bin }
}

fn abs_of(r: &str) -> Abs {
    static CACHE: OnceLock<Mutex<HashMap<String, Abs>>> = OnceLock::new();
    let m = CACHE.get_or_init(|| Mutex::new(HashMap::new()));
    if let Some(a) = m.lock().unwrap().get(r) {
        return a.clone();
    }
    let a = if r.starts_with("dyld:") { abs_of_dyld(materialize(r)) } else { abs_of_bytes(materialize(r), true) };
    m.lock().unwrap().insert(r.to_string(), a.clone());
    a
}

/// what the file, loaded alone as a symbol map, shows at `PROBE_ADDR` (`-` for archives and unloadable files)
fn mark_of(r: &str) -> String {
    static CACHE: OnceLock<Mutex<HashMap<String, String>>> = OnceLock::new();
    let c = CACHE.get_or_init(|| Mutex::new(HashMap::new()));
    if let Some(v) = c.lock().unwrap().get(r) {
        return v.clone();
    }
    let m = match abs_of(r) {
        Abs::Single { sym: Res::Ok(_), .. } => {
            let sm = mem_one(materialize(r));
            match catch_unwind(AssertUnwindSafe(|| block(sm.load_symbol_map_from_location(Loc("x".into()), None)).map(|m| marker_of(&m, PROBE_ADDR)))) {
                Ok(Ok(m)) => m,
                _ => "-".to_string(),
            }
        }
        _ => "-".to_string(),
    };
    c.lock().unwrap().insert(r.to_string(), m.clone());
    m
}

// ---------------------------------------------------------------------------------------------

pub struct C06;

fn word<'a>(w: &[&'a str], key: &str) -> &'a str {
    let k = format!("{key}=");
    w.iter().find_map(|t| t.strip_prefix(k.as_str())).unwrap_or("")
}

fn exec_symmap(ops: &[String], stats: &mut Stats) -> Vec<String> {
    let w: Vec<&str> = ops[0].split_whitespace().collect();
    let req = match w.get(1) {
        Some(&"none") => None,
        Some(s) => match parse_did(s) {
            Some(d) => Some(d),
            None => return vec!["bad-op".into()],
        },
        None => return vec!["bad-op".into()],
    };
    let mut mem = Mem::default();
    for (k, l) in ops[1..].iter().enumerate() {
        let cw: Vec<&str> = l.split_whitespace().collect();
        if cw.len() < 3 || cw[0] != "cand" {
            return vec!["bad-op".into()];
        }
        let name = format!("c{k}");
        if let Some(d) = materialize(cw[1]) {
            mem.files.insert(name.clone(), d);
        }
        stats.bump(&format!("symmap_cand_{}", cw[2].split(':').next().unwrap_or("")));
        if cw[1].starts_with("dyld:") {
            stats.bump("symmap_cand_in_dyld_cache");
            mem.in_dyld.insert(name.clone());
        }
        mem.debug_cands.push(name);
    }
    stats.bump(&format!("symmap_ncands_{}", (ops.len() - 1).min(9)));
    let sm = SymbolManager::with_helper(mem);
    let info = LibraryInfo { debug_id: req, ..Default::default() };
    match block(sm.load_symbol_map(&info)) {
        Ok(map) => {
            stats.bump("symmap_ok");
            let from = map.debug_file_location().0.trim_start_matches('c').to_string();
            // content-based attribution: what the map shows at the probe address (only when the line of the
            // candidate it is attributed to states a marker)
            let line: Vec<&str> = from.parse::<usize>().ok().and_then(|k| ops.get(k + 1)).map(|l| l.split_whitespace().collect()).unwrap_or_default();
            let mark = word(&line, "mark");
            if mark.is_empty() || mark == "-" {
                vec![format!("ok {} from {}", did(&map.debug_id()), from)]
            } else {
                stats.bump("symmap_ok_with_marker");
                vec![format!("ok {} from {} shows {}", did(&map.debug_id()), from, marker_of(&map, PROBE_ADDR))]
            }
        }
        Err(e) => {
            stats.bump("symmap_err");
            vec![format!("err {}", err_kind(&e))]
        }
    }
}

/// `symidx <DEBUGID>` then `cand <symref> own=<ID> side=<ok:ID|open|parse> idx=<ref> mark=<marker>`:
/// `load_symbol_map` over Breakpad `.sym` candidates that have a `.symindex` sidecar next to them
fn exec_symidx(ops: &[String], stats: &mut Stats) -> Vec<String> {
    let w: Vec<&str> = ops[0].split_whitespace().collect();
    let req = match w.get(1).and_then(|s| parse_did(s)) {
        Some(d) => d,
        None => return vec!["bad-op".into()],
    };
    let mut mem = Mem::default();
    for (k, l) in ops[1..].iter().enumerate() {
        let cw: Vec<&str> = l.split_whitespace().collect();
        if cw.len() < 3 || cw[0] != "cand" {
            return vec!["bad-op".into()];
        }
        let name = format!("c{k}");
        if let Some(d) = materialize(cw[1]) {
            mem.files.insert(name.clone(), d);
        }
        if let Some(d) = materialize(word(&cw, "idx")) {
            mem.files.insert(format!("{name}.symindex"), d);
        }
        stats.bump(&format!("symidx_side_{}", word(&cw, "side").split(':').next().unwrap_or("")));
        if word(&cw, "side").strip_prefix("ok:").map(|d| d != word(&cw, "own")).unwrap_or(false) {
            stats.bump("symidx_side_of_another_build");
        }
        mem.debug_cands.push(name);
    }
    stats.bump(&format!("symidx_ncands_{}", (ops.len() - 1).min(9)));
    let sm = SymbolManager::with_helper(mem);
    let info = LibraryInfo { debug_id: Some(req), ..Default::default() };
    match block(sm.load_symbol_map(&info)) {
        Ok(map) => {
            stats.bump("symidx_ok");
            let from = map.debug_file_location().0.trim_start_matches('c').to_string();
            vec![format!("ok {} from {} shows {}", did(&map.debug_id()), from, marker_of(&map, PROBE_ADDR))]
        }
        Err(e) => {
            stats.bump("symidx_err");
            vec![format!("err {}", err_kind(&e))]
        }
    }
}

/// `dyld <sym|bin> <disamb>` then `cache <ref> <view>`*: `load_symbol_map_for_dyld_cache_image` /
/// `load_binary_for_dyld_cache_image` over the cache paths the helper names
fn exec_dyld(ops: &[String], stats: &mut Stats) -> Vec<String> {
    let w: Vec<&str> = ops[0].split_whitespace().collect();
    if w.len() < 3 {
        return vec!["bad-op".into()];
    }
    let dis = match parse_disamb(w[2]) {
        Some(d) => d,
        None => return vec!["bad-op".into()],
    };
    let mut mem = Mem::default();
    for (k, l) in ops[1..].iter().enumerate() {
        let cw: Vec<&str> = l.split_whitespace().collect();
        if cw.len() < 3 || cw[0] != "cache" {
            return vec!["bad-op".into()];
        }
        let name = format!("cache{k}");
        if let Some(d) = materialize(cw[1]) {
            mem.files.insert(name.clone(), d);
        }
        stats.bump(&format!("dyld_cache_{}", cw[2].split(':').next().unwrap_or("")));
        mem.dyld_caches.push(name);
    }
    stats.bump(&format!("dyld_{}_{}", w[1], w[2].split(':').next().unwrap_or("")));
    let sm = SymbolManager::with_helper(mem);
    if w[1] == "sym" {
        match block(sm.load_symbol_map_for_dyld_cache_image(DYLIB_PATH, dis)) {
            Ok(map) => vec![format!("ok {}", did(&map.debug_id()))],
            Err(e) => vec![format!("err {}", err_kind(&e))],
        }
    } else {
        match block(sm.load_binary_for_dyld_cache_image(DYLIB_PATH, dis)) {
            Ok(img) => vec![format!("ok {}", odid(&img.debug_id()))],
            Err(e) => vec![format!("err {}", err_kind(&e))],
        }
    }
}

/// `side=` of a sidecar: what the real `BreakpadIndex::parse_symindex_file` says about it
fn side_view(idx: &str) -> String {
    match materialize(idx) {
        None => "open".into(),
        Some(d) => match catch_unwind(AssertUnwindSafe(|| samply_symbols::BreakpadIndex::parse_symindex_file(&d[..]).map(|i| did(&i.debug_id)))) {
            Ok(Ok(id)) => format!("ok:{id}"),
            _ => "parse".into(),
        },
    }
}

fn exec_binary(ops: &[String], stats: &mut Stats) -> Vec<String> {
    let w: Vec<&str> = ops[0].split_whitespace().collect();
    let none_or = |s: &str| if s == "none" || s.is_empty() { None } else { Some(s.to_string()) };
    let info = LibraryInfo {
        debug_name: if word(&w, "name") == "1" { Some("lib".to_string()) } else { None },
        debug_id: none_or(word(&w, "id")).and_then(|s| parse_did(&s)),
        code_id: none_or(word(&w, "code")).and_then(|s| parse_cid(&s)),
        arch: none_or(word(&w, "arch")),
        ..Default::default()
    };
    let mut mem = Mem::default();
    for (k, l) in ops[1..].iter().enumerate() {
        let cw: Vec<&str> = l.split_whitespace().collect();
        if cw.len() < 3 || cw[0] != "cand" {
            return vec!["bad-op".into()];
        }
        let name = format!("c{k}");
        if let Some(d) = materialize(cw[1]) {
            mem.files.insert(name.clone(), d);
        }
        stats.bump(&format!("binary_cand_{}", cw[2].split(':').next().unwrap_or("")));
        if cw[1].starts_with("dyld:") {
            stats.bump("binary_cand_in_dyld_cache");
            mem.in_dyld.insert(name.clone());
        }
        mem.bin_cands.push(name);
    }
    stats.bump(&format!("binary_by_{}", if info.debug_id.is_some() { "debugid" } else if info.code_id.is_some() { "codeid" } else { "nothing" }));
    let sm = SymbolManager::with_helper(mem);
    match block(sm.load_binary(&info)) {
        Ok(img) => {
            stats.bump("binary_ok");
            vec![format!("ok {} {}", odid(&img.debug_id()), ocid(&img.code_id()))]
        }
        Err(e) => {
            stats.bump("binary_err");
            vec![format!("err {}", err_kind(&e))]
        }
    }
}

fn parse_disamb(s: &str) -> Option<Option<MultiArchDisambiguator>> {
    Some(if s == "none" {
        None
    } else if s == "native" {
        Some(MultiArchDisambiguator::BestMatchForNative)
    } else if let Some(a) = s.strip_prefix("arch:") {
        Some(MultiArchDisambiguator::Arch(a.to_string()))
    } else if let Some(a) = s.strip_prefix("best:") {
        Some(MultiArchDisambiguator::BestMatch(a.split(',').filter(|x| !x.is_empty()).map(|x| x.to_string()).collect()))
    } else if let Some(a) = s.strip_prefix("id:") {
        Some(MultiArchDisambiguator::DebugId(parse_did(a)?))
    } else {
        return None;
    })
}

fn exec_fat(ops: &[String], stats: &mut Stats) -> Vec<String> {
    let w: Vec<&str> = ops[0].split_whitespace().collect();
    let dis = match w.get(1).and_then(|s| parse_disamb(s)) {
        Some(d) => d,
        None => return vec!["bad-op".into()],
    };
    let mut refs = Vec::new();
    for l in &ops[1..] {
        let cw: Vec<&str> = l.split_whitespace().collect();
        if cw.len() < 6 || cw[0] != "member" {
            return vec!["bad-op".into()];
        }
        refs.push(cw[1].to_string());
    }
    stats.bump(&format!("fat_disamb_{}", w[1].split(':').next().unwrap_or("")));
    stats.bump(&format!("fat_members_{}", refs.len().min(9)));
    let sm = mem_one(materialize(&format!("fat:[{}]", refs.join("|"))));
    let mut out = Vec::new();
    match block(sm.load_binary_at_location(Loc("x".into()), None, None, dis.clone())) {
        Ok(img) => out.push(format!("bin ok {} {} {}", img.arch().unwrap_or("none"), odid(&img.debug_id()), ocid(&img.code_id()))),
        Err(e) => out.push(format!("bin err {}", err_kind(&e))),
    }
    match block(sm.load_symbol_map_from_location(Loc("x".into()), dis)) {
        Ok(map) => out.push(format!("sym ok {}", did(&map.debug_id()))),
        Err(e) => out.push(format!("sym err {}", err_kind(&e))),
    }
    out
}

/// debuglink / sup / pdb: load `main` with the companions on offer and look at the probe address
fn exec_companion(kind: &str, ops: &[String], stats: &mut Stats) -> Vec<String> {
    let w: Vec<&str> = ops[0].split_whitespace().collect();
    if w.len() < 2 {
        return vec!["bad-op".into()];
    }
    let probe = u32::from_str_radix(word(&w, "probe"), 16).unwrap_or(PROBE_ADDR);
    let mut mem = Mem::default();
    if let Some(d) = materialize(w[1]) {
        mem.files.insert("main".into(), d);
    }
    for (k, l) in ops[1..].iter().enumerate() {
        let cw: Vec<&str> = l.split_whitespace().collect();
        if cw.len() < 3 || cw[0] != "cand" {
            return vec!["bad-op".into()];
        }
        let name = match kind {
            "debuglink" => format!("dl{k}"),
            "sup" => format!("sup{k}"),
            _ => "main.pdb".to_string(),
        };
        if let Some(d) = materialize(cw[1]) {
            mem.files.insert(name.clone(), d);
        }
        match kind {
            "debuglink" => mem.dl_cands.push(name),
            "sup" => mem.sup_cands.push(name),
            _ => {}
        }
    }
    stats.bump(&format!("{kind}_ncands_{}", (ops.len() - 1).min(9)));
    let sm = SymbolManager::with_helper(mem);
    match block(sm.load_symbol_map_from_location(Loc("main".into()), None)) {
        Ok(map) => {
            let m = marker_of(&map, probe);
            stats.bump(&format!("{kind}_{}", if m == word(&w, "base") { "companion_not_used" } else { "companion_used" }));
            vec![format!("id {}", did(&map.debug_id())), format!("used {m}")]
        }
        Err(e) => vec![format!("err {}", err_kind(&e))],
    }
}

impl Prop for C06 {
    fn id(&self) -> &'static str {
        "C06"
    }
    fn case_count(&self, tier: Tier) -> u64 {
        match tier {
            Tier::Quick => 4000,
            Tier::Thorough => 80000,
        }
    }
    fn fixed_cases(&self, tier: Tier) -> Vec<Case> {
        families::fixed(tier)
    }
    fn generate(&self, rng: &mut Rng, tier: Tier, _index: u64) -> Vec<String> {
        families::random(rng, tier)
    }
    fn execute(&self, ops: &[String], stats: &mut Stats) -> Vec<String> {
        if ops.is_empty() {
            return vec!["bad-op".into()];
        }
        let kind = ops[0].split_whitespace().next().unwrap_or("").to_string();
        stats.bump(&format!("kind_{kind}"));
        let r = catch_unwind(AssertUnwindSafe(|| match kind.as_str() {
            "symmap" => exec_symmap(ops, stats),
            "symidx" => exec_symidx(ops, stats),
            "dyld" => exec_dyld(ops, stats),
            "binary" => exec_binary(ops, stats),
            "fat" => exec_fat(ops, stats),
            "debuglink" | "sup" | "pdb" => exec_companion(&kind, ops, stats),
            _ => vec!["bad-op".into()],
        }));
        match r {
            Ok(v) => v,
            Err(_) => {
                stats.bump("panics");
                vec!["panic".into()]
            }
        }
    }
    fn nontrivial(&self, ops: &[String], out: &[String]) -> bool {
        ops.len() >= 2 && !out.is_empty() && out[0] != "bad-op"
    }
}

// ---------------------------------------------------------------------------------------------
// generation-time oracles for companion candidates

/// (link present with UTF-8 name, CRC / build id stated in the section, offset of the stated value in the file)
struct MainInfo {
    id: String,
    base: String,
    dl: Option<(u32, usize)>,
    alt: Option<(Vec<u8>, usize)>,
}

fn main_info(mainref: &str, probe: u32) -> MainInfo {
    use samply_symbols::object::{Object, ObjectSection};
    static CACHE: OnceLock<Mutex<HashMap<String, Arc<MainInfo>>>> = OnceLock::new();
    let data = materialize(mainref);
    let mut info = MainInfo { id: "none".into(), base: "nosym".into(), dl: None, alt: None };
    let sm = {
        let mut m = Mem::default();
        if let Some(d) = &data {
            m.files.insert("main".into(), d.clone());
        }
        SymbolManager::with_helper(m)
    };
    if let Ok(map) = block(sm.load_symbol_map_from_location(Loc("main".into()), None)) {
        info.id = did(&map.debug_id());
        info.base = marker_of(&map, probe);
    }
    if let Some(d) = &data {
        if let Ok(f) = samply_symbols::object::File::parse(&d[..]) {
            if let Ok(Some((name, crc))) = f.gnu_debuglink() {
                if std::str::from_utf8(name).is_ok() {
                    if let Some(sec) = f.section_by_name(".gnu_debuglink") {
                        if let Some((off, size)) = sec.file_range() {
                            info.dl = Some((crc, (off + size - 4) as usize));
                        }
                    }
                }
            }
            if let Ok(Some((path, id))) = f.gnu_debugaltlink() {
                if std::str::from_utf8(path).is_ok() {
                    if let Some(sec) = f.section_by_name(".gnu_debugaltlink") {
                        if let Some((off, _)) = sec.file_range() {
                            info.alt = Some((id.to_vec(), off as usize + path.len() + 1));
                        }
                    }
                }
            }
        }
    }
    let _ = &CACHE;
    info
}

/// `cand` line of a debuglink candidate. The symbol map of an accepted companion is built from the
/// companion alone (elf.rs:142-149), so what it shows at `probe` is determined with a reference main
/// file whose stated CRC is the candidate's actual CRC.
fn dl_cand(r: &str, probe: u32) -> String {
    static CACHE: OnceLock<Mutex<HashMap<(String, u32), String>>> = OnceLock::new();
    let c = CACHE.get_or_init(|| Mutex::new(HashMap::new()));
    if let Some(v) = c.lock().unwrap().get(&(r.to_string(), probe)) {
        return v.clone();
    }
    let line = match materialize(r) {
        None => format!("cand {r} readable=0 crc=0 parses=0 marker=?"),
        Some(d) => {
            // the harness's own CRC-32 of the whole file
            let crc = gnu_debuglink_crc32(&d);
            // With `override_debug_id` (elf.rs:147) the only way an accepted companion can still fail is
            // `object::File::parse` (elf.rs:393); asked directly, not through the CRC-guarded path.
            let parses = samply_symbols::object::File::parse(&d[..]).is_ok();
            if !parses {
                format!("cand {r} readable=1 crc={crc} parses=0 marker=?")
            } else {
                let refmain = format!("elf:b=feedfacefeedfacefeedfacefeedface00000000;m=refmain_marker;dl=ref.dbg/{crc:08x}");
                let mut m = Mem::default();
                m.files.insert("main".into(), materialize(&refmain).unwrap());
                m.files.insert("dl0".into(), d);
                m.dl_cands.push("dl0".into());
                let sm = SymbolManager::with_helper(m);
                let marker = match catch_unwind(AssertUnwindSafe(|| block(sm.load_symbol_map_from_location(Loc("main".into()), None)))) {
                    // the reference main shows `refmain_marker` at PROBE_ADDR; anything else there means the companion is in use
                    Ok(Ok(map)) if marker_of(&map, PROBE_ADDR) != "refmain_marker" => marker_of(&map, probe),
                    // an object file whose whole-file CRC-32 is the stated one was refused: the code's CRC differs
                    // from the independent one
                    _ => "crc-drift".to_string(),
                };
                format!("cand {r} readable=1 crc={crc} parses=1 marker={marker}")
            }
        }
    };
    c.lock().unwrap().insert((r.to_string(), probe), line.clone());
    line
}

/// `cand` line of a supplementary-file candidate; the marker is what `mainref` shows at `probe` when
/// its stated build id is this candidate's (only determined when the two ids have the same length).
fn sup_cand(r: &str, mainref: &str, main: &MainInfo, probe: u32) -> String {
    use samply_symbols::object::Object;
    let d = match materialize(r) {
        None => return format!("cand {r} readable=0 object=0 buildid=none marker=?"),
        Some(d) => d,
    };
    let (object, buildid) = match samply_symbols::object::File::parse(&d[..]) {
        Ok(f) => (1, f.build_id().ok().flatten().map(|b| b.to_vec())),
        Err(_) => (0, None),
    };
    let mut marker = "?".to_string();
    if let (Some(b), Some((wanted, off))) = (&buildid, &main.alt) {
        let restated = if b.len() == wanted.len() && !b.is_empty() {
            Some(format!("{mainref}+p{off}:{}", hex(b)))
        } else if mainref.starts_with("elf:") && !mainref.contains('+') && !b.is_empty() {
            // a generated main file: state the candidate's id (of another length) in the link instead
            Some(mainref.replace(&format!("/{}", hex(wanted)), &format!("/{}", hex(b))))
        } else {
            None
        };
        if let Some(refmain) = restated {
            let mut m = Mem::default();
            if let Some(md) = materialize(&refmain) {
                m.files.insert("main".into(), md);
            }
            m.files.insert("sup0".into(), d.clone());
            m.sup_cands.push("sup0".into());
            let sm = SymbolManager::with_helper(m);
            if let Ok(Ok(map)) = catch_unwind(AssertUnwindSafe(|| block(sm.load_symbol_map_from_location(Loc("main".into()), None)))) {
                marker = marker_of(&map, probe);
            }
        }
    }
    format!("cand {r} readable=1 object={object} buildid={} marker={marker}", buildid.map(|b| hex(&b)).unwrap_or_else(|| "none".into()))
}

/// `cand` line of the PDB offered for a PE binary
fn pdb_cand(r: &str, probe: u32) -> String {
    let d = materialize(r);
    let is_msf = d.as_ref().map(|d| d.starts_with(b"Microsoft C/C++ MSF 7.00\r\n")).unwrap_or(false);
    let view = match (&d, is_msf) {
        (None, _) => "open".to_string(),
        (Some(_), false) => "parse".to_string(),
        (Some(_), true) => abs_of(r).sym_view(),
    };
    let mut marker = "?".to_string();
    if view.starts_with("ok:") {
        let sm = mem_one(d);
        if let Ok(map) = block(sm.load_symbol_map_from_location(Loc("x".into()), None)) {
            marker = marker_of(&map, probe);
        }
    }
    format!("cand {r} {view} marker={marker}")
}

mod families {
    use super::*;

    /// `truth=` = the debug id the file carries according to its spec (`-` = no ground truth), `mark=` = what a
    /// lookup of `PROBE_ADDR` shows when the file is loaded alone (`-` = archive / not loadable)
    pub fn cand_sym(r: &str) -> String {
        let truth = truth_ids(r).map(|t| t.0).unwrap_or_else(|| "-".into());
        format!("cand {r} {} truth={truth} mark={}", abs_of(r).sym_view(), mark_of(r))
    }
    pub fn cand_bin(r: &str) -> String {
        let truth = match truth_ids(r) {
            Some((d, c)) if c != "-" => format!("{d}:{c}"),
            _ => "-".into(),
        };
        format!("cand {r} {} truth={truth}", abs_of(r).bin_view())
    }
    fn sym_id(r: &str) -> String {
        match abs_of(r) {
            Abs::Single { sym: Res::Ok(id), .. } => id,
            _ => "00000000000000000000000000000000f".to_string(),
        }
    }
    fn bin_ids(r: &str) -> (String, String) {
        match abs_of(r) {
            Abs::Single { bin: Res::Ok(s), .. } => {
                let (a, b) = s.split_once(':').unwrap();
                (a.to_string(), b.to_string())
            }
            _ => ("none".into(), "none".into()),
        }
    }

    pub fn permutations(n: usize) -> Vec<Vec<usize>> {
        fn go(cur: &mut Vec<usize>, used: &mut Vec<bool>, n: usize, out: &mut Vec<Vec<usize>>) {
            if cur.len() == n {
                out.push(cur.clone());
                return;
            }
            for i in 0..n {
                if !used[i] {
                    used[i] = true;
                    cur.push(i);
                    go(cur, used, n, out);
                    cur.pop();
                    used[i] = false;
                }
            }
        }
        let mut out = Vec::new();
        go(&mut Vec::new(), &mut vec![false; n], n, &mut out);
        out
    }

    /// all arrangements (ordered selections without repetition) of `k` out of `n`
    fn arrangements(n: usize, k: usize) -> Vec<Vec<usize>> {
        fn go(cur: &mut Vec<usize>, n: usize, k: usize, out: &mut Vec<Vec<usize>>) {
            if cur.len() == k {
                out.push(cur.clone());
                return;
            }
            for i in 0..n {
                if !cur.contains(&i) {
                    cur.push(i);
                    go(cur, n, k, out);
                    cur.pop();
                }
            }
        }
        let mut out = Vec::new();
        go(&mut Vec::new(), n, k, &mut out);
        out
    }

    fn flip(b: &[u8], i: usize) -> Vec<u8> {
        let mut v = b.to_vec();
        v[i] ^= 0x5a;
        v
    }
    fn uuid_of(id: &str) -> String {
        id[..32].to_string()
    }
    fn flip_hex_uuid(u: &str, byte: usize) -> String {
        let mut b = unhex(u);
        b[byte] ^= 0x5a;
        hex(&b).to_uppercase()
    }

    /// every order of every set (≤ 5 candidates), plus each candidate alone and the empty list
    fn perm_cases(tag: &str, header: &str, set: &[String], out: &mut Vec<Case>) {
        out.push(Case { name: format!("{tag}-empty"), ops: vec![header.to_string()] });
        for (i, c) in set.iter().enumerate() {
            out.push(Case { name: format!("{tag}-one{i}"), ops: vec![header.to_string(), c.clone()] });
        }
        for p in permutations(set.len()) {
            let mut ops = vec![header.to_string()];
            for &i in &p {
                ops.push(set[i].clone());
            }
            out.push(Case { name: format!("{tag}-p{}", p.iter().map(|i| i.to_string()).collect::<String>()), ops });
        }
    }

    // ----- symbol maps ---------------------------------------------------------------------------

    pub struct Ids {
        pub b: Vec<u8>,      // 20-byte build id
        pub m: String,       // matching ELF
        pub req: String,     // its debug id
        pub uuid: String,
    }
    pub fn ids(seed: u64) -> Ids {
        let mut r = Rng::new(seed);
        let b: Vec<u8> = (0..20).map(|_| r.below(256) as u8).collect();
        let m = format!("elf:b={};m=match_sym", hex(&b));
        let req = sym_id(&m);
        let uuid = uuid_of(&req);
        Ids { b, m, req, uuid }
    }

    fn symmap_sets(seed: u64) -> Vec<(String, String, Vec<String>)> {
        let i = ids(seed);
        let e = |b: &[u8], m: &str| format!("elf:b={};m={m}", hex(b));
        let d_last = e(&flip(&i.b, 15), "d_last");
        let d_mid = e(&flip(&i.b, 8), "d_mid");
        let d_first = e(&flip(&i.b, 0), "d_first");
        let d_be = format!("elf:e=be;b={};m=d_be", hex(&i.b));
        let s_age1 = format!("sym:id={}1;m=s_age1", i.uuid);
        let s_age0 = format!("sym:id={}0;m=s_age0", i.uuid);
        let s_age2 = format!("sym:id={}2;m=s_age2", i.uuid);
        let s_other = format!("sym:id={}0;m=s_other", flip_hex_uuid(&i.uuid, 15));
        let m_same = format!("macho:arch=x86_64;u={};m=m_same", i.uuid);
        let m_mid = format!("macho:arch=x86_64;u={};m=m_mid", flip_hex_uuid(&i.uuid, 8));
        let m_other = format!("macho:arch=arm64;u={};m=m_other", flip_hex_uuid(&i.uuid, 3));
        let fat_yes = format!("fat:[{m_other}|{m_same}]");
        let fat_no = format!("fat:[{m_other}|{m_mid}]");
        let jit = "jit:pid=77;ts=123456;arch=62".to_string();
        let trunc = format!("trunc:4200:{}", i.m);
        let garbage = "raw:0011223344556677".to_string();
        let missing = "missing".to_string();
        let c = |v: &[&String]| v.iter().map(|r| cand_sym(r)).collect::<Vec<_>>();
        let mut sets = vec![
            ("one-match".to_string(), i.req.clone(), c(&[&i.m, &d_last, &d_mid, &s_age1, &missing])),
            ("no-match".to_string(), i.req.clone(), c(&[&d_last, &d_mid, &s_age1, &garbage, &d_be])),
            ("many-match".to_string(), i.req.clone(), c(&[&i.m, &m_same, &d_first, &s_age0, &fat_no])),
            ("fat-match".to_string(), i.req.clone(), c(&[&fat_yes, &m_mid, &jit, &trunc, &fat_no])),
            ("age".to_string(), format!("{}2", i.uuid), c(&[&s_age2, &s_age0, &s_age1, &i.m, &m_same])),
            ("age-nomatch".to_string(), format!("{}3", i.uuid), c(&[&s_age2, &s_age0, &i.m, &fat_yes])),
            ("other".to_string(), sym_id(&s_other), c(&[&s_other, &i.m, &m_other])),
        ];
        // text-hash ids (no build-id note) and files without any id
        let t1 = "elf:t=91;m=t1".to_string();
        let t2 = "elf:t=92;m=t2".to_string();
        let noid = "elf:t=-;m=noid".to_string();
        sets.push(("texthash".to_string(), sym_id(&t1), c(&[&t2, &t1, &noid, &i.m])));
        sets
    }

    fn fixture_symmap_sets() -> Vec<(String, String, Vec<String>)> {
        let c = |v: &[&str]| v.iter().map(|r| cand_sym(r)).collect::<Vec<_>>();
        let wa = sym_id("fix/win64-ci/WriteArgument.pdb");
        let ff = "B993FABD8143361AB199F7DE9DF7E4360".to_string();
        let ffarm = "8E7B0ED0B04F3FCCA05E139E5250BA720".to_string();
        let lin = sym_id("fix/linux64-ci/firefox");
        let near = |id: &str, byte: usize| format!("macho:arch=x86_64;u={};m=near", flip_hex_uuid(&uuid_of(id), byte));
        vec![
            ("fx-pdb".to_string(), wa.clone(), c(&["fix/win64-ci/softokn3.pdb", "fix/win64-ci/WriteArgument.pdb", "fix/win64-ci/softokn3.dll", "fix/win64-ci/WriteArgument.exe", "fix/win64-ci/firefox.pdb"])),
            ("fx-pdb-age".to_string(), format!("{}2", uuid_of(&wa)), c(&["fix/win64-ci/WriteArgument.pdb", "fix/win64-ci/WriteArgument.exe", &format!("sym:id={}2;m=agesym", uuid_of(&wa))])),
            ("fx-fat".to_string(), ff.clone(), c(&["fix/macos-local/firefox", "fix/macos-ci/firefox", "fix/macos-ci/libmozglue.dylib", &near(&ff, 15), &near(&ff, 8)])),
            ("fx-fat-arm".to_string(), ffarm.clone(), c(&["fix/macos-local/firefox", "fix/macos-ci/firefox", &near(&ffarm, 9)])),
            ("fx-elf".to_string(), lin.clone(), c(&["fix/other/example-linux", "fix/linux64-ci/firefox", "fix/other/ls-linux/ls", &format!("sym:id={}1;m=agesym", uuid_of(&lin)), "fix/other/example-linux-fallback"])),
            ("fx-none".to_string(), "0123456789ABCDEF0123456789ABCDEF0".to_string(), c(&["fix/other/example-linux", "fix/macos-ci/firefox", "fix/win64-ci/WriteArgument.pdb", "fix/other/simple-example/out/mac-oso/libfile23.a", "fix/android32-ci/libmozglue.so.dbg"])),
        ]
    }

    // ----- binaries ------------------------------------------------------------------------------

    fn binary_sets(seed: u64) -> Vec<(String, Vec<String>, Vec<String>)> {
        let i = ids(seed);
        let e = |b: &[u8], m: &str| format!("elf:b={};m={m}", hex(b));
        let (mid, mcode) = bin_ids(&i.m);
        let d_tail = e(&flip(&i.b, 19), "d_tail"); // same debug id, other code id
        let d_mid = e(&flip(&i.b, 8), "d_mid");
        let d_short = e(&i.b[..16], "d_short"); // same debug id, code id is a prefix
        let sym_same = format!("sym:id={};m=s", mid);
        let missing = "missing".to_string();
        let c = |v: &[&String]| v.iter().map(|r| cand_bin(r)).collect::<Vec<_>>();
        let reqs = |id: &str, code: &str, arch: &str| {
            vec![
                format!("binary name=1 id={id} code=none arch={arch}"),
                format!("binary name=0 id=none code={code} arch={arch}"),
                format!("binary name=0 id={id} code={code} arch={arch}"),
                format!("binary name=1 id={id} code={code} arch={arch}"),
                format!("binary name=0 id={id} code=none arch={arch}"),
                format!("binary name=1 id=none code=none arch={arch}"),
            ]
        };
        let mut sets = Vec::new();
        sets.push(("elf".to_string(), reqs(&mid, &mcode, "none"), c(&[&d_tail, &i.m, &d_mid, &missing, &sym_same])));
        sets.push(("elf-nomatch".to_string(), reqs(&mid, &mcode, "none"), c(&[&d_tail, &d_short, &d_mid, &sym_same])));
        // Mach-O and fat archives
        let u0 = i.uuid.clone();
        let m0 = format!("macho:arch=x86_64;u={u0};m=m0");
        let m0e = format!("macho:arch=arm64e;u={u0};m=m0e");
        let m1 = format!("macho:arch=x86_64;u={};m=m1", flip_hex_uuid(&u0, 15));
        let m2 = format!("macho:arch=arm64;u={};m=m2", flip_hex_uuid(&u0, 2));
        let fat_a = format!("fat:[{m2}|{m0}]");
        let fat_b = format!("fat:[{m2}|{m1}]");
        let fat_c = format!("fat:[{m0e}]");
        let nouuid = "macho:arch=x86_64;m=nouuid".to_string();
        let (m0id, m0code) = bin_ids(&m0);
        let mut r = reqs(&m0id, &m0code, "none");
        r.extend(reqs(&m0id, &m0code, "x86_64").into_iter().take(2));
        r.extend(reqs(&m0id, &m0code, "arm64").into_iter().take(2));
        sets.push(("macho".to_string(), r.clone(), c(&[&fat_b, &m1, &fat_a, &nouuid, &m0])));
        sets.push(("macho-fat1".to_string(), r, c(&[&fat_c, &fat_b, &m2])));
        // files without ids
        let t1 = "elf:t=91;m=t1".to_string();
        let t2 = "elf:t=92;m=t2".to_string();
        let noid = "elf:t=-;m=noid".to_string();
        let (t1id, _) = bin_ids(&t1);
        sets.push(("noids".to_string(), reqs(&t1id, "elf-00", "none"), c(&[&noid, &t2, &t1])));
        sets
    }

    fn pe_patch_refs(path: &str) -> (String, String, String) {
        // (timestamp patched, CodeView GUID last byte patched, CodeView age patched)
        let d = fixture(path).unwrap();
        let lfanew = u32::from_le_bytes([d[0x3c], d[0x3d], d[0x3e], d[0x3f]]) as usize;
        let ts = format!("fix/{path}+p{}:{:02x}", lfanew + 8, d[lfanew + 8] ^ 0x5a);
        let rsds = d.windows(4).position(|w| w == b"RSDS").unwrap_or(0);
        let guid = format!("fix/{path}+p{}:{:02x}", rsds + 4 + 15, d[rsds + 4 + 15] ^ 0x5a);
        let age = format!("fix/{path}+p{}:{:02x}", rsds + 20, d[rsds + 20] ^ 0x03);
        (ts, guid, age)
    }

    fn fixture_binary_sets() -> Vec<(String, Vec<String>, Vec<String>)> {
        let c = |v: &[&str]| v.iter().map(|r| cand_bin(r)).collect::<Vec<_>>();
        let (id, code) = bin_ids("fix/win64-ci/WriteArgument.exe");
        let (ts, guid, age) = pe_patch_refs("win64-ci/WriteArgument.exe");
        let reqs = vec![
            format!("binary name=1 id={id} code=none arch=none"),
            format!("binary name=0 id=none code={code} arch=none"),
            format!("binary name=1 id={id} code={code} arch=none"),
        ];
        let (lid, lcode) = bin_ids("fix/linux64-ci/firefox");
        let lreqs = vec![format!("binary name=1 id={lid} code=none arch=none"), format!("binary name=0 id=none code={lcode} arch=none")];
        let (fid, fcode) = ("B993FABD8143361AB199F7DE9DF7E4360".to_string(), "macho-B993FABD8143361AB199F7DE9DF7E436".to_string());
        let freqs = vec![
            format!("binary name=1 id={fid} code=none arch=none"),
            format!("binary name=0 id=none code={fcode} arch=x86_64"),
            format!("binary name=0 id=none code={fcode} arch=arm64"),
            format!("binary name=0 id=none code={fcode} arch=none"),
        ];
        vec![
            ("fx-pe".to_string(), reqs.clone(), c(&[&guid, &ts, "fix/win64-ci/WriteArgument.exe", "fix/win64-ci/softokn3.dll", "fix/win64-ci/WriteArgument.pdb"])),
            ("fx-pe-nomatch".to_string(), reqs, c(&[&guid, &age, "fix/win64-ci/firefox.exe", "fix/win64-ci/mozglue.dll"])),
            ("fx-elf".to_string(), lreqs, c(&["fix/other/example-linux", "fix/other/ls-linux/ls", "fix/linux64-ci/firefox", "fix/other/example-linux-fallback"])),
            ("fx-fat".to_string(), freqs, c(&["fix/macos-local/firefox", "fix/macos-ci/libsoftokn3.dylib", "fix/macos-ci/firefox"])),
        ]
    }

    // ----- fat archives --------------------------------------------------------------------------

    fn member_line(r: &str) -> String {
        let a = abs_of(&format!("fat:[{r}]"));
        match a {
            Abs::Fat(ms) if ms.len() == 1 => {
                let m = &ms[0];
                format!("member {r} {} {} {} {}", m.arch.as_deref().unwrap_or("-"), m.uuid.as_deref().unwrap_or("-"), m.sym.show(), m.bin.show())
            }
            _ => format!("member {r} - - parse parse"),
        }
    }

    fn fat_pool(seed: u64) -> (Vec<String>, Vec<String>) {
        let i = ids(seed);
        let u = |k: usize| flip_hex_uuid(&i.uuid, k);
        let pool = vec![
            format!("macho:arch=x86_64;u={};m=p0", i.uuid),
            format!("macho:arch=x86_64h;u={};m=p1", u(15)),
            format!("macho:arch=arm64;u={};m=p2", u(1)),
            format!("macho:arch=arm64e;u={};m=p3", u(2)),
            format!("macho:arch=zz;u={};m=p4", u(3)),
            "macho:arch=x86_64;m=p5".to_string(),
            format!("macho:arch=x86_64;u={};m=p6", u(8)),
            format!("macho:arch=arm64e;u={};m=p7", i.uuid),
        ];
        let disambs = vec![
            "none".to_string(),
            "arch:x86_64".to_string(),
            "arch:arm64e".to_string(),
            "arch:ppc".to_string(),
            "best:arm64e,arm64".to_string(),
            "best:x86_64,x86_64h".to_string(),
            "best:".to_string(),
            "native".to_string(),
            format!("id:{}0", i.uuid),
            format!("id:{}0", u(8)),
            format!("id:{}1", i.uuid),
            format!("id:{}0", u(12)),
        ];
        (pool.iter().map(|r| member_line(r)).collect(), disambs)
    }

    // ----- debuglink -----------------------------------------------------------------------------

    fn dl_header(mainref: &str, probe: u32) -> String {
        let mi = main_info(mainref, probe);
        format!(
            "debuglink {mainref} probe={probe:x} link={} wanted={} id={} base={}",
            mi.dl.is_some() as u8,
            mi.dl.map(|d| d.0).unwrap_or(0),
            mi.id,
            mi.base
        )
    }

    fn find(d: &[u8], pat: &[u8]) -> Option<usize> {
        d.windows(pat.len()).position(|w| w == pat)
    }

    /// (main files, companion candidates) of the generated debuglink family
    fn dl_material(seed: u64) -> (Vec<(&'static str, String)>, Vec<String>) {
        let i = ids(seed);
        let b = hex(&i.b);
        let genuine = format!("elf:b={b};m=dbg_sym");
        let other = format!("elf:b={b};m=other_sym");
        let gd = materialize(&genuine).unwrap();
        let crc = gnu_debuglink_crc32(&gd);
        let crc_other = gnu_debuglink_crc32(&materialize(&other).unwrap());
        let name_off = find(&gd, b"dbg_sym").unwrap();
        let patch = |off: usize, x: u8| format!("{genuine}+p{off}:{:02x}", gd[off] ^ x);
        let c_name = patch(name_off + 1, 0x01); // symbol name changes: dbg_sym -> dcg_sym
        let c_last = patch(gd.len() - 1, 0xff);
        let c_magic = patch(0, 0xff);
        let c_text = patch(TEXT_ADDR as usize + 7, 0x10);
        let c_ident = patch(9, 0x01); // padding byte of e_ident
        let missing = "missing".to_string();
        let garbage = "raw:cafebabe00000000".to_string();
        let symfile = format!("sym:id={};m=breakpad_sym", i.req);
        let mains = vec![
            ("ok", format!("elf:b={b};m=main_sym;dl=x.dbg/{crc:08x}")),
            ("other", format!("elf:b={b};m=main_sym;dl=x.dbg/{crc_other:08x}")),
            ("zero", format!("elf:b={b};m=main_sym;dl=x.dbg/00000000")),
            // the stated CRC is that of a file that is not an object file at all: it is "accepted" by the
            // CRC test but cannot be used, and the search has to go on
            ("garbagecrc", format!("elf:b={b};m=main_sym;dl=x.dbg/{:08x}", gnu_debuglink_crc32(&materialize(&garbage).unwrap()))),
            ("symcrc", format!("elf:b={b};m=main_sym;dl=x.dbg/{:08x}", gnu_debuglink_crc32(&materialize(&symfile).unwrap()))),
            ("magiccrc", format!("elf:b={b};m=main_sym;dl=x.dbg/{:08x}", gnu_debuglink_crc32(&materialize(&c_magic).unwrap()))),
            ("namecrc", format!("elf:b={b};m=main_sym;dl=x.dbg/{:08x}", gnu_debuglink_crc32(&materialize(&c_name).unwrap()))),
            ("nolink", format!("elf:b={b};m=main_sym")),
            ("texthash", format!("elf:t=93;m=main_sym;dl=x.dbg/{crc:08x}")),
            ("noid", format!("elf:t=-;m=main_sym;dl=x.dbg/{crc:08x}")),
        ];
        (mains, vec![genuine, other, c_name, c_last, c_magic, c_text, c_ident, missing, garbage, symfile])
    }

    fn gen_debuglink(seed: u64, out: &mut Vec<Case>) {
        let (mains, pool) = dl_material(seed);
        for (mt, main) in &mains {
            let hd = dl_header(main, PROBE_ADDR);
            out.push(Case { name: format!("dl{seed}-{mt}-none"), ops: vec![hd.clone()] });
            let kmax = if *mt == "ok" { 3 } else { 2 };
            for k in 1..=kmax {
                for a in arrangements(pool.len(), k) {
                    // keep the enumeration affordable: lists of 3 only over the first 6 pool entries
                    if k == 3 && a.iter().any(|&x| x >= 6) {
                        continue;
                    }
                    let mut ops = vec![hd.clone()];
                    for &x in &a {
                        ops.push(dl_cand(&pool[x], PROBE_ADDR));
                    }
                    out.push(Case { name: format!("dl{seed}-{mt}-{}", a.iter().map(|x| x.to_string()).collect::<String>()), ops });
                }
            }
        }
    }

    /// single-byte corruptions of a fixture companion: every byte of the ELF header, first / middle /
    /// last byte of every section and of the section header table, last byte of the file, plus
    /// `extra` pseudo-random offsets
    fn corruption_offsets(d: &[u8], extra: usize, stride: usize) -> Vec<(String, usize)> {
        use samply_symbols::object::{Object, ObjectSection};
        let mut v = Vec::new();
        for o in (0..64).step_by(stride) {
            v.push(("ehdr".to_string(), o));
        }
        if let Ok(f) = samply_symbols::object::File::parse(d) {
            for s in f.sections() {
                if let Some((off, size)) = s.file_range() {
                    if size > 0 && (off + size) as usize <= d.len() {
                        let n = s.name().unwrap_or("?").trim_start_matches('.').replace(|c: char| !c.is_ascii_alphanumeric(), "_");
                        v.push((format!("sec_{n}"), off as usize));
                        v.push((format!("sec_{n}"), (off + size / 2) as usize));
                        v.push((format!("sec_{n}"), (off + size - 1) as usize));
                    }
                }
            }
        }
        let shoff = u64::from_le_bytes(d[0x28..0x30].try_into().unwrap()) as usize;
        if shoff < d.len() {
            v.push(("shdr".to_string(), shoff + 64));
            v.push(("shdr".to_string(), (shoff + d.len()) / 2));
        }
        v.push(("last".to_string(), d.len() - 1));
        let mut r = Rng::new(d.len() as u64);
        for _ in 0..extra {
            v.push(("random".to_string(), r.below(d.len() as u64) as usize));
        }
        v
    }

    fn fixture_debuglink(tier: Tier, out: &mut Vec<Case>) {
        for (tag, dir, probe) in [("reg", "other/simple-example/out/regular-debuglink", 0xb14u32), ("dwp", "other/simple-example/out/dwp-debuglink", 0xb14u32)] {
            let main = format!("fix/{dir}/main");
            let comp = format!("fix/{dir}/main.dbg");
            let d = match fixture(&format!("{dir}/main.dbg")) {
                Some(d) => d,
                None => continue,
            };
            let hd = dl_header(&main, probe);
            let genuine = dl_cand(&comp, probe);
            out.push(Case { name: format!("dlfx-{tag}-none"), ops: vec![hd.clone()] });
            out.push(Case { name: format!("dlfx-{tag}-genuine"), ops: vec![hd.clone(), genuine.clone()] });
            out.push(Case { name: format!("dlfx-{tag}-missing-genuine"), ops: vec![hd.clone(), dl_cand("missing", probe), genuine.clone()] });
            // the other fixture's companion is a valid debug file of another build
            let foreign = if tag == "reg" { "fix/other/simple-example/out/dwp-debuglink/main.dbg" } else { "fix/other/simple-example/out/regular-debuglink/main.dbg" };
            out.push(Case { name: format!("dlfx-{tag}-foreign"), ops: vec![hd.clone(), dl_cand(foreign, probe)] });
            out.push(Case { name: format!("dlfx-{tag}-foreign-genuine"), ops: vec![hd.clone(), dl_cand(foreign, probe), genuine.clone()] });
            let (extra, stride) = match (tier, tag) {
                (Tier::Quick, "reg") => (40, 3),
                (Tier::Quick, _) => (10, 16),
                (Tier::Thorough, "reg") => (600, 1),
                (Tier::Thorough, _) => (150, 2),
            };
            for (k, (class, off)) in corruption_offsets(&d, extra, stride).into_iter().enumerate() {
                let x = if k % 3 == 0 { 0xffu8 } else if k % 3 == 1 { 0x01 } else { 0x80 };
                let r = format!("{comp}+p{off}:{:02x}", d[off] ^ x);
                let c = dl_cand(&r, probe);
                let ops = match k % 3 {
                    0 => vec![hd.clone(), c],
                    1 => vec![hd.clone(), c, genuine.clone()],
                    _ => vec![hd.clone(), dl_cand("missing", probe), c],
                };
                out.push(Case { name: format!("dlfx-{tag}-{k}-{class}-{off}"), ops });
            }
            // the main file with a corrupted CRC field: the genuine companion must be refused
            let mi = main_info(&main, probe);
            if let Some((crc, off)) = mi.dl {
                for byte in 0..4 {
                    let mut c = crc.to_le_bytes();
                    c[byte] ^= 0x01;
                    let m2 = format!("{main}+p{off}:{}", hex(&c));
                    out.push(Case { name: format!("dlfx-{tag}-maincrc{byte}"), ops: vec![dl_header(&m2, probe), genuine.clone()] });
                }
            }
        }
    }

    // ----- Breakpad .sym candidates with a .symindex sidecar --------------------------------------

    /// `symhead=` = the first line of the `.sym` (with its line feed), `sideinfo=` = the module info stored in a
    /// parsable sidecar (`BreakpadIndex::module_info_bytes`): the two byte strings `make_index_storage` compares
    fn symidx_cand(symref: &str, idxref: &str) -> String {
        let own = truth_ids(symref).map(|t| t.0).unwrap_or_else(|| "-".into());
        let side = side_view(idxref);
        let stale = side.strip_prefix("ok:").map(|d| d != own).unwrap_or(false);
        let symhead = materialize(symref)
            .map(|d| {
                let n = d.iter().position(|b| *b == b'\n').map(|p| p + 1).unwrap_or(d.len());
                hex(&d[..n])
            })
            .unwrap_or_default();
        let sideinfo = materialize(idxref)
            .and_then(|d| samply_symbols::BreakpadIndex::parse_symindex_file(&d[..]).ok().map(|i| hex(i.module_info_bytes)))
            .unwrap_or_else(|| "-".into());
        format!(
            "cand {symref} own={own} side={side} idx={idxref} mark={} stale={} symhead={symhead} sideinfo={sideinfo}",
            spec_marker(symref).unwrap_or_else(|| "-".into()),
            stale as u8
        )
    }

    fn gen_symidx(seed: u64, tier: Tier, out: &mut Vec<Case>) {
        let i = ids(seed);
        let x = format!("{}0", i.uuid);
        let y = format!("{}0", flip_hex_uuid(&i.uuid, 15));
        let z = format!("{}1", i.uuid);
        // same layout (names of equal length, ids of equal length): an index of one fits the text of the others
        let sx = format!("sym:id={x};m=bp_x_sym");
        let sy = format!("sym:id={y};m=bp_y_sym");
        let sz = format!("sym:id={z};m=bp_z_sym");
        let idx = |s: &str| format!("idx:{s}");
        let n = materialize(&idx(&sx)).map(|d| d.len()).unwrap_or(64);
        let consistent: Vec<(String, String)> = vec![
            (sx.clone(), idx(&sx)),
            (sy.clone(), idx(&sy)),
            (sz.clone(), idx(&sz)),
            (sx.clone(), "missing".into()),
            (sy.clone(), "missing".into()),
            (sx.clone(), "raw:53594d494e444558deadbeef".into()),
            (sx.clone(), "raw:".into()),
            // a truncated index of another build does not parse: the .sym's own MODULE line stays in charge
            (sx.clone(), format!("trunc:{}:{}", n / 2, idx(&sy))),
            (sy.clone(), format!("trunc:{}:{}", n - 1, idx(&sx))),
            (sx.clone(), format!("{}+p0:00", idx(&sy))),
        ];
        let stale: Vec<(String, String)> = vec![(sx.clone(), idx(&sy)), (sy.clone(), idx(&sx)), (sx.clone(), idx(&sz)), (sz.clone(), idx(&sx))];
        let mut pool = consistent;
        // an index built from another `.sym` *of the same build* (same MODULE line, other tables): still used
        pool.insert(6, (sx.clone(), idx(&format!("sym:id={x};m=bp_q_sym"))));
        let n_consistent = pool.len();
        pool.extend(stale);
        // sidecars with a rewritten module info: `parse_symindex_file` reports the id of the LAST MODULE line
        // (index.rs:57-95), the freshness test looks at the first line
        let line = |id: &str| format!("MODULE Linux x86_64 {id} gen");
        let mi = |text: String, of: &String| format!("idxmi:{}:{of}", hex(text.as_bytes()));
        let info_line = "INFO CODE_ID ABCDEF0123 gen";
        let crafted: Vec<(String, String)> = vec![
            // first line = the .sym's, second MODULE line of another build (appended)
            (sx.clone(), mi(format!("{}\n{}", line(&x), line(&y)), &sx)),
            (sx.clone(), mi(format!("{}\n{}\n", line(&x), line(&z)), &sx)),
            // INFO lines in between
            (sx.clone(), mi(format!("{}\n{info_line}\n{}\n", line(&x), line(&y)), &sx)),
            // first line replaced, the original second: the first line does not match this .sym ...
            (sx.clone(), mi(format!("{}\n{}", line(&y), line(&x)), &sx)),
            // ... but it matches the .sym of the other build, for which the index then reports a foreign id
            (sy.clone(), mi(format!("{}\n{}", line(&y), line(&x)), &sx)),
            // harmless rewrites, still used: the same MODULE line twice, an INFO line, a second line that is no record
            (sx.clone(), mi(format!("{}\n{}", line(&x), line(&x)), &sx)),
            (sx.clone(), mi(format!("{}\n{info_line}\n", line(&x)), &sx)),
            (sx.clone(), mi(format!("{}\nMODULE garbage", line(&x)), &sx)),
            // the last MODULE line is the .sym's but the first is not UTF-8 / has no id: never used
            (sx.clone(), mi(format!("MODULE Linux x86_64\n{}", line(&x)), &sx)),
            // no MODULE line at all: not an index
            (sx.clone(), mi(format!("{info_line}\n"), &sx)),
        ];
        let n_stale_end = pool.len();
        pool.extend(crafted);
        let lines: Vec<String> = pool.iter().map(|(s, ix)| symidx_cand(s, ix)).collect();
        for (rt, req) in [("x", &x), ("y", &y), ("z", &z)] {
            let hd = format!("symidx {req}");
            out.push(Case { name: format!("sx{seed}-{rt}-empty"), ops: vec![hd.clone()] });
            let kmax = if tier == Tier::Quick { 2 } else { 3 };
            for k in 1..=kmax {
                for a in arrangements(lines.len(), k) {
                    // lists of 3: at most over the first 6 consistent entries and the stale ones
                    if k == 3 && a.iter().any(|&v| (v >= 6 && v < n_consistent) || v >= n_stale_end + 5) {
                        continue;
                    }
                    let mut ops = vec![hd.clone()];
                    for &v in &a {
                        ops.push(lines[v].clone());
                    }
                    out.push(Case { name: format!("sx{seed}-{rt}-{}", a.iter().map(|v| format!("{v:02x}")).collect::<String>()), ops });
                }
            }
        }
    }

    // ----- dyld shared cache paths (no generator for real caches: every path fails to load) ---------

    fn gen_dyld(seed: u64, out: &mut Vec<Case>) {
        let i = ids(seed);
        let files = ["dyld:missing".to_string(), "dyld:raw:64796c645f763120".to_string(), format!("dyld:{}", i.m), format!("dyld:macho:arch=x86_64;u={};m=m", i.uuid), "dyld:raw:".to_string()];
        let lines: Vec<String> = files.iter().map(|r| format!("cache {r} {}", abs_of(r).sym_view())).collect();
        let blines: Vec<String> = files.iter().map(|r| format!("cache {r} {}", abs_of(r).bin_view())).collect();
        for what in ["sym", "bin"] {
            let ls = if what == "sym" { &lines } else { &blines };
            for d in ["none".to_string(), "arch:x86_64".to_string(), format!("id:{}", i.req), "native".to_string()] {
                let dn = d.replace(|c: char| !c.is_ascii_alphanumeric(), "");
                let hd = format!("dyld {what} {d}");
                out.push(Case { name: format!("dyld{seed}-{what}-{dn}-empty"), ops: vec![hd.clone()] });
                for k in 1..=2 {
                    for a in arrangements(ls.len(), k) {
                        let mut ops = vec![hd.clone()];
                        for &v in &a {
                            ops.push(ls[v].clone());
                        }
                        out.push(Case { name: format!("dyld{seed}-{what}-{dn}-{}", a.iter().map(|v| v.to_string()).collect::<String>()), ops });
                    }
                }
            }
        }
        // the same files as `InDyldCache` candidates inside the candidate loops of load_symbol_map / load_binary
        let c0 = "dyld:missing".to_string();
        let c1 = "dyld:raw:64796c645f763120".to_string();
        let c2 = format!("dyld:{}", i.m);
        let d_last = format!("elf:b={};m=d_last", hex(&flip(&i.b, 15)));
        let set: Vec<String> = [&c0, &i.m, &c1, &d_last, &c2].iter().map(|r| cand_sym(r)).collect();
        perm_cases(&format!("sm{seed}-indyld"), &format!("symmap {}", i.req), &set, out);
        let set: Vec<String> = [&c0, &c1, &d_last].iter().map(|r| cand_sym(r)).collect();
        perm_cases(&format!("sm{seed}-indyld-nomatch"), &format!("symmap {}", i.req), &set, out);
        let (mid, mcode) = bin_ids(&i.m);
        let bset: Vec<String> = [&c0, &i.m, &c1, &d_last].iter().map(|r| cand_bin(r)).collect();
        perm_cases(&format!("bin{seed}-indyld-id"), &format!("binary name=1 id={mid} code=none arch=none"), &bset, out);
        perm_cases(&format!("bin{seed}-indyld-code"), &format!("binary name=0 id=none code={mcode} arch=x86_64"), &bset, out);
    }

    // ----- debuglink companions larger than one CRC chunk (elf.rs:186) ----------------------------

    fn gen_dlbig(tier: Tier, out: &mut Vec<Case>) {
        const CHUNK: usize = 1024 * 1024;
        let i = ids(11);
        let b = hex(&i.b);
        let base = format!("elf:b={b};m=dbg_sym");
        let base_len = materialize(&base).unwrap().len();
        let sizes: &[usize] = if tier == Tier::Quick { &[CHUNK + 1, 2 * CHUNK + 3] } else { &[CHUNK - 1, CHUNK, CHUNK + 1, 2 * CHUNK, 2 * CHUNK + 3, 3 * CHUNK + 4097] };
        for &len in sizes {
            let genuine = format!("pad:{}:00:{base}", len - base_len);
            let crc = gnu_debuglink_crc32(&materialize(&genuine).unwrap());
            let main = format!("elf:b={b};m=main_sym;dl=x.dbg/{crc:08x}");
            let hd = dl_header(&main, PROBE_ADDR);
            let g = dl_cand(&genuine, PROBE_ADDR);
            out.push(Case { name: format!("dlbig-{len}-genuine"), ops: vec![hd.clone(), g.clone()] });
            out.push(Case { name: format!("dlbig-{len}-missing-genuine"), ops: vec![hd.clone(), dl_cand("missing", PROBE_ADDR), g.clone()] });
            // the main file stating the CRC of a *part* of the genuine file (all full chunks but the last one / up to
            // each chunk boundary / the tail chunk alone / everything but the last byte): the genuine file has to be refused
            let gd = materialize(&genuine).unwrap();
            let mut parts: Vec<(String, std::ops::Range<usize>)> = vec![("tail".into(), (len - 1) / CHUNK * CHUNK..len), ("butlast".into(), 0..len - 1), ("first4k".into(), 0..4096)];
            let mut bnd = CHUNK;
            while bnd < len {
                parts.push((format!("upto{bnd}"), 0..bnd));
                bnd += CHUNK;
            }
            for (pt, range) in parts {
                if range.start == 0 && range.end == len {
                    continue;
                }
                let pcrc = gnu_debuglink_crc32(&gd[range]);
                let pmain = format!("elf:b={b};m=main_sym;dl=x.dbg/{pcrc:08x}");
                out.push(Case { name: format!("dlbig-{len}-partcrc-{pt}"), ops: vec![dl_header(&pmain, PROBE_ADDR), g.clone()] });
            }
            // one flipped byte: last byte of the file, both sides of every chunk boundary, first byte of the tail
            // chunk, first byte of the padding, middle of the file
            let tail_start = (len - 1) / CHUNK * CHUNK;
            let mut offs = vec![len - 1, tail_start, base_len, len / 2];
            let mut bnd = CHUNK;
            while bnd < len {
                offs.push(bnd - 1);
                offs.push(bnd);
                bnd += CHUNK;
            }
            if CHUNK - 1 < len {
                offs.push(CHUNK - 1);
            }
            offs.retain(|&o| o >= base_len && o < len);
            offs.sort();
            offs.dedup();
            if tier == Tier::Quick {
                offs.retain(|&o| o == len - 1 || o == tail_start || o == CHUNK - 1 || o == CHUNK);
            }
            for (k, off) in offs.iter().enumerate() {
                let c = format!("{genuine}+p{off}:5a");
                let cl = dl_cand(&c, PROBE_ADDR);
                out.push(Case { name: format!("dlbig-{len}-flip{off}"), ops: vec![hd.clone(), cl.clone()] });
                if k % 2 == 0 {
                    out.push(Case { name: format!("dlbig-{len}-flip{off}-genuine"), ops: vec![hd.clone(), cl.clone(), g.clone()] });
                }
                if *off == len - 1 {
                    // the main file stating the CRC of the corrupted file: now the genuine one must be refused
                    let crc2 = gnu_debuglink_crc32(&materialize(&c).unwrap());
                    let main2 = format!("elf:b={b};m=main_sym;dl=x.dbg/{crc2:08x}");
                    out.push(Case { name: format!("dlbig-{len}-flip{off}-stated"), ops: vec![dl_header(&main2, PROBE_ADDR), g.clone(), cl] });
                }
            }
        }
    }

    // ----- supplementary files -------------------------------------------------------------------

    fn sup_header(mainref: &str, mi: &MainInfo, probe: u32) -> String {
        format!(
            "sup {mainref} probe={probe:x} link={} wanted={} id={} base={}",
            mi.alt.is_some() as u8,
            mi.alt.as_ref().map(|a| hex(&a.0)).unwrap_or_else(|| "-".into()),
            mi.id,
            mi.base
        )
    }

    /// (main files, supplementary candidates) of the generated dwz family for a stated id of `len` bytes
    fn sup_material(seed: u64, len: usize) -> (Vec<(&'static str, String)>, Vec<String>) {
        let i = ids(seed);
        let w = &i.b[..len];
        let sup = |id: &[u8], name: &str| format!("elf:b={};str=pad,{name};t=-", hex(id));
        let genuine = sup(w, "fn_genuine");
        let twin = sup(w, "fn_twin"); // another file that carries the wanted id
        let d_last = sup(&flip(w, len - 1), "fn_dlast");
        let d_first = sup(&flip(w, 0), "fn_dfirst");
        let longer = sup(&[w, &[0x77u8][..]].concat(), "fn_longer");
        let shorter = if len > 1 { sup(&w[..len - 1], "fn_shorter") } else { "elf:str=pad,fn_noid2;t=-".to_string() };
        let noid = "elf:str=pad,fn_noid;t=-".to_string();
        let be = format!("elf:e=be;b={};str=pad,fn_be;t=-", hex(w));
        let missing = "missing".to_string();
        let garbage = "raw:7f454c46".to_string();
        let symfile = format!("sym:id={};m=breakpad_sym", i.req);
        let mains = vec![
            ("ok", format!("elf:b=aa55{};m=main_sym;alt=sup.debug/{};dw=4", hex(&i.b[..4]), hex(w))),
            ("flip", format!("elf:b=aa55{};m=main_sym;alt=sup.debug/{};dw=4", hex(&i.b[..4]), hex(&flip(w, len - 1)))),
            ("nolink", format!("elf:b=aa55{};m=main_sym;dw=4", hex(&i.b[..4]))),
        ];
        (mains, vec![genuine, twin, d_last, d_first, longer, shorter, noid, be, missing, garbage, symfile])
    }

    fn gen_sup(seed: u64, out: &mut Vec<Case>) {
        for (lt, len) in [("w20", 20usize), ("w16", 16), ("w8", 8), ("w1", 1)] {
            let (mains, pool) = sup_material(seed, len);
            for (mt, main) in &mains {
                let mi = main_info(main, PROBE_ADDR);
                let hd = sup_header(main, &mi, PROBE_ADDR);
                out.push(Case { name: format!("sup{seed}-{lt}-{mt}-none"), ops: vec![hd.clone()] });
                let kmax = if *mt == "ok" && lt == "w20" { 3 } else { 2 };
                for k in 1..=kmax {
                    for a in arrangements(pool.len(), k) {
                        if k == 3 && a.iter().any(|&x| x >= 6) {
                            continue;
                        }
                        if k == 2 && *mt == "nolink" && a.iter().any(|&x| x >= 4) {
                            continue;
                        }
                        let mut ops = vec![hd.clone()];
                        for &x in &a {
                            ops.push(sup_cand(&pool[x], main, &mi, PROBE_ADDR));
                        }
                        out.push(Case { name: format!("sup{seed}-{lt}-{mt}-{}", a.iter().map(|x| format!("{x:x}")).collect::<String>()), ops });
                    }
                }
            }
        }
    }

    fn fixture_sup(tier: Tier, out: &mut Vec<Case>) {
        use samply_symbols::object::{Object, ObjectSection};
        let probe = 0xd6f4u32;
        let main = "fix/other/ls-linux/260a3e6e46db57abf718f6a3562c6eedccf269.debug".to_string();
        let supref = "fix/other/ls-linux/coreutils.debug".to_string();
        let sd = match fixture("other/ls-linux/coreutils.debug") {
            Some(d) => d,
            None => return,
        };
        let mi = main_info(&main, probe);
        let hd = sup_header(&main, &mi, probe);
        let genuine = sup_cand(&supref, &main, &mi, probe);
        out.push(Case { name: "supfx-none".into(), ops: vec![hd.clone()] });
        out.push(Case { name: "supfx-genuine".into(), ops: vec![hd.clone(), genuine.clone()] });
        out.push(Case { name: "supfx-missing-genuine".into(), ops: vec![hd.clone(), sup_cand("missing", &main, &mi, probe), genuine.clone()] });
        for other in ["fix/other/ls-linux/ls", "fix/other/ls-linux/260a3e6e46db57abf718f6a3562c6eedccf269.debug", "fix/other/example-linux", "fix/other/example-linux-fallback", "raw:00"] {
            out.push(Case { name: format!("supfx-other-{}", other.rsplit('/').next().unwrap_or("x")), ops: vec![hd.clone(), sup_cand(other, &main, &mi, probe)] });
        }
        // the supplementary file with a corrupted build id (every byte), alone and before the genuine one
        let note_off = samply_symbols::object::File::parse(&sd[..]).ok().and_then(|f| f.section_by_name(".note.gnu.build-id").and_then(|s| s.file_range())).map(|(o, _)| o as usize + 16);
        if let Some(no) = note_off {
            let step = if tier == Tier::Quick { 3 } else { 1 };
            for byte in (0..20).step_by(step) {
                let r = format!("{supref}+p{}:{:02x}", no + byte, sd[no + byte] ^ 0x01);
                let c = sup_cand(&r, &main, &mi, probe);
                out.push(Case { name: format!("supfx-badid{byte}"), ops: vec![hd.clone(), c.clone()] });
                if byte % 2 == 0 {
                    out.push(Case { name: format!("supfx-badid{byte}-genuine"), ops: vec![hd.clone(), c, genuine.clone()] });
                }
            }
            // a shorter note (first 16 bytes only) is a different id
            let r = format!("{supref}+p{}:10", no - 12);
            out.push(Case { name: "supfx-shortid".into(), ops: vec![hd.clone(), sup_cand(&r, &main, &mi, probe)] });
        }
        // single-byte corruptions elsewhere in the supplementary file leave its build id alone: such a file still
        // is "the file with the stated build id" (what it then shows is determined by the reference run)
        let (extra, stride) = if tier == Tier::Quick { (6, 16) } else { (60, 4) };
        for (k, (class, off)) in corruption_offsets(&sd, extra, stride).into_iter().enumerate() {
            let r = format!("{supref}+p{off}:{:02x}", sd[off] ^ 0x01);
            let c = sup_cand(&r, &main, &mi, probe);
            let ops = if k % 2 == 0 { vec![hd.clone(), c] } else { vec![hd.clone(), sup_cand("missing", &main, &mi, probe), c, genuine.clone()] };
            out.push(Case { name: format!("supfx-corrupt-{k}-{class}-{off}"), ops });
        }
        // the main file stating a corrupted build id: the genuine file must be refused
        if let Some((w, off)) = &mi.alt {
            let step = if tier == Tier::Quick { 4 } else { 1 };
            for byte in (0..w.len()).step_by(step) {
                let m2 = format!("{main}+p{}:{:02x}", off + byte, w[byte] ^ 0x80);
                let mi2 = main_info(&m2, probe);
                out.push(Case { name: format!("supfx-mainid{byte}"), ops: vec![sup_header(&m2, &mi2, probe), sup_cand(&supref, &m2, &mi2, probe)] });
            }
        }
    }

    // ----- PDB of a PE binary --------------------------------------------------------------------

    fn pdb_probe(main: &str, pdb: &str) -> u32 {
        // first PDB function whose name the PE file alone does not show
        let pm = mem_one(materialize(pdb));
        let mm = mem_one(materialize(main));
        let (p, m) = match (block(pm.load_symbol_map_from_location(Loc("x".into()), None)), block(mm.load_symbol_map_from_location(Loc("x".into()), None))) {
            (Ok(p), Ok(m)) => (p, m),
            _ => return 0x1000,
        };
        let addrs: Vec<u32> = p.iter_symbols().map(|(a, _)| a).take(400).collect();
        for a in addrs {
            if marker_of(&p, a) != marker_of(&m, a) {
                return a;
            }
        }
        0x1000
    }

    fn fixture_pdb(out: &mut Vec<Case>) {
        let pairs = [("fix/win64-ci/WriteArgument.exe", "fix/win64-ci/WriteArgument.pdb", "win64-ci/WriteArgument.exe"), ("fix/win64-ci/softokn3.dll", "fix/win64-ci/softokn3.pdb", "win64-ci/softokn3.dll")];
        for (k, (main, pdb, path)) in pairs.iter().enumerate() {
            let probe = pdb_probe(main, pdb);
            let (_, guid, age) = pe_patch_refs(path);
            let other_pdb = pairs[1 - k].1;
            let id = sym_id(main);
            let pd = materialize(pdb).unwrap();
            // the GUID as stored in the PDB (first 16 bytes of the id in mixed-endian form)
            let mut pdb_variants = vec![pdb.to_string(), other_pdb.to_string(), "missing".to_string(), "raw:4d6963726f736f667420432f432b2b".to_string(), format!("sym:id={id};m=breakpad_sym"), format!("trunc:4096:{pdb}")];
            let ed = materialize(main).unwrap();
            if let Some(rsds) = find(&ed, b"RSDS") {
                let g = &ed[rsds + 4..rsds + 20];
                if let Some(goff) = find(&pd, g) {
                    pdb_variants.push(format!("{pdb}+p{}:{:02x}", goff + 15, pd[goff + 15] ^ 0x01));
                    pdb_variants.push(format!("{pdb}+p{}:{:02x}", goff, pd[goff] ^ 0x80));
                    // the age is stored right before the GUID
                    pdb_variants.push(format!("{pdb}+p{}:{:02x}", goff - 4, pd[goff - 4] ^ 0x02));
                }
            }
            for (mt, m) in [("ok", main.to_string()), ("guid", guid), ("age", age)] {
                let mi = main_info(&m, probe);
                let hd = format!("pdb {m} probe={probe:x} id={} base={}", mi.id, mi.base);
                out.push(Case { name: format!("pdb{k}-{mt}-none"), ops: vec![hd.clone()] });
                for (j, v) in pdb_variants.iter().enumerate() {
                    out.push(Case { name: format!("pdb{k}-{mt}-{j}"), ops: vec![hd.clone(), pdb_cand(v, probe)] });
                }
            }
        }
    }

    // ----- assembly ------------------------------------------------------------------------------

    pub fn fixed(tier: Tier) -> Vec<Case> {
        let mut out = Vec::new();
        out.push(Case { name: "symmap-noreq".into(), ops: vec!["symmap none".into(), cand_sym("elf:b=0011;m=x")] });
        let seeds: &[u64] = if tier == Tier::Quick { &[11] } else { &[11, 12, 13, 14, 15] };
        for &seed in seeds {
            for (tag, req, set) in symmap_sets(seed) {
                perm_cases(&format!("sm{seed}-{tag}"), &format!("symmap {req}"), &set, &mut out);
            }
            for (tag, reqs, set) in binary_sets(seed) {
                for (k, r) in reqs.iter().enumerate() {
                    perm_cases(&format!("bin{seed}-{tag}-r{k}"), r, &set, &mut out);
                }
            }
            let (pool, disambs) = fat_pool(seed);
            for d in &disambs {
                let dn = d.replace(|c: char| !c.is_ascii_alphanumeric(), "");
                out.push(Case { name: format!("fat{seed}-{dn}-empty"), ops: vec![format!("fat {d}")] });
                let kmax = if tier == Tier::Quick { 2 } else { 3 };
                for k in 1..=kmax {
                    for a in arrangements(pool.len(), k) {
                        let mut ops = vec![format!("fat {d}")];
                        for &x in &a {
                            ops.push(pool[x].clone());
                        }
                        out.push(Case { name: format!("fat{seed}-{dn}-{}", a.iter().map(|x| x.to_string()).collect::<String>()), ops });
                    }
                }
            }
            gen_debuglink(seed, &mut out);
            gen_sup(seed, &mut out);
            gen_symidx(seed, tier, &mut out);
            gen_dyld(seed, &mut out);
        }
        gen_dlbig(tier, &mut out);
        for (tag, req, set) in fixture_symmap_sets() {
            perm_cases(&tag, &format!("symmap {req}"), &set, &mut out);
        }
        for (tag, reqs, set) in fixture_binary_sets() {
            for (k, r) in reqs.iter().enumerate() {
                perm_cases(&format!("bin-{tag}-r{k}"), r, &set, &mut out);
            }
        }
        fixture_debuglink(tier, &mut out);
        fixture_sup(tier, &mut out);
        fixture_pdb(&mut out);
        let mut seen = std::collections::HashSet::new();
        for c in &out {
            assert!(seen.insert(c.name.clone()), "duplicate case name {}", c.name);
        }
        out
    }

    /// random candidate lists of any length around a random request
    pub fn random(rng: &mut Rng, _tier: Tier) -> Vec<String> {
        let seed = rng.next_u64();
        let i = ids(seed);
        let n = match rng.below(10) {
            0 => 0,
            1..=5 => rng.range(1, 5),
            6..=8 => rng.range(6, 12),
            _ => rng.range(13, 40),
        } as usize;
        let age = *rng.pick(&[0u32, 0, 0, 1, 2, 0x1f]);
        let near_uuid = |rng: &mut Rng| -> String {
            match rng.below(4) {
                0 => i.uuid.clone(),
                1 => flip_hex_uuid(&i.uuid, rng.below(16) as usize),
                2 => flip_hex_uuid(&i.uuid, 8 + rng.below(8) as usize),
                _ => hex(&(0..16).map(|_| rng.below(256) as u8).collect::<Vec<_>>()).to_uppercase(),
            }
        };
        let near_b = |rng: &mut Rng| -> Vec<u8> {
            match rng.below(5) {
                0 => i.b.clone(),
                1 => flip(&i.b, rng.below(20) as usize),
                2 => flip(&i.b, 16 + rng.below(4) as usize),
                3 => i.b[..rng.range(1, 19) as usize].to_vec(),
                _ => (0..20).map(|_| rng.below(256) as u8).collect(),
            }
        };
        let archs = ["x86_64", "x86_64h", "arm64", "arm64e", "zz"];
        let mut rand_ref = |rng: &mut Rng| -> String {
            match rng.below(12) {
                0 | 1 => format!("elf:b={};m=e", hex(&near_b(rng))),
                2 => format!("elf:e=be;b={};m=e", hex(&near_b(rng))),
                3 => format!("sym:id={}{:X};m=s", near_uuid(rng), *rng.pick(&[0u32, 0, 1, 2, 0x1f])),
                4 | 5 => format!("macho:arch={};u={};m=m", rng.pick(&archs), near_uuid(rng)),
                6 => {
                    let k = rng.range(1, 3);
                    let ms: Vec<String> = (0..k).map(|_| format!("macho:arch={};u={};m=m", rng.pick(&archs), near_uuid(rng))).collect();
                    format!("fat:[{}]", ms.join("|"))
                }
                7 => "missing".to_string(),
                8 => format!("raw:{}", hex(&(0..rng.range(0, 12)).map(|_| rng.below(256) as u8).collect::<Vec<_>>())),
                9 => format!("jit:pid={};ts={};arch=62", rng.below(100), rng.below(1000)),
                10 => format!("elf:t={:02x};m=t", 0x91 + rng.below(3)),
                _ => rng
                    .pick(&["fix/other/example-linux", "fix/macos-ci/firefox", "fix/win64-ci/WriteArgument.pdb", "fix/win64-ci/WriteArgument.exe", "fix/linux64-ci/firefox", "fix/macos-local/firefox", "elf:t=-;m=noid"])
                    .to_string(),
            }
        };
        let kind = rng.below(8);
        if kind == 0 {
            // debuglink: random list (with repetitions) of companion variants and fresh single-byte corruptions
            let (mains, pool) = dl_material(seed % 7 + 100);
            let (_, main) = rng.pick(&mains).clone();
            let gd = materialize(&pool[0]).unwrap();
            let mut ops = vec![dl_header(&main, PROBE_ADDR)];
            for _ in 0..n.min(12) {
                let r = if rng.chance(1, 3) {
                    let off = rng.below(gd.len() as u64) as usize;
                    format!("{}+p{off}:{:02x}", pool[0], gd[off] ^ (1u8 << rng.below(8)))
                } else {
                    rng.pick(&pool).clone()
                };
                ops.push(dl_cand(&r, PROBE_ADDR));
            }
            return ops;
        }
        if kind == 1 {
            let len = *rng.pick(&[20usize, 20, 16, 8, 3]);
            let (mains, pool) = sup_material(seed % 7 + 100, len);
            let (_, main) = rng.pick(&mains).clone();
            let mi = main_info(&main, PROBE_ADDR);
            let mut ops = vec![sup_header(&main, &mi, PROBE_ADDR)];
            for _ in 0..n.min(12) {
                let r: &String = rng.pick(&pool[..]);
                ops.push(sup_cand(r, &main, &mi, PROBE_ADDR));
            }
            return ops;
        }
        let refs: Vec<String> = (0..n).map(|_| rand_ref(rng)).collect();
        if rng.chance(1, 2) {
            // symbol map: request the id of one of the candidates (if it has one) or a near id
            let mut req = format!("{}{:X}", i.uuid, age);
            if n > 0 && rng.chance(1, 2) {
                let r = &refs[rng.below(n as u64) as usize];
                match abs_of(r) {
                    Abs::Single { sym: Res::Ok(id), .. } => req = id,
                    Abs::Fat(ms) => {
                        if let Some(MemberAbs { sym: Res::Ok(id), .. }) = ms.last() {
                            req = id.clone()
                        }
                    }
                    _ => {}
                }
            }
            let mut ops = vec![format!("symmap {req}")];
            ops.extend(refs.iter().map(|r| cand_sym(r)));
            ops
        } else {
            let mut id = format!("{}{:X}", i.uuid, age);
            let mut code = format!("elf-{}", hex(&i.b));
            if n > 0 && rng.chance(2, 3) {
                let r = &refs[rng.below(n as u64) as usize];
                let pick = match abs_of(r) {
                    Abs::Single { bin: Res::Ok(s), .. } => Some(s),
                    Abs::Fat(ms) => ms.iter().rev().find_map(|m| if let Res::Ok(s) = &m.bin { Some(s.clone()) } else { None }),
                    _ => None,
                };
                if let Some(s) = pick {
                    let (a, b) = s.split_once(':').unwrap();
                    if a != "none" {
                        id = a.to_string();
                    }
                    if b != "none" {
                        code = b.to_string();
                    }
                }
            }
            let hd = match rng.below(6) {
                0 | 1 => format!("binary name=1 id={id} code=none arch=none"),
                2 => format!("binary name=0 id=none code={code} arch=none"),
                3 => format!("binary name=0 id=none code={code} arch={}", rng.pick(&archs)),
                4 => format!("binary name={} id={id} code={code} arch=none", rng.below(2)),
                _ => format!("binary name={} id={} code=none arch=none", rng.below(2), if rng.chance(1, 2) { id.as_str() } else { "none" }),
            };
            let mut ops = vec![hd];
            ops.extend(refs.iter().map(|r| cand_bin(r)));
            ops
        }
    }
}

fn main() {
    if std::env::var("C06_PROBE").is_ok() {
        for r in std::env::args().skip(1) {
            if let Some(x) = r.strip_prefix("dl@") {
                let (probe, x) = x.split_once('@').unwrap();
                println!("{}", dl_cand(x, u32::from_str_radix(probe, 16).unwrap()));
                continue;
            }
            let a = abs_of(&r);
            println!("{r}\n   sym: {}\n   bin: {}", a.sym_view(), a.bin_view());
        }
        return;
    }
    verif_harness::runner::run_main(&C06);
}
