//! C05 — symbol lookup returns the containing function, consistently.
//!
//! Drives `samply_symbols` in-process through `SymbolManager::load_symbol_map_from_location` with an
//! in-memory `FileAndPathHelper`, on
//!   (a) generated inputs with a known abstract description: ELF64 objects (gen/elf_syms.rs), Breakpad
//!       `.sym` files and jitdump files (writers below) — compared line by line with the Lean model;
//!   (b) the repository's fixtures (ELF, Mach-O, PE, PDB, dSYM) — no abstract description: the "model" is the
//!       answer recorded when the case was generated, the property is decided by the judge from the
//!       neighbourhood of `iter_symbols()` printed with each answer.
//! Every lookup is made several times: cold (`lookup_sync`), after a full `iter_symbols()`, in reverse order
//! through the async `lookup`, in shuffled order, and (op `threads n`) from n threads sharing the map; the
//! output line of a query lists the *distinct* answers seen (exactly one if the property holds).
//! The op / output format is described in lean/SamplyModel/Iface/C05.lean.
use std::collections::{BTreeMap, BTreeSet};
use std::panic::{catch_unwind, AssertUnwindSafe};
use std::sync::Arc;

use samply_symbols::object::{self, Object, ObjectSegment};
use samply_symbols::{
    demangle_any, relative_address_base, CandidatePathInfo, FileAndPathHelper, FileAndPathHelperResult, FileLocation,
    LibraryInfo, LookupAddress, MultiArchDisambiguator, OptionallySendFuture, SymbolManager, SymbolMap,
};
use verif_harness::common::*;
use verif_harness::gen::elf_syms::*;
use verif_harness::gen::objpres;

pub struct C05;

const U32: u128 = 1 << 32;
const U64: u128 = 1 << 64;

// ---------------------------------------------------------------------------------------------
// in-memory helper

#[derive(Clone)]
struct Loc(String);
impl std::fmt::Display for Loc {
    fn fmt(&self, f: &mut std::fmt::Formatter<'_>) -> std::fmt::Result {
        write!(f, "{}", self.0)
    }
}
impl FileLocation for Loc {
    fn location_for_dyld_subcache(&self, _: &str) -> Option<Self> {
        None
    }
    fn location_for_external_object_file(&self, _: &str) -> Option<Self> {
        None
    }
    fn location_for_pdb_from_binary(&self, _: &str) -> Option<Self> {
        None
    }
    fn location_for_source_file(&self, _: &str) -> Option<Self> {
        None
    }
    fn location_for_breakpad_symindex(&self) -> Option<Self> {
        None
    }
    fn location_for_dwo(&self, _: &str, _: &str) -> Option<Self> {
        None
    }
    fn location_for_dwp(&self) -> Option<Self> {
        None
    }
}

struct Helper(Arc<[u8]>);
impl FileAndPathHelper for Helper {
    type F = Arc<[u8]>;
    type FL = Loc;
    fn get_candidate_paths_for_debug_file(&self, _: &LibraryInfo) -> FileAndPathHelperResult<Vec<CandidatePathInfo<Loc>>> {
        Ok(vec![])
    }
    fn get_candidate_paths_for_binary(&self, _: &LibraryInfo) -> FileAndPathHelperResult<Vec<CandidatePathInfo<Loc>>> {
        Ok(vec![])
    }
    fn get_dyld_shared_cache_paths(&self, _: Option<&str>) -> FileAndPathHelperResult<Vec<Loc>> {
        Ok(vec![])
    }
    fn load_file(&self, _l: Loc) -> std::pin::Pin<Box<dyn OptionallySendFuture<Output = FileAndPathHelperResult<Arc<[u8]>>> + '_>> {
        let d = self.0.clone();
        Box::pin(async move { Ok(d) })
    }
}

type Map = SymbolMap<Helper>;

fn load_map(bytes: Arc<[u8]>, name: &str) -> Result<Map, String> {
    let sm = SymbolManager::with_helper(Helper(bytes));
    let mut last = String::new();
    for dis in [None, Some("x86_64"), Some("arm64"), Some("x86_64h"), Some("arm64e")] {
        let d = dis.map(|a| MultiArchDisambiguator::Arch(a.to_string()));
        match futures::executor::block_on(sm.load_symbol_map_from_location(Loc(name.to_string()), d)) {
            Ok(m) => return Ok(m),
            Err(e) => last = format!("{e}"),
        }
    }
    Err(last)
}

// ---------------------------------------------------------------------------------------------
// op parsing shared by generator and executor

#[derive(Clone, Copy, PartialEq, Eq, Debug, PartialOrd, Ord)]
enum Form {
    R,
    S,
    O,
}
impl Form {
    fn tag(self) -> &'static str {
        match self {
            Form::R => "r",
            Form::S => "s",
            Form::O => "o",
        }
    }
}

#[derive(Clone, Debug)]
struct Query {
    form: Form,
    addr: u64,
    claim: String,
}

fn parse_query(l: &str) -> Option<Query> {
    let head = l.split(" :: ").next()?;
    let w: Vec<&str> = head.split_whitespace().collect();
    if w.len() != 4 || w[0] != "q" {
        return None;
    }
    let form = match w[1] {
        "r" => Form::R,
        "s" => Form::S,
        "o" => Form::O,
        _ => return None,
    };
    Some(Query { form, addr: w[2].parse().ok()?, claim: w[3].to_string() })
}

fn lookup_address(q: &Query) -> Option<LookupAddress> {
    Some(match q.form {
        Form::R => LookupAddress::Relative(u32::try_from(q.addr).ok()?),
        Form::S => LookupAddress::Svma(q.addr),
        Form::O => LookupAddress::FileOffset(q.addr),
    })
}

fn name_hex(s: &str) -> String {
    hex(s.as_bytes())
}

fn show_symbol(address: u32, size: Option<u32>, name: &str) -> String {
    format!("{} {} {}", address, size.map(|s| s.to_string()).unwrap_or_else(|| "none".into()), name_hex(name))
}

fn num(w: &[&str], i: usize) -> u64 {
    w.get(i).and_then(|s| s.parse().ok()).unwrap_or(0)
}

fn parse_elf(ops: &[String]) -> ElfSpec {
    let mut spec = ElfSpec { build_id: (1..=20).collect(), ..Default::default() };
    for l in ops {
        let w: Vec<&str> = l.split_whitespace().collect();
        match w.first().copied() {
            Some("seg") if w.len() == 4 || w.len() == 5 => {
                spec.segs.push(Seg { off: num(&w, 1), vaddr: num(&w, 2), filesz: num(&w, 3), memsz: w.get(4).and_then(|s| s.parse().ok()) })
            }
            Some("ehpcrel") if w.len() == 2 => spec.eh_pcrel = Some(num(&w, 1)),
            Some("sec") if w.len() == 5 => spec.secs.push(Sec {
                kind: match w[1] {
                    "t" => SecKind::Text,
                    "x" => SecKind::NobitsExec,
                    "d" => SecKind::Data,
                    _ => SecKind::Bss,
                },
                addr: num(&w, 2),
                size: num(&w, 3),
                off: num(&w, 4),
            }),
            Some("sym") if w.len() == 8 => spec.syms.push(Sym {
                dynamic: w[1] == "d",
                st_type: match w[2] {
                    "f" => STT_FUNC,
                    "i" => STT_GNU_IFUNC,
                    "o" => STT_OBJECT,
                    _ => STT_NOTYPE,
                },
                shndx: match w[3] {
                    "u" => SHN_UNDEF,
                    "a" => SHN_ABS,
                    n => n.parse().unwrap_or(0),
                },
                value: num(&w, 4),
                size: num(&w, 5),
                name: if w[6] == "!" { None } else { Some(unhex(w[6])) },
            }),
            Some("entry") if w.len() == 2 => spec.entry = num(&w, 1),
            Some("fde") if w.len() == 3 => spec.fdes.push((num(&w, 1), num(&w, 2))),
            _ => {}
        }
    }
    spec
}

fn write_breakpad(ops: &[String]) -> Vec<u8> {
    let mut out = Vec::new();
    out.extend_from_slice(b"MODULE Linux x86_64 BE4E976C325246EE9D6B7847A670B2A90 example-linux\n");
    out.extend_from_slice(b"INFO CODE_ID 6C974EBE5232EE469D6B7847A670B2A9\nFILE 0 /src/a.c\nFILE 1 /src/b.c\n");
    out.extend_from_slice(b"INLINE_ORIGIN 0 inlined_a\nINLINE_ORIGIN 1 inlined_b(int)\n");
    let mut k = 0u32;
    for l in ops {
        let w: Vec<&str> = l.split_whitespace().collect();
        let name = |s: &str| -> Vec<u8> {
            if s == "!" {
                vec![b'x', 0xff, 0xfe, b'y']
            } else {
                unhex(s)
            }
        };
        match w.first().copied() {
            Some("func") if w.len() == 4 => {
                let (a, s) = (num(&w, 1), num(&w, 2));
                out.extend_from_slice(format!("FUNC {}{:x} {:x} 0 ", if k % 5 == 4 { "m " } else { "" }, a, s).as_bytes());
                out.extend_from_slice(&name(w[3]));
                // every fourth FUNC line ends in CRLF
                out.extend_from_slice(if k % 4 == 2 { b"\r\n" } else { b"\n" });
                // inlinee records of the block (nested two deep), for functions that have room
                if k % 3 == 1 && s >= 4 {
                    out.extend_from_slice(format!("INLINE 0 {} 0 0 {:x} {:x}\n", 20 + k, a, s.min(0xffff_ffff) / 2).as_bytes());
                    out.extend_from_slice(format!("INLINE 1 {} 1 1 {:x} {:x}\n", 30 + k, a, (s.min(0xffff_ffff) / 4).max(1)).as_bytes());
                }
                // line records of the block (irrelevant for the symbol, but they make the block length vary)
                for j in 0..(k % 3) as u64 {
                    out.extend_from_slice(format!("{:x} {:x} {} {}\n", a + j * 2, 2, 10 + j, j % 2).as_bytes());
                }
                k += 1;
            }
            Some("pub") if w.len() == 3 => {
                out.extend_from_slice(format!("PUBLIC {}{:x} 0 ", if k % 7 == 6 { "m " } else { "" }, num(&w, 1)).as_bytes());
                out.extend_from_slice(&name(w[2]));
                out.extend_from_slice(if k % 4 == 3 { b"\r\n" } else { b"\n" });
                k += 1;
            }
            _ => {}
        }
    }
    out.extend_from_slice(b"STACK CFI INIT 1000 10 .cfa: $rsp 8 +\n");
    out
}

/// returns the bytes and, per complete JIT_CODE_LOAD record, (file offset of the code bytes, code length).
/// Op lines: `load <codelen> <namehex>`, `other <bodylen>` (a JIT_CODE_MOVE record), `dbg <n>` (a JIT_CODE_DEBUG_INFO
/// record with n line entries for the load that follows), `be` (big-endian file), `cut <k>` (the last k bytes of the
/// file are missing: a dump that is still being written).
fn write_jitdump(ops: &[String]) -> (Vec<u8>, Vec<(u64, u64)>) {
    let be = ops.iter().any(|l| l.trim() == "be");
    let w32 = |out: &mut Vec<u8>, x: u32| out.extend_from_slice(&if be { x.to_be_bytes() } else { x.to_le_bytes() });
    let w64 = |out: &mut Vec<u8>, x: u64| out.extend_from_slice(&if be { x.to_be_bytes() } else { x.to_le_bytes() });
    let mut out = Vec::new();
    w32(&mut out, 0x4A695444); // magic: "DTiJ" on disk in a little-endian file, "JiTD" in a big-endian one
    w32(&mut out, 1);
    w32(&mut out, 40);
    w32(&mut out, 62);
    w32(&mut out, 0);
    w32(&mut out, 4711);
    w64(&mut out, 123456789);
    w64(&mut out, 0);
    let mut layout = Vec::new();
    let mut index = 0u64;
    for l in ops {
        let w: Vec<&str> = l.split_whitespace().collect();
        match w.first().copied() {
            Some("load") if w.len() == 3 => {
                let len = num(&w, 1);
                let name = unhex(w[2]);
                let total = 16 + 40 + name.len() as u64 + 1 + len;
                w32(&mut out, 0);
                w32(&mut out, total as u32);
                w64(&mut out, 1000 + index);
                w32(&mut out, 4711);
                w32(&mut out, 4711);
                w64(&mut out, 0x7000_0000u64 + index * 0x1000);
                w64(&mut out, 0x7000_0000u64 + index * 0x1000);
                w64(&mut out, len);
                w64(&mut out, index);
                out.extend_from_slice(&name);
                out.push(0);
                layout.push((out.len() as u64, len));
                out.extend(std::iter::repeat(0x90u8).take(len as usize));
                index += 1;
            }
            Some("other") if w.len() == 2 => {
                let len = num(&w, 1);
                w32(&mut out, 1); // JIT_CODE_MOVE: skipped by the index
                w32(&mut out, (16 + len) as u32);
                w64(&mut out, 1000 + index);
                out.extend(std::iter::repeat(0u8).take(len as usize));
            }
            Some("dbg") if w.len() == 2 => {
                // JIT_CODE_DEBUG_INFO for the next load: its line entries start 2 bytes into the code, so that the
                // first two code bytes have debug info but no line entry
                let n = num(&w, 1);
                let code_addr = 0x7000_0000u64 + index * 0x1000;
                w32(&mut out, 2);
                w32(&mut out, (16 + 16 + 21 * n) as u32);
                w64(&mut out, 1000 + index);
                w64(&mut out, code_addr);
                w64(&mut out, n);
                for j in 0..n {
                    w64(&mut out, code_addr + 2 + j);
                    w32(&mut out, 10 + j as u32);
                    w32(&mut out, 0);
                    out.extend_from_slice(b"a.js\0");
                }
            }
            _ => {}
        }
    }
    if let Some(k) = ops.iter().find_map(|l| l.strip_prefix("cut ")).and_then(|s| s.trim().parse::<usize>().ok()) {
        let keep = out.len().saturating_sub(k).max(40);
        out.truncate(keep);
        layout.retain(|&(off, len)| off + len <= keep as u64);
    }
    (out, layout)
}

// ---------------------------------------------------------------------------------------------
// running lookups

fn one_lookup(map: &Map, q: &Query, use_async: bool) -> String {
    let Some(addr) = lookup_address(q) else { return "none".to_string() };
    let r = catch_unwind(AssertUnwindSafe(|| {
        if use_async {
            futures::executor::block_on(map.lookup(addr)).map(|a| show_symbol(a.symbol.address, a.symbol.size, &a.symbol.name))
        } else {
            map.lookup_sync(addr).map(|a| show_symbol(a.symbol.address, a.symbol.size, &a.symbol.name))
        }
    }));
    match r {
        Ok(Some(s)) => s,
        Ok(None) => "none".to_string(),
        Err(_) => "panic".to_string(),
    }
}

struct Observed {
    count: usize,
    /// iter_symbols() in iteration order
    symbols: Vec<(u32, String)>,
    /// per query: distinct answers
    answers: Vec<Vec<String>>,
}

/// A panic inside `lookup_sync` can leave a poisoned `Mutex` behind (observed: every later lookup of that map
/// then panics at `lock().unwrap()`); to keep the answers of different queries independent the map is loaded
/// afresh after every panic, and the poisoning itself is counted in the statistics.
fn after_panic(map: &mut Map, reload: &dyn Fn() -> Option<Map>, probe: Option<&Query>, stats: &mut Stats) {
    stats.bump("lookup_panics");
    if let Some(p) = probe {
        if one_lookup(map, p, false) == "panic" {
            stats.bump("map_unusable_after_a_panic(poisoned_mutex)");
        }
    }
    if let Some(m) = reload() {
        *map = m;
    }
}

/// `threads` threads share the map; they start together (barrier) and look up every query in their own order,
/// alternating `lookup_sync` / async `lookup`, with partial enumerations in between.
fn thread_pass(map: &Map, queries: &[Query], threads: usize, seed: u64, answers: &mut [BTreeSet<String>], stats: &mut Stats) {
    // queries outside the hypotheses may panic and poison the shared map: they stay out of this pass
    let order: Vec<usize> = (0..queries.len()).filter(|&i| queries[i].claim != "xwf").collect();
    let barrier = std::sync::Barrier::new(threads);
    let barrier = &barrier;
    let per_thread: Vec<Vec<(usize, String)>> = std::thread::scope(|s| {
        let hs: Vec<_> = (0..threads)
            .map(|t| {
                let mut order = order.clone();
                let mut rng = Rng::new(seed.wrapping_add(t as u64 + 1));
                // half of the threads walk the same order so that they hit the same cold entry at the same time
                if t % 2 == 1 {
                    rng.shuffle(&mut order);
                }
                s.spawn(move || {
                    let mut v = Vec::with_capacity(order.len());
                    barrier.wait();
                    for (k, &i) in order.iter().enumerate() {
                        if k % 64 == 63 {
                            // interleave enumerations with lookups
                            let _ = map.iter_symbols().take(16).count();
                        }
                        v.push((i, one_lookup(map, &queries[i], k % 2 == 1)));
                    }
                    v
                })
            })
            .collect();
        hs.into_iter().map(|h| h.join().unwrap_or_default()).collect()
    });
    for v in per_thread {
        for (i, a) in v {
            answers[i].insert(a);
        }
    }
    stats.add("threaded_lookups", (threads * queries.len()) as u64);
}

fn observe(mut map: Map, reload: &dyn Fn() -> Option<Map>, queries: &[Query], threads: usize, seed: u64, stats: &mut Stats) -> Observed {
    let mut answers: Vec<BTreeSet<String>> = vec![BTreeSet::new(); queries.len()];
    let mut first: Vec<String> = Vec::with_capacity(queries.len());
    let mut probe: Option<Query> = None;
    // every other threaded case: the threads come FIRST, on the freshly loaded map (cold caches: the `Vacant` arms of
    // the Breakpad / jitdump caches and the first use of the DWARF context run concurrently), released together
    let threads_first = threads > 0 && seed % 2 == 0;
    if threads_first {
        thread_pass(&map, queries, threads, seed, &mut answers, stats);
        stats.bump("threaded_cases_on_a_fresh_map");
    }
    // pass 1: cold cache, in order
    for (i, q) in queries.iter().enumerate() {
        let a = one_lookup(&map, q, false);
        if a == "panic" {
            after_panic(&mut map, reload, probe.as_ref(), stats);
        } else if a != "none" && probe.is_none() {
            probe = Some(q.clone());
        }
        first.push(a.clone());
        answers[i].insert(a);
    }
    // pass 2: full enumeration (fills the Breakpad / jitdump caches)
    let count = map.symbol_count();
    let symbols: Vec<(u32, String)> = map.iter_symbols().map(|(a, n)| (a, n.into_owned())).collect();
    // pass 3: reverse order through the async entry point
    for (i, q) in queries.iter().enumerate().rev() {
        let a = one_lookup(&map, q, true);
        if a == "panic" {
            after_panic(&mut map, reload, None, stats);
        }
        answers[i].insert(a);
    }
    // pass 4: shuffled
    let mut rng = Rng::new(seed);
    let mut order: Vec<usize> = (0..queries.len()).collect();
    rng.shuffle(&mut order);
    for &i in &order {
        let a = one_lookup(&map, &queries[i], false);
        if a == "panic" {
            after_panic(&mut map, reload, None, stats);
        }
        answers[i].insert(a);
    }
    // pass 5: threads sharing the (by now warm) map
    if threads > 0 && !threads_first {
        thread_pass(&map, queries, threads, seed, &mut answers, stats);
    }
    stats.add("lookups", (queries.len() * 3) as u64);
    for a in &first {
        stats.bump(if a == "none" {
            "answer_none"
        } else if a == "panic" {
            "answer_panic"
        } else {
            "answer_hit"
        });
    }
    Observed { count, symbols, answers: answers.into_iter().map(|s| s.into_iter().collect()).collect() }
}

fn generated_output(map: Map, reload: &dyn Fn() -> Option<Map>, ops: &[String], dem: impl Fn(&str) -> String, stats: &mut Stats) -> Vec<String> {
    let queries: Vec<Query> = ops.iter().filter_map(|l| parse_query(l)).collect();
    let threads = ops.iter().find_map(|l| l.strip_prefix("threads ")).and_then(|s| s.trim().parse().ok()).unwrap_or(0);
    let obs = observe(map, reload, &queries, threads, fnv1a(ops), stats);
    let mut out = vec![format!("count {}", obs.count)];
    for (a, n) in &obs.symbols {
        out.push(format!("it {} {} {}", a, name_hex(n), name_hex(&dem(n))));
    }
    for (q, ans) in queries.iter().zip(&obs.answers) {
        out.push(format!("a {} {} {}", q.form.tag(), q.addr, ans.join(" | ")));
    }
    stats.add("enumerated_symbols", obs.symbols.len() as u64);
    out
}

// ---------------------------------------------------------------------------------------------
// fixtures

fn fixtures_root() -> std::path::PathBuf {
    let repo = std::env::var("VERIF_REPO").unwrap_or_else(|_| {
        let root = std::env::var("VERIF_ROOT").unwrap_or_else(|_| "..".to_string());
        format!("{root}/repo-link")
    });
    std::path::Path::new(&repo).join("fixtures")
}

fn fixture_files() -> Vec<String> {
    fn walk(dir: &std::path::Path, root: &std::path::Path, out: &mut Vec<String>) {
        let Ok(rd) = std::fs::read_dir(dir) else { return };
        let mut entries: Vec<_> = rd.filter_map(|e| e.ok()).collect();
        entries.sort_by_key(|e| e.path());
        for e in entries {
            let p = e.path();
            if p.is_dir() {
                walk(&p, root, out);
            } else {
                let ext = p.extension().and_then(|e| e.to_str()).unwrap_or("");
                if ["json", "txt", "sh", "cpp", "h", "md", "plist", "yml", "a"].contains(&ext) {
                    continue;
                }
                if e.metadata().map(|m| m.len() == 0).unwrap_or(true) {
                    continue;
                }
                if let Ok(rel) = p.strip_prefix(root) {
                    out.push(rel.to_string_lossy().to_string());
                }
            }
        }
    }
    let root = fixtures_root();
    let mut out = Vec::new();
    for sub in ["android32-ci", "android32-local", "linux64-ci", "macos-ci", "macos-local", "win64-ci", "win64-local", "other"] {
        walk(&root.join(sub), &root, &mut out);
    }
    out
}

fn fixture_tag(path: &str, bytes: &[u8]) -> &'static str {
    if path.ends_with(".pdb") {
        "pdb"
    } else if path.contains(".dSYM/") {
        "dsym"
    } else {
        match object::FileKind::parse(bytes) {
            Ok(object::FileKind::Elf32 | object::FileKind::Elf64) => "elf",
            Ok(object::FileKind::Pe32 | object::FileKind::Pe64) => "pe",
            Ok(_) => "macho",
            Err(_) => "other",
        }
    }
}

/// the member of a fat Mach-O file that `load_map` ends up with (it tries no disambiguator, then x86_64, then arm64);
/// any other file as it is. Everything the harness reads itself (layout, presentation) is read from this slice;
/// samply does the same through a `RangeReadRef`, so file offsets of a fat member are relative to the member.
fn thin_slice(bytes: &[u8]) -> &[u8] {
    use samply_symbols::object::read::macho::{FatArch, MachOFatFile32, MachOFatFile64};
    use samply_symbols::object::Architecture;
    let mut members: Vec<(Architecture, (u64, u64))> = Vec::new();
    match object::FileKind::parse(bytes) {
        Ok(object::FileKind::MachOFat32) => {
            if let Ok(f) = MachOFatFile32::parse(bytes) {
                members = f.arches().iter().map(|a| (a.architecture(), a.file_range())).collect();
            }
        }
        Ok(object::FileKind::MachOFat64) => {
            if let Ok(f) = MachOFatFile64::parse(bytes) {
                members = f.arches().iter().map(|a| (a.architecture(), a.file_range())).collect();
            }
        }
        _ => return bytes,
    }
    for want in [Architecture::X86_64, Architecture::Aarch64] {
        if let Some((_, (off, size))) = members.iter().find(|m| m.0 == want) {
            if let Some(s) = bytes.get(*off as usize..(*off + *size) as usize) {
                return s;
            }
        }
    }
    bytes
}

/// (relative address base, file ranges (file offset, size, svma)) through the harness's own use of `object`
fn object_layout(bytes: &[u8]) -> Option<(u64, Vec<(u64, u64, u64)>)> {
    let file = object::File::parse(thin_slice(bytes)).ok()?;
    let base = relative_address_base(&file);
    let mut ranges: Vec<(u64, u64, u64)> = file
        .segments()
        .map(|s| {
            let (o, sz) = s.file_range();
            (o, sz, s.address())
        })
        .collect();
    if ranges.is_empty() {
        // relocatable objects have no segments: the file ranges of the sections stand in
        use samply_symbols::object::ObjectSection;
        ranges = file.sections().filter_map(|s| s.file_range().map(|(o, sz)| (o, sz, s.address()))).collect();
    }
    Some((base, ranges))
}

fn claim_svma(base: u64, s: u64) -> String {
    if s == u64::MAX {
        // excluded point: addr2line's `probe + 1` overflows when frames are looked up at 2^64-1
        return "xwf".to_string();
    }
    match s.checked_sub(base) {
        Some(r) if (r as u128) < U32 => r.to_string(),
        _ => "none".to_string(),
    }
}

fn claim_rel(base: u64, r: u64) -> String {
    match base.checked_add(r) {
        Some(u64::MAX) => "xwf".to_string(),
        Some(_) => r.to_string(),
        None => "none".to_string(),
    }
}

/// the relative address a file offset stands for: first range that contains it
fn claim_offset(base: u64, ranges: &[(u64, u64, u64)], o: u64) -> String {
    for &(off, size, svma) in ranges {
        if off <= o {
            if off as u128 + size as u128 >= U64 {
                return "xwf".to_string();
            }
            if o < off + size {
                return match svma.checked_add(o - off) {
                    Some(s) => claim_svma(base, s),
                    None => "none".to_string(),
                };
            }
        }
    }
    "none".to_string()
}

/// file offsets whose bytes are mapped at `svma`
fn offsets_of(ranges: &[(u64, u64, u64)], svma: u64) -> Vec<u64> {
    let mut v = Vec::new();
    for &(off, size, a) in ranges {
        if a <= svma && ((svma - a) as u128) < size as u128 {
            if let Some(o) = off.checked_add(svma - a) {
                v.push(o);
            }
        }
    }
    v
}

fn neighbourhood(sorted: &[(u32, String)], tag: &str, claim: &str) -> String {
    let Ok(a) = claim.parse::<u64>() else { return "nb - ; nx none".to_string() };
    let idx = sorted.partition_point(|(s, _)| (*s as u64) <= a);
    let nx = sorted.get(idx).map(|(s, _)| s.to_string()).unwrap_or_else(|| "none".into());
    if idx == 0 {
        return format!("nb - ; nx {nx}");
    }
    let start = sorted[idx - 1].0;
    let mut s = format!("nb {start}");
    let mut k = idx;
    let mut n = 0;
    while k > 0 && sorted[k - 1].0 == start && n < 8 {
        let raw = &sorted[k - 1].1;
        let dem = if tag == "pdb" { raw.clone() } else { demangle_any(raw) };
        s.push_str(&format!(" {} {}", name_hex(raw), name_hex(&dem)));
        k -= 1;
        n += 1;
    }
    format!("{s} ; nx {nx}")
}

fn fixture_answers(map: Map, reload: &dyn Fn() -> Option<Map>, tag: &str, queries: &[Query], threads: usize, seed: u64, stats: &mut Stats) -> Vec<String> {
    fixture_observed(map, reload, tag, queries, threads, seed, stats).0
}

/// (answer lines, `count` line, `itsum` line)
fn fixture_observed(map: Map, reload: &dyn Fn() -> Option<Map>, tag: &str, queries: &[Query], threads: usize, seed: u64, stats: &mut Stats) -> (Vec<String>, String, String) {
    let obs = observe(map, reload, queries, threads, seed, stats);
    let mut sorted = obs.symbols.clone();
    sorted.sort();
    let answers = queries
        .iter()
        .zip(&obs.answers)
        .map(|(q, ans)| format!("{} ; {}", ans.join(" | "), neighbourhood(&sorted, tag, &q.claim)))
        .collect();
    let sum_addr = obs.symbols.iter().fold(0u64, |acc, s| acc.wrapping_add(s.0 as u64));
    let sum_len: usize = obs.symbols.iter().map(|s| s.1.len()).sum();
    (answers, format!("count {}", obs.count), format!("itsum {} {} {}", obs.symbols.len(), sum_addr, sum_len))
}

/// how many fixtures of each kind load (and how many of them are presented to the model): the floors are in the
/// judge, so that a change which makes a whole family of files fail to load cannot pass by silently removing
/// its cases
fn census() -> Vec<String> {
    let root = fixtures_root();
    let mut loaded: BTreeMap<&'static str, u64> = BTreeMap::new();
    let mut modelled: BTreeMap<&'static str, u64> = BTreeMap::new();
    let mut skipped = Vec::new();
    for path in fixture_files() {
        let Ok(bytes) = std::fs::read(root.join(&path)) else { continue };
        let bytes: Arc<[u8]> = bytes.into();
        let tag = fixture_tag(&path, &bytes);
        match catch_unwind(AssertUnwindSafe(|| load_map(bytes.clone(), &path))) {
            Ok(Ok(_)) => {
                *loaded.entry(tag).or_default() += 1;
                if tag != "pdb" && objpres::presentation(thin_slice(&bytes), tag).is_some() {
                    *modelled.entry(tag).or_default() += 1;
                }
            }
            Ok(Err(_)) => skipped.push(format!("skipped {}", path.replace(' ', "_"))),
            Err(_) => skipped.push(format!("load-panic {}", path.replace(' ', "_"))),
        }
    }
    let mut out = Vec::new();
    for (t, n) in &loaded {
        out.push(format!("loaded {t} {n}"));
    }
    for (t, n) in &modelled {
        out.push(format!("modelled {t} {n}"));
    }
    out.extend(skipped);
    out
}

fn fixture_cases(tier: Tier) -> Vec<Case> {
    let mut cases = Vec::new();
    let root = fixtures_root();
    let mut stats = Stats::default();
    // (path, bytes, patch lines): every fixture as it is; thin Mach-O files that have both LC_FUNCTION_STARTS and
    // `__unwind_info` once more with the function-starts data emptied (`datasize` = 0) and the symbol table emptied, so that the compact-unwind
    // pages are the only source of function starts (on the files as they are, every unwind-info start is also a
    // function start and the second source is unobservable)
    let mut variants: Vec<(String, Arc<[u8]>, Vec<String>)> = Vec::new();
    for path in fixture_files() {
        let Ok(bytes) = std::fs::read(root.join(&path)) else { continue };
        if let Some(pos) = objpres::macho_function_starts_cmd(&bytes) {
            let mut patch = vec![format!("fpatch {} 00000000", pos + 12)];
            // … and with an empty symbol table (`nsyms` = 0): the placeholders are then not shadowed by symbols
            if let Some(symtab) = objpres::macho_load_cmd(&bytes, 2) {
                patch.push(format!("fpatch {} 00000000", symtab + 12));
            }
            let patched = objpres::apply_patches(&bytes, &patch);
            let has_unwind = objpres::presentation(&patched, "macho").map(|p| p.iter().any(|l| l.starts_with("funwind "))).unwrap_or(false);
            variants.push((path.clone(), bytes.into(), Vec::new()));
            if has_unwind {
                variants.push((path, patched.into(), patch));
            }
        } else {
            variants.push((path, bytes.into(), Vec::new()));
        }
    }
    for (path, bytes, patch) in variants {
        let Ok(Ok(map)) = catch_unwind(AssertUnwindSafe(|| load_map(bytes.clone(), &path))) else { continue };
        let tag = fixture_tag(&path, &bytes);
        let layout = if tag == "pdb" { None } else { object_layout(&bytes) };
        let mut symbols: Vec<(u32, String)> = map.iter_symbols().map(|(a, n)| (a, n.into_owned())).collect();
        symbols.sort();
        symbols.dedup_by_key(|s| s.0);
        let mut rng = Rng::new(fnv1a(&[path.clone()]));
        // which symbols to probe
        let chosen: Vec<usize> = match tier {
            Tier::Thorough => (0..symbols.len()).collect(),
            Tier::Quick => {
                let want = 330usize;
                if symbols.len() <= want {
                    (0..symbols.len()).collect()
                } else {
                    let mut v: BTreeSet<usize> = BTreeSet::new();
                    v.insert(0);
                    v.insert(symbols.len() - 1);
                    while v.len() < want {
                        let i = rng.below(symbols.len() as u64) as usize;
                        v.insert(i);
                        if i + 1 < symbols.len() && rng.chance(1, 2) {
                            v.insert(i + 1);
                        }
                    }
                    v.into_iter().collect()
                }
            }
        };
        let mut rels: BTreeSet<u32> = BTreeSet::new();
        for &i in &chosen {
            let s = symbols[i].0;
            rels.insert(s);
            rels.insert(s.saturating_sub(1));
            rels.insert(s.saturating_add(1));
            if let Some(info) = map.lookup_sync(LookupAddress::Relative(s)) {
                if let Some(size) = info.symbol.size {
                    let end = info.symbol.address as u64 + size as u64;
                    for e in [end.saturating_sub(1), end, end + 1, info.symbol.address as u64 + size as u64 / 2] {
                        if let Ok(e) = u32::try_from(e) {
                            rels.insert(e);
                        }
                    }
                }
            }
        }
        rels.insert(0);
        rels.insert(u32::MAX);
        if let (Some(f), Some(l)) = (symbols.first(), symbols.last()) {
            rels.insert(f.0.saturating_sub(16));
            rels.insert(l.0.saturating_add(0x10000));
            for _ in 0..40 {
                rels.insert(rng.range(f.0 as u64, l.0 as u64) as u32);
            }
        }
        for _ in 0..20 {
            rels.insert(rng.below(1 << 32) as u32);
        }
        // queries in all supported forms
        let mut queries: Vec<Query> = Vec::new();
        for &r in &rels {
            match &layout {
                Some((base, ranges)) => {
                    let claim = claim_rel(*base, r as u64);
                    queries.push(Query { form: Form::R, addr: r as u64, claim });
                    if let Some(s) = base.checked_add(r as u64) {
                        queries.push(Query { form: Form::S, addr: s, claim: claim_svma(*base, s) });
                        for o in offsets_of(ranges, s).into_iter().take(2) {
                            queries.push(Query { form: Form::O, addr: o, claim: claim_offset(*base, ranges, o) });
                        }
                    }
                }
                None => {
                    queries.push(Query { form: Form::R, addr: r as u64, claim: r.to_string() });
                    if r % 16 == 0 {
                        // unsupported forms must answer nothing (PDB, fat archives)
                        let unsupported = tag == "pdb";
                        if unsupported {
                            queries.push(Query { form: Form::S, addr: r as u64, claim: "none".to_string() });
                            queries.push(Query { form: Form::O, addr: r as u64, claim: "none".to_string() });
                        }
                    }
                }
            }
        }
        if let Some((base, ranges)) = &layout {
            if *base > 0 {
                queries.push(Query { form: Form::S, addr: base - 1, claim: "none".to_string() });
            }
            if let Some(s) = base.checked_add(1 << 32) {
                queries.push(Query { form: Form::S, addr: s, claim: "none".to_string() });
            }
            let end = ranges.iter().map(|r| r.0 + r.1).max().unwrap_or(0);
            for o in [end, end + 4096, u64::MAX] {
                queries.push(Query { form: Form::O, addr: o, claim: claim_offset(*base, ranges, o) });
            }
        }
        // object kinds: the `object` presentation of the file goes into the ops and the Lean model builds the symbol
        // list itself (`kind fxobj`); the all-symbol sweep below (judge-only) is then kept in the thorough tier only
        let pres = if tag == "pdb" { None } else { objpres::presentation(thin_slice(&bytes), tag) };
        if let Some(pres) = &pres {
            // quick: at most ~1500 lookups per file; thorough: at most ~24000 in cases of 4000
            let (cap, per_case) = if tier == Tier::Thorough { (24000usize, 4000usize) } else { (1500usize, 1500usize) };
            let step = queries.len().div_ceil(cap).max(1);
            // keep whole groups (all forms of one relative address are adjacent): sample by claimed address
            let mut sample: Vec<Query> = Vec::new();
            let mut group = 0usize;
            let mut last_claim = String::new();
            for q in &queries {
                if q.claim != last_claim {
                    group += 1;
                    last_claim = q.claim.clone();
                }
                if group % step == 0 || q.claim == "none" || q.claim == "xwf" {
                    sample.push(q.clone());
                }
            }
            for (k, chunk) in sample.chunks(per_case).enumerate() {
                let threads = if tier == Tier::Thorough { 8 } else if k == 0 { 4 } else { 0 };
                // oracle values of demangle_any for the names around the queries
                let mut dem: BTreeSet<String> = BTreeSet::new();
                for q in chunk {
                    if let Ok(a) = q.claim.parse::<u64>() {
                        let idx = symbols.partition_point(|(s, _)| (*s as u64) <= a);
                        if idx > 0 {
                            let raw = &symbols[idx - 1].1;
                            let d = demangle_any(raw);
                            if &d != raw {
                                dem.insert(format!("dem {} {}", name_hex(raw), name_hex(&d)));
                            }
                        }
                    }
                }
                let mut desc: Vec<String> = patch.clone();
                desc.extend(pres.iter().cloned());
                desc.extend(dem);
                let mut ops = vec![format!("kind fxobj {tag} {path}")];
                if threads > 0 {
                    ops.push(format!("threads {threads}"));
                }
                ops.push(format!("fsum {}", objpres::desc_hash(desc.iter())));
                ops.extend(desc);
                for q in chunk {
                    ops.push(format!("q {} {} {}", q.form.tag(), q.addr, q.claim));
                }
                // self-check: the case must survive the trip through the ops file (lines are trimmed there) with its
                // checksum intact, otherwise both sides would answer `bad-op` and the case would silently test nothing
                let trimmed: Vec<String> = ops.iter().map(|l| l.trim().to_string()).collect();
                if trimmed != ops || trimmed.iter().find_map(|l| l.strip_prefix("fsum ")).and_then(|s| s.parse::<u64>().ok()) != Some(objpres::desc_hash(trimmed.iter())) {
                    cases.push(Case { name: format!("selfcheck-{}", cases.len()), ops: vec![format!("kind desc-selfcheck-failed {path}")] });
                }
                let variant = if patch.is_empty() { "" } else { "-nofs" };
                cases.push(Case { name: format!("fo-{}{variant}-{k}", path.replace(['/', ' '], "_")), ops });
            }
            if tier != Tier::Thorough {
                continue;
            }
        }
        if !patch.is_empty() {
            continue; // the judge-only sweep reads the file as it is
        }
        // split into cases of at most 600 queries, recording the answers of this (generation-time) run
        for (k, chunk) in queries.chunks(600).enumerate() {
            // quick: the first chunk of every fixture is also looked up from 4 threads sharing the map
            let threads = if tier == Tier::Thorough { 8 } else if k == 0 { 4 } else { 0 };
            let reload = || load_map(bytes.clone(), &path).ok();
            let Some(fresh) = reload() else { continue };
            let recorded = fixture_answers(fresh, &reload, tag, chunk, 0, 1, &mut stats);
            let mut ops = vec![format!("kind fixture {tag} {path}")];
            if threads > 0 {
                ops.push(format!("threads {threads}"));
            }
            for (q, rec) in chunk.iter().zip(recorded) {
                ops.push(format!("q {} {} {} :: {}", q.form.tag(), q.addr, q.claim, rec));
            }
            cases.push(Case { name: format!("fx-{}-{k}", path.replace(['/', ' '], "_")), ops });
        }
    }
    cases
}

// ---------------------------------------------------------------------------------------------
// generators

const NAMES: [&str; 24] = [
    "main", "_start", "alpha", "beta", "_ZN3foo3barEv", "_ZNK8KxVectorI16KxfArcFileRecordjEixEj",
    "_RNvMsr_NtCs3ssYzQotkvD_3std4pathNtB5_7PathBuf3newCs15kBYyAo9fc_7mycrate", "?foo@@YAXXZ", "camlA__b__c_1002",
    "__SM17java.lang.IntegerD7compareiiiEo", "_!!!!!!!bla", "__libc_start_main", "_ZN4core3fmt5write17h0123456789abcdefE",
    "asm_exc_page_fault", "f", "g", "memcpy", "_Z1fv", "x_y.z", "do_syscall_64", "fun_1000", "EntryPoint", "_", "a b",
];

fn pick_name(rng: &mut Rng, k: usize) -> String {
    if rng.chance(1, 3) {
        format!("{}_{k}", rng.pick(&NAMES))
    } else {
        rng.pick(&NAMES).to_string()
    }
}

struct ObjLayout {
    base: u64,
    ranges: Vec<(u64, u64, u64)>, // off, size, svma
}

fn push_queries(ops: &mut Vec<String>, rng: &mut Rng, lay: &ObjLayout, interesting: &BTreeSet<u64>, meta_guard: bool) {
    let mut rels: BTreeSet<u64> = BTreeSet::new();
    for &a in interesting {
        for d in [-1i64, 0, 1] {
            let v = a as i128 + d as i128;
            if v >= 0 && (v as u128) < U32 {
                rels.insert(v as u64);
            }
        }
    }
    rels.insert(0);
    rels.insert(u32::MAX as u64);
    let (lo, hi) = (interesting.iter().next().copied().unwrap_or(0), interesting.iter().last().copied().unwrap_or(4096));
    for _ in 0..6 {
        rels.insert(rng.range(lo.min(u32::MAX as u64), hi.min(u32::MAX as u64)));
    }
    for _ in 0..3 {
        rels.insert(rng.below(1 << 32));
    }
    let mut qs: Vec<String> = Vec::new();
    for &r in &rels {
        let claim = claim_rel(lay.base, r);
        qs.push(format!("q r {r} {claim}"));
        if let Some(s) = lay.base.checked_add(r) {
            if rng.chance(2, 3) {
                qs.push(format!("q s {s} {}", claim_svma(lay.base, s)));
            }
            for o in offsets_of(&lay.ranges, s) {
                if meta_guard && o < 0x10000 {
                    continue;
                }
                if rng.chance(2, 3) {
                    qs.push(format!("q o {o} {}", claim_offset(lay.base, &lay.ranges, o)));
                }
            }
        }
    }
    // addresses outside the representable range
    if lay.base > 0 {
        qs.push(format!("q s {} none", lay.base - 1));
        qs.push(format!("q s {} none", rng.below(lay.base)));
    }
    if let Some(s) = lay.base.checked_add(1 << 32) {
        qs.push(format!("q s {s} none"));
    }
    qs.push(format!("q s {} {}", u64::MAX, claim_svma(lay.base, u64::MAX)));
    for _ in 0..4 {
        let o = match rng.below(3) {
            0 => rng.below(0x40000),
            1 => lay.ranges.first().map(|r| r.0.wrapping_add(r.1)).unwrap_or(0),
            _ => rng.next_u64(),
        };
        if meta_guard && o < 0x10000 {
            continue;
        }
        qs.push(format!("q o {o} {}", claim_offset(lay.base, &lay.ranges, o)));
    }
    if rng.chance(1, 2) {
        rng.shuffle(&mut qs);
    }
    ops.extend(qs);
}

fn gen_obj(rng: &mut Rng, family: u64) -> Vec<String> {
    let mut ops = vec!["kind obj".to_string()];
    let base: u64 = match rng.below(8) {
        0 | 1 => 0,
        2 => 0x1000,
        3 => 0x200000,
        4 => 0x400000,
        5 => 0xffff_ffff_8100_0000,
        6 => u64::MAX - rng.range(0x2000, 0x20000),
        _ => rng.below(1 << 40) & !0xfff,
    };
    let no_segments = family == 3;
    // segments
    let nseg = if no_segments { 0 } else { rng.range(1, 3) };
    let mut ranges: Vec<(u64, u64, u64)> = Vec::new();
    // the first segment usually starts at file offset 0 (then file offset == relative address throughout it);
    // sometimes not
    let mut cur_off = if rng.chance(1, 4) { rng.range(1, 4) * 0x800 } else { 0 };
    let mut cur_addr = base;
    for i in 0..nseg {
        let size = rng.range(1, 8) * 0x800;
        let bias = if i > 0 && rng.chance(1, 2) { 0x1000 } else { 0 };
        let vaddr = cur_addr.wrapping_add(bias);
        let (off, filesz) = if family == 5 && i == nseg - 1 {
            // excluded point: `file_offset + size` overflows u64
            (u64::MAX - rng.below(16), rng.range(16, 64))
        } else if rng.chance(1, 10) && i > 0 {
            (cur_off.saturating_sub(0x400), size) // overlapping file ranges: the first one wins
        } else {
            (cur_off, size)
        };
        // a segment with bss: `p_memsz > p_filesz` (the address space continues behind the file range)
        let bss = if rng.chance(1, 5) { rng.range(1, 8) * 0x400 } else { 0 };
        if bss > 0 && family != 5 {
            ops.push(format!("seg {off} {vaddr} {filesz} {}", filesz + bss));
        } else {
            ops.push(format!("seg {off} {vaddr} {filesz}"));
        }
        ranges.push((off, filesz, vaddr));
        cur_off = cur_off.wrapping_add(size);
        cur_addr = vaddr.wrapping_add(size).wrapping_add(bss);
    }
    // sections
    let nsec = rng.range(1, 3);
    let mut secs: Vec<(char, u64, u64, u64)> = Vec::new();
    let mut sec_addr = base.wrapping_add(rng.range(0, 4) * 0x400);
    for i in 0..nsec {
        let kind = match rng.below(10) {
            0 => 'x',
            1 => 'd',
            2 if i > 0 => 'n',
            _ => 't',
        };
        let size = match rng.below(6) {
            0 => 0,
            1 => rng.range(1, 64),
            _ => rng.range(1, 16) * 0x100,
        };
        let size = if family == 4 && rng.chance(1, 3) { u64::MAX - rng.below(0x2000) } else { size };
        // file offset consistent with the first segment that maps the address, else arbitrary
        let off = ranges
            .iter()
            .find(|r| r.2 <= sec_addr && sec_addr.wrapping_sub(r.2) < r.1)
            .map(|r| r.0.wrapping_add(sec_addr - r.2))
            .unwrap_or(0x10000 + i * 0x4000);
        let off = if no_segments { 0x10000 + i * 0x4000 + rng.below(4) * 0x100 } else { off };
        ops.push(format!("sec {kind} {sec_addr} {size} {off}"));
        secs.push((kind, sec_addr, size, off));
        sec_addr = sec_addr.wrapping_add(size.min(0x4000)).wrapping_add(rng.below(3) * 0x100);
    }
    if no_segments {
        ranges = secs.iter().filter(|s| s.0 == 't' || s.0 == 'd').map(|s| (s.3, s.2, s.1)).collect();
    }
    let base_eff = if no_segments { 0 } else { base };
    let mut interesting: BTreeSet<u64> = BTreeSet::new();
    let rel_of = |a: u64, set: &mut BTreeSet<u64>| {
        if let Some(r) = a.checked_sub(base_eff) {
            if (r as u128) < U32 {
                set.insert(r);
            }
        }
    };
    for s in &secs {
        rel_of(s.1, &mut interesting);
        if let Some(e) = s.1.checked_add(s.2) {
            rel_of(e, &mut interesting);
        }
    }
    // symbols on a coarse grid inside the sections so that collisions and adjacency are frequent
    let nsym = match rng.below(6) {
        0 => 0,
        1 => rng.range(1, 3),
        2 => rng.range(20, 60),
        _ => rng.range(3, 14),
    };
    let step = *rng.pick(&[1u64, 4, 16, 16, 64]);
    let mut values: Vec<u64> = Vec::new();
    for k in 0..nsym {
        let si = rng.below(secs.len() as u64) as usize;
        let s = secs[si];
        let span = (s.2.min(0x1000) / step).max(1);
        let mut value = s.1.wrapping_add(rng.below(span + 2) * step);
        if !values.is_empty() && rng.chance(1, 6) {
            value = *rng.pick(&values); // duplicate address
        }
        match rng.below(40) {
            0 => value = 0,
            1 => value = base_eff.saturating_sub(rng.range(1, 0x100)), // below the base
            2 => value = base_eff.saturating_add((1 << 32) + rng.below(0x100)), // relative address >= 2^32
            3 => value = base_eff.saturating_add((1 << 32) - rng.range(1, 0x20)),
            _ => {}
        }
        values.push(value);
        let size = match rng.below(8) {
            0 | 1 => 0,
            2 => step,
            3 => step * rng.range(1, 4),
            4 => rng.range(1, 0x40),
            5 => s.1.wrapping_add(s.2).wrapping_sub(value).min(0x10000), // up to the section end
            6 if family == 4 => u64::MAX - rng.below(0x100),
            _ => rng.range(1, 0x200),
        };
        let typ = match rng.below(12) {
            0 => 'n',
            1 => 'o',
            2 => 'i',
            _ => 'f',
        };
        let size = if typ == 'n' && rng.chance(1, 2) { 0 } else { size };
        let shndx = match rng.below(20) {
            0 => "u".to_string(),
            1 => "a".to_string(),
            2 => (secs.len() + 1 + rng.below(3) as usize).to_string(), // a metadata section / out of range
            3 => (rng.below(secs.len() as u64) + 1).to_string(),       // some other described section
            _ => (si + 1).to_string(),
        };
        let table = if rng.chance(1, 4) { 'd' } else { 's' };
        // the export path `export.address() - base` must not underflow except in the excluded-point family
        let value = if table == 'd' && value < base_eff && family != 6 { base_eff.wrapping_add(value % 0x100) } else { value };
        let (name_hex_s, dem_hex) = if rng.chance(1, 40) && family != 7 {
            ("!".to_string(), "-".to_string())
        } else {
            let n = pick_name(rng, k as usize);
            (name_hex(&n), name_hex(&demangle_any(&n)))
        };
        ops.push(format!("sym {table} {typ} {shndx} {value} {size} {name_hex_s} {dem_hex}"));
        if table == 's' && rng.chance(1, 8) && (value >= base_eff || family == 6) {
            // the same function also in .dynsym
            ops.push(format!("sym d {typ} {shndx} {value} {size} {name_hex_s} {dem_hex}"));
        }
        rel_of(value, &mut interesting);
        if let Some(e) = value.checked_add(size) {
            rel_of(e, &mut interesting);
        }
    }
    if family == 6 {
        // excluded point: a defined dynamic symbol below the base => `export.address() - base_address` underflows
        if base_eff > 0 {
            ops.push(format!("sym d f 1 {} 4 {} {}", base_eff - rng.range(1, base_eff.min(0x100)), name_hex("below"), name_hex("below")));
            ops.push("xwf-load".to_string());
        }
    }
    // entry point
    let entry = match rng.below(6) {
        0 => 0,
        1 => base_eff.saturating_sub(1),
        2 if !values.is_empty() => *rng.pick(&values),
        3 => rng.next_u64(),
        _ => secs[0].1,
    };
    ops.push(format!("entry {entry}"));
    if entry >= base_eff {
        interesting.insert((entry - base_eff) % (1 << 32));
    }
    // FDEs (`.eh_frame`): the code uses `initial_address as u32` and `(initial_address + len) as u32`
    if rng.chance(1, 2) || family == 8 {
        for _ in 0..rng.range(1, 8) {
            let s = secs[rng.below(secs.len() as u64) as usize];
            let span = (s.2.min(0x1000) / step).max(1);
            let mut initial = s.1.wrapping_add(rng.below(span + 1) * step);
            if !values.is_empty() && rng.chance(1, 3) {
                initial = *rng.pick(&values);
            }
            let mut len = rng.range(0, 0x80);
            if family == 8 && rng.chance(1, 3) {
                len = (u64::MAX - initial).saturating_add(rng.range(1, 4)); // initial + len >= 2^64 (unless initial is tiny)
            }
            if initial as u128 + len as u128 >= U64 && family != 8 {
                continue;
            }
            ops.push(format!("fde {initial} {len}"));
            interesting.insert(initial % (1 << 32));
            interesting.insert((initial as u128 + len as u128) as u64 % (1 << 32));
        }
    }
    // half of the files with FDEs carry `.eh_frame` as compilers write it: zR CIEs, pc-relative sdata4 pointers, the
    // section at a non-zero address (the writer falls back to absolute pointers if an FDE is out of reach)
    if ops.iter().any(|l| l.starts_with("fde ")) && rng.chance(1, 2) {
        let near = secs[0].1.wrapping_add(rng.range(1, 0x40) * 0x1000);
        ops.push(format!("ehpcrel {near}"));
    }
    // the generator's claim that loading is outside the hypotheses (an exported symbol below the base, an FDE
    // whose end overflows): computed from the description, not assumed from the family
    let export_below_base = ops.iter().any(|l| {
        let w: Vec<&str> = l.split_whitespace().collect();
        w.len() == 8
            && w[0] == "sym"
            && w[1] == "d"
            && w[3].parse::<u64>().is_ok()
            && (w[2] == "f" || w[2] == "o" || (w[2] == "n" && w[5] != "0"))
            && num(&w, 4) < base_eff
    });
    let names_ok = !ops.iter().any(|l| l.starts_with("sym d ") && l.split_whitespace().nth(6) == Some("!") && {
        let w: Vec<&str> = l.split_whitespace().collect();
        w[3].parse::<u64>().is_ok() && (w[2] == "f" || w[2] == "o" || (w[2] == "n" && w[5] != "0"))
    });
    let fde_overflow = ops.iter().any(|l| {
        let w: Vec<&str> = l.split_whitespace().collect();
        w.len() == 3 && w[0] == "fde" && num(&w, 1) as u128 + num(&w, 2) as u128 >= U64
    });
    let claimed = ops.contains(&"xwf-load".to_string());
    if ((export_below_base && names_ok) || fde_overflow) && !claimed {
        ops.push("xwf-load".to_string());
    }
    let lay = ObjLayout { base: base_eff, ranges };
    push_queries(&mut ops, rng, &lay, &interesting, no_segments);
    ops
}

fn gen_bp(rng: &mut Rng) -> Vec<String> {
    let mut ops = vec!["kind bp".to_string()];
    let n = match rng.below(6) {
        0 => 0,
        1 => rng.range(1, 3),
        2 => rng.range(25, 70),
        _ => rng.range(3, 20),
    };
    let origin: u64 = match rng.below(5) {
        0 => 0,
        1 => 0x1000,
        2 => 0xffff_f000,
        _ => rng.below(1 << 31),
    };
    let step = *rng.pick(&[1u64, 4, 16, 64]);
    let mut used: BTreeMap<u64, String> = BTreeMap::new();
    let mut interesting: BTreeSet<u64> = BTreeSet::new();
    for k in 0..n {
        let addr = (origin + rng.below(n * 2 + 2) * step).min(u32::MAX as u64);
        if let Some(line) = used.get(&addr) {
            // several records with one address: only identical ones (the index's sort is unstable)
            if rng.chance(1, 2) {
                ops.push(line.clone());
            }
            continue;
        }
        let name = if rng.chance(1, 30) { "!".to_string() } else { name_hex(&pick_name(rng, k as usize)) };
        let line = if rng.chance(2, 3) {
            let size = match rng.below(8) {
                0 => 0,
                1 => step,
                2 => step * rng.range(1, 4),
                3 => 0xffff_ffff,
                4 => 0x1_0000_0000 - addr, // ends exactly at 2^32
                5 => (0x1_0000_0000 - addr).saturating_sub(1),
                _ => rng.range(1, 0x100),
            }
            .min(u32::MAX as u64);
            interesting.insert(addr + size);
            format!("func {addr} {size} {name}")
        } else {
            format!("pub {addr} {name}")
        };
        interesting.insert(addr);
        used.insert(addr, line.clone());
        ops.push(line);
    }
    let mut qs = Vec::new();
    let mut rels: BTreeSet<u64> = BTreeSet::new();
    for &a in &interesting {
        for d in [-1i64, 0, 1] {
            let v = a as i128 + d as i128;
            if v >= 0 && (v as u128) < U32 {
                rels.insert(v as u64);
            }
        }
    }
    rels.insert(0);
    rels.insert(u32::MAX as u64);
    for _ in 0..4 {
        rels.insert(rng.below(1 << 32));
        rels.insert(origin + rng.below((n * 2 + 2) * step + 1).min(u32::MAX as u64 - origin));
    }
    for &r in &rels {
        qs.push(format!("q r {r} {r}"));
        // a few repeats inside one pass, too
        if rng.chance(1, 8) {
            qs.push(format!("q r {r} {r}"));
        }
    }
    qs.push(format!("q s {} none", origin));
    qs.push(format!("q o {} none", origin));
    rng.shuffle(&mut qs);
    ops.extend(qs);
    ops
}

fn gen_jit(rng: &mut Rng, zero_len: bool) -> Vec<String> {
    let mut ops = vec!["kind jit".to_string()];
    let n = match rng.below(5) {
        0 => 0,
        1 => rng.range(1, 2),
        2 => rng.range(20, 50),
        _ => rng.range(3, 12),
    };
    let mut pseudo: Vec<String> = Vec::new();
    for k in 0..n {
        if rng.chance(1, 4) {
            pseudo.push(format!("other {}", rng.below(64)));
        }
        if rng.chance(1, 4) {
            pseudo.push(format!("dbg {}", rng.below(4)));
            if rng.chance(1, 5) {
                pseudo.push(format!("dbg {}", rng.below(3))); // a second one: only the last pending record counts
            }
        }
        let len = if zero_len && rng.chance(1, 3) { 0 } else { *rng.pick(&[1u64, 1, 2, 4, 16, 33, 64]) };
        pseudo.push(format!("load {len} {}", name_hex(&pick_name(rng, k as usize))));
    }
    if rng.chance(1, 6) {
        pseudo.push(format!("dbg {}", rng.below(3))); // a trailing debug-info record without a load
    }
    if rng.chance(1, 5) {
        pseudo.insert(0, "be".to_string());
    }
    if n > 0 && rng.chance(1, 5) {
        // a dump that is still being written: cut inside the last record (its code, its name, its header) or
        // exactly at its end
        let k = match rng.below(4) {
            0 => 1,
            1 => rng.range(1, 12),
            2 => rng.range(1, 90),
            _ => rng.range(1, 200),
        };
        pseudo.push(format!("cut {k}"));
    }
    ops.extend(pseudo.iter().cloned());
    let (_, layout) = write_jitdump(&pseudo);
    // relative address space: cumulative
    let mut rel_start = Vec::new();
    let mut cum = 0u64;
    for &(_, len) in &layout {
        rel_start.push(cum);
        cum += len;
    }
    let claim_o = |o: u64| -> String {
        for (i, &(off, len)) in layout.iter().enumerate() {
            if off <= o && o < off + len {
                return (rel_start[i] + (o - off)).to_string();
            }
        }
        "none".to_string()
    };
    let mut qs = Vec::new();
    let mut rels: BTreeSet<u64> = BTreeSet::new();
    let mut offs: BTreeSet<u64> = BTreeSet::new();
    for (i, &(off, len)) in layout.iter().enumerate() {
        for d in [-1i64, 0, 1] {
            for b in [rel_start[i], rel_start[i] + len] {
                let v = b as i64 + d;
                if v >= 0 {
                    rels.insert(v as u64);
                }
            }
            for b in [off, off + len] {
                offs.insert((b as i64 + d) as u64);
            }
        }
        if len > 2 {
            let k = rng.below(len);
            rels.insert(rel_start[i] + k);
            offs.insert(off + k);
        }
    }
    rels.insert(0);
    rels.insert(cum + 100);
    rels.insert(u32::MAX as u64);
    offs.insert(0);
    offs.insert(39);
    offs.insert(rng.next_u64());
    for &r in &rels {
        qs.push(format!("q r {r} {r}"));
    }
    for &o in &offs {
        qs.push(format!("q o {o} {}", claim_o(o)));
    }
    qs.push("q s 0 none".to_string());
    qs.push(format!("q s {} none", rng.below(cum + 1)));
    rng.shuffle(&mut qs);
    ops.extend(qs);
    ops
}

// ---------------------------------------------------------------------------------------------

impl Prop for C05 {
    fn id(&self) -> &'static str {
        "C05"
    }
    fn case_count(&self, tier: Tier) -> u64 {
        match tier {
            Tier::Quick => 1500,
            Tier::Thorough => 20000,
        }
    }
    fn fixed_cases(&self, tier: Tier) -> Vec<Case> {
        let mut v = Vec::new();
        // hand-written boundary cases
        let mk = |name: &str, lines: &[&str]| Case { name: name.to_string(), ops: lines.iter().map(|s| s.to_string()).collect() };
        v.push(mk(
            "fixed-obj-basic",
            &[
                "kind obj", "seg 0 2097152 8192", "sec t 2101248 1024 4096", "sym s f 1 2101264 32 616c706861 616c706861",
                "sym s f 1 2101312 0 62657461 62657461", "sym s n 1 2101504 8 67 67", "entry 2101248", "q r 4112 4112", "q r 4143 4143",
                "q r 4144 4144", "q s 2101312 4160", "q o 4200 4200", "q r 5119 5119", "q r 5120 5120", "q r 6000 6000", "q r 0 0",
            ],
        ));
        v.push(mk(
            "fixed-bp-func-end",
            &[
                "kind bp", "func 4096 16 66", "pub 4128 67", "pub 4160 68", "func 4294967040 512 69", "q r 4111 4111", "q r 4112 4112",
                "q r 4127 4127", "q r 4128 4128", "q r 4159 4159", "q r 4160 4160", "q r 4294967056 4294967056", "q r 4294967295 4294967295",
                "q r 4095 4095", "q s 4096 none", "q o 4096 none",
            ],
        ));
        v.push(mk(
            "fixed-jit-zero-length",
            &[
                "kind jit", "load 5 61", "load 0 62", "load 7 63", "load 0 64", "q r 0 0", "q r 4 4", "q r 5 5", "q r 11 11", "q r 12 12",
                "q o 98 0", "q o 102 4", "q o 161 none", "q o 219 5", "q o 225 11", "q o 226 none", "q s 5 none",
            ],
        ));
        let mut c = vec!["kind census".to_string()];
        c.extend(census());
        v.push(Case { name: "fixture-census".to_string(), ops: c });
        v.extend(fixture_cases(tier));
        v
    }
    fn generate(&self, rng: &mut Rng, tier: Tier, index: u64) -> Vec<String> {
        let mut ops = match index % 20 {
            0..=5 => gen_obj(rng, 0),
            6 => gen_obj(rng, 3),  // no program headers: section file ranges
            7 => gen_obj(rng, 4),  // huge sizes: checked_add / u32::try_from failures
            8 => match rng.below(4) {
                0 => gen_obj(rng, 5), // excluded point: file range end overflows u64
                1 => gen_obj(rng, 6), // excluded point: exported symbol below the base
                2 => gen_obj(rng, 8), // excluded point: FDE end overflows u64
                _ => gen_obj(rng, 7),
            },
            9..=13 => gen_bp(rng),
            14..=17 => gen_jit(rng, false),
            18 => gen_jit(rng, true), // excluded point: zero-length code records (duplicate keys)
            _ => gen_obj(rng, 0),
        };
        if tier == Tier::Thorough && index % 4 == 0 {
            ops.insert(1, "threads 8".to_string());
        } else if tier == Tier::Quick && index % 6 == 0 {
            ops.insert(1, "threads 4".to_string());
        }
        ops
    }
    fn execute(&self, ops: &[String], stats: &mut Stats) -> Vec<String> {
        let kind: Vec<&str> = ops.first().map(|l| l.split_whitespace().collect()).unwrap_or_default();
        stats.bump(&format!("kind_{}", kind.get(1).copied().unwrap_or("?")));
        match kind.get(1).copied() {
            Some("obj") => {
                let spec = parse_elf(ops);
                let bytes: Arc<[u8]> = write_elf(&spec).into();
                stats.add("elf_symbols", spec.syms.len() as u64);
                stats.add("elf_fdes", spec.fdes.len() as u64);
                if spec.segs.is_empty() {
                    stats.bump("elf_without_segments");
                }
                if spec.segs.iter().any(|s| s.memsz.is_some()) {
                    stats.bump("elf_with_memsz_above_filesz");
                }
                if spec.segs.first().map(|s| s.off != 0).unwrap_or(false) {
                    stats.bump("elf_first_segment_not_at_offset_0");
                }
                if let Some(a) = spec.eh_pcrel {
                    stats.bump(if pcrel_representable(&spec.fdes, a) { "elf_eh_frame_pcrel_two_cies" } else { "elf_eh_frame_pcrel_out_of_reach" });
                }
                let reload = || load_map(bytes.clone(), "gen.so").ok();
                match catch_unwind(AssertUnwindSafe(|| load_map(bytes.clone(), "gen.so"))) {
                    Err(_) => {
                        stats.bump("load_panics");
                        vec!["panic".to_string()]
                    }
                    Ok(Err(e)) => vec![format!("err:load {}", e.split_whitespace().take(6).collect::<Vec<_>>().join("_"))],
                    Ok(Ok(map)) => generated_output(map, &reload, ops, |n| demangle_any(n), stats),
                }
            }
            Some("bp") => {
                let bytes: Arc<[u8]> = write_breakpad(ops).into();
                let reload = || load_map(bytes.clone(), "gen.sym").ok();
                match catch_unwind(AssertUnwindSafe(|| load_map(bytes.clone(), "gen.sym"))) {
                    Err(_) => vec!["panic".to_string()],
                    Ok(Err(e)) => vec![format!("err:load {}", e.split_whitespace().take(6).collect::<Vec<_>>().join("_"))],
                    Ok(Ok(map)) => generated_output(map, &reload, ops, |n| n.to_string(), stats),
                }
            }
            Some("jit") => {
                let (bytes, layout) = write_jitdump(ops);
                if layout.iter().any(|l| l.1 == 0) {
                    stats.bump("jit_with_zero_length_records");
                }
                for (key, counter) in [("dbg ", "jit_with_debug_info_records"), ("cut ", "jit_truncated_tail"), ("be", "jit_big_endian")] {
                    if ops.iter().any(|l| l.starts_with(key)) {
                        stats.bump(counter);
                    }
                }
                let bytes: Arc<[u8]> = bytes.into();
                let reload = || load_map(bytes.clone(), "jit-1.dump").ok();
                match catch_unwind(AssertUnwindSafe(|| load_map(bytes.clone(), "jit-1.dump"))) {
                    Err(_) => vec!["panic".to_string()],
                    Ok(Err(e)) => vec![format!("err:load {}", e.split_whitespace().take(6).collect::<Vec<_>>().join("_"))],
                    Ok(Ok(map)) => generated_output(map, &reload, ops, |n| n.to_string(), stats),
                }
            }
            Some("census") => census(),
            Some("fxobj") => {
                let tag = kind.get(2).copied().unwrap_or("other");
                let path = kind[3..].join(" ");
                // the description must be the one this file has (a shrunk case is answered `bad-op` by both sides)
                let want = ops.iter().find_map(|l| l.strip_prefix("fsum ")).and_then(|s| s.trim().parse::<u64>().ok());
                if want != Some(objpres::desc_hash(ops.iter())) {
                    return vec!["bad-op".to_string()];
                }
                stats.bump(&format!("fxobj_{tag}"));
                let Ok(bytes) = std::fs::read(fixtures_root().join(&path)) else { return vec!["err:read".to_string()] };
                if ops.iter().any(|l| l.starts_with("fpatch ")) {
                    stats.bump("fxobj_derived(function_starts_emptied)");
                }
                let bytes: Arc<[u8]> = objpres::apply_patches(&bytes, ops).into();
                let queries: Vec<Query> = ops.iter().filter_map(|l| parse_query(l)).collect();
                let threads = ops.iter().find_map(|l| l.strip_prefix("threads ")).and_then(|s| s.trim().parse().ok()).unwrap_or(0);
                let reload = || load_map(bytes.clone(), &path).ok();
                match catch_unwind(AssertUnwindSafe(|| load_map(bytes.clone(), &path))) {
                    Err(_) => vec!["panic".to_string()],
                    Ok(Err(_)) => vec!["err:load".to_string()],
                    Ok(Ok(map)) => {
                        let (answers, count, itsum) = fixture_observed(map, &reload, tag, &queries, threads, fnv1a(ops), stats);
                        let mut out = vec![count, itsum];
                        out.extend(answers.into_iter().zip(&queries).map(|(a, q)| format!("a {} {} {}", q.form.tag(), q.addr, a)));
                        out
                    }
                }
            }
            Some("fixture") => {
                let tag = kind.get(2).copied().unwrap_or("other");
                let path = kind[3..].join(" ");
                stats.bump(&format!("fixture_{tag}"));
                let Ok(bytes) = std::fs::read(fixtures_root().join(&path)) else { return vec!["err:read".to_string()] };
                let bytes: Arc<[u8]> = bytes.into();
                let queries: Vec<Query> = ops.iter().filter_map(|l| parse_query(l)).collect();
                let threads = ops.iter().find_map(|l| l.strip_prefix("threads ")).and_then(|s| s.trim().parse().ok()).unwrap_or(0);
                let reload = || load_map(bytes.clone(), &path).ok();
                match catch_unwind(AssertUnwindSafe(|| load_map(bytes.clone(), &path))) {
                    Err(_) => vec!["panic".to_string()],
                    Ok(Err(_)) => vec!["err:load".to_string()],
                    Ok(Ok(map)) => fixture_answers(map, &reload, tag, &queries, threads, fnv1a(ops), stats)
                        .into_iter()
                        .zip(&queries)
                        .map(|(a, q)| format!("a {} {} {}", q.form.tag(), q.addr, a))
                        .collect(),
                }
            }
            _ => vec!["bad-op".to_string()],
        }
    }
    fn isolate(&self) -> Option<(u64, u64)> {
        // a deadlock between the map's mutexes (or a runaway allocation while loading) becomes `crash:<how>` of one case
        Some((120, 8192))
    }
    fn nontrivial(&self, ops: &[String], out: &[String]) -> bool {
        // at least one lookup answered with a symbol and one with none
        ops.len() >= 3
            && out.iter().any(|l| l.starts_with("a ") && !l.contains(" none") && !l.ends_with("panic"))
            && out.iter().any(|l| l.starts_with("a ") && l.split(" ; ").next().map(|m| m.ends_with(" none")).unwrap_or(false))
    }
}

fn main() {
    verif_harness::runner::run_main(&C05);
}
