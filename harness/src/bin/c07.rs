//! C07 — drives the real `/symbolicate/v5` implementation in-process:
//! `samply_api::Api::query_api("/symbolicate/v5", body)` over a `SymbolManager` whose helper serves
//! generated Breakpad `.sym` files, fixture binaries from `repo-link/fixtures` and table-driven synthetic
//! symbol maps (`FileAndPathHelper::get_symbol_map_for_library`), all from memory.
//!
//! The ops of a case carry the *world* (what the helper serves), the request, and the **oracle**: for every
//! requested (library, address) the result of the direct `load_symbol_map` + `SymbolMap::lookup{_sync}`
//! done by the harness itself. The Lean model computes the expected response from request + oracle; the
//! judge checks the implementation's JSON against request + oracle. See `lean/SamplyModel/Iface/C07.lean`
//! for the line formats.
use samply_api::samply_symbols::debugid::DebugId;
use samply_api::samply_symbols::{
    self, CandidatePathInfo, FileAndPathHelper, FileAndPathHelperResult, FileLocation, FrameDebugInfo,
    FramesLookupResult, LibraryInfo, LookupAddress, OptionallySendFuture, SourceFilePath, SymbolInfo,
    SymbolManager, SymbolMapTrait, SyncAddressInfo,
};
use samply_api::Api;
use std::borrow::Cow;
use std::collections::{BTreeSet, HashMap};
use std::panic::{catch_unwind, AssertUnwindSafe};
use std::sync::{Arc, Mutex, OnceLock};
use verif_harness::common::*;

// ---------------------------------------------------------------------------------------------
// strings in op lines
// ---------------------------------------------------------------------------------------------

fn hx(s: &str) -> String {
    hex(s.as_bytes())
}
fn unhx(s: &str) -> String {
    String::from_utf8_lossy(&unhex(s)).to_string()
}
fn opt_hx(s: Option<&str>) -> String {
    match s {
        Some(s) => hx(s),
        None => "none".to_string(),
    }
}

// ---------------------------------------------------------------------------------------------
// the world: what the helper serves
// ---------------------------------------------------------------------------------------------

#[derive(Clone, Debug)]
struct SynFrame {
    function: Option<String>,
    file: Option<String>,
    line: Option<u32>,
}

#[derive(Clone, Debug)]
enum SynFrames {
    None,
    Avail(Vec<SynFrame>),
    /// `FramesLookupResult::External`; a `Direct` symbol map never resolves it
    Ext,
}

#[derive(Clone, Debug)]
struct SynEntry {
    lo: u32,
    hi: u32,
    sym_addr: u32,
    size: Option<u32>,
    name: String,
    frames: SynFrames,
}

/// table-driven symbol map handed out through `get_symbol_map_for_library`
struct SynMap {
    debug_id: DebugId,
    entries: Vec<SynEntry>,
}

impl SymbolMapTrait for SynMap {
    fn debug_id(&self) -> DebugId {
        self.debug_id
    }
    fn symbol_count(&self) -> usize {
        self.entries.len()
    }
    fn iter_symbols(&self) -> Box<dyn Iterator<Item = (u32, Cow<'_, str>)> + '_> {
        Box::new(self.entries.iter().map(|e| (e.sym_addr, Cow::Borrowed(e.name.as_str()))))
    }
    fn lookup_sync(&self, address: LookupAddress) -> Option<SyncAddressInfo> {
        let a = match address {
            LookupAddress::Relative(a) => a,
            _ => return None,
        };
        let e = self.entries.iter().find(|e| e.lo <= a && a < e.hi)?;
        let frames = match &e.frames {
            SynFrames::None => None,
            SynFrames::Avail(fs) => Some(FramesLookupResult::Available(
                fs.iter()
                    .map(|f| FrameDebugInfo {
                        function: f.function.clone(),
                        file_path: f.file.clone().map(SourceFilePath::from_breakpad_path),
                        line_number: f.line,
                    })
                    .collect(),
            )),
            SynFrames::Ext => Some(FramesLookupResult::External(samply_symbols::ExternalFileAddressRef {
                file_ref: samply_symbols::ExternalFileRef::MachoExternalObject { file_path: "/nonexistent/x.o".into() },
                address_in_file: samply_symbols::ExternalFileAddressInFileRef::MachoOsoObject {
                    symbol_name: b"f".to_vec(),
                    offset_from_symbol: a - e.lo,
                },
            })),
        };
        Some(SyncAddressInfo {
            symbol: SymbolInfo { address: e.sym_addr, size: e.size, name: e.name.clone() },
            frames,
        })
    }
}

fn syn_to_text(entries: &[SynEntry]) -> String {
    let mut parts = Vec::new();
    for e in entries {
        let (kind, frames) = match &e.frames {
            SynFrames::None => ("none", String::new()),
            SynFrames::Ext => ("ext", String::new()),
            SynFrames::Avail(fs) => (
                "avail",
                fs.iter()
                    .map(|f| {
                        format!(
                            "{};{};{}",
                            opt_hx(f.function.as_deref()),
                            opt_hx(f.file.as_deref()),
                            f.line.map(|l| l.to_string()).unwrap_or_else(|| "none".into())
                        )
                    })
                    .collect::<Vec<_>>()
                    .join("/"),
            ),
        };
        parts.push(format!(
            "{},{},{},{},{},{},{}",
            e.lo,
            e.hi,
            e.sym_addr,
            e.size.map(|s| s.to_string()).unwrap_or_else(|| "none".into()),
            hx(&e.name),
            kind,
            frames
        ));
    }
    parts.join("!")
}

fn syn_from_text(t: &str) -> Vec<SynEntry> {
    let mut out = Vec::new();
    for part in t.split('!').filter(|p| !p.is_empty()) {
        let f: Vec<&str> = part.split(',').collect();
        if f.len() < 7 {
            continue;
        }
        let frames = match f[5] {
            "none" => SynFrames::None,
            "ext" => SynFrames::Ext,
            _ => SynFrames::Avail(
                f[6].split('/')
                    .filter(|x| !x.is_empty())
                    .map(|x| {
                        let g: Vec<&str> = x.split(';').collect();
                        SynFrame {
                            function: if g[0] == "none" { None } else { Some(unhx(g[0])) },
                            file: if g[1] == "none" { None } else { Some(unhx(g[1])) },
                            line: g[2].parse().ok(),
                        }
                    })
                    .collect(),
            ),
        };
        out.push(SynEntry {
            lo: f[0].parse().unwrap_or(0),
            hi: f[1].parse().unwrap_or(0),
            sym_addr: f[2].parse().unwrap_or(0),
            size: f[3].parse().ok(),
            name: unhx(f[4]),
            frames,
        });
    }
    out
}

#[derive(Clone)]
enum WorldEntry {
    /// a generated Breakpad file served as a candidate for this debug name
    Sym { name: String, bytes: Arc<[u8]> },
    /// a fixture file (path relative to repo-link/fixtures) served as a candidate for this debug name
    Fix { name: String, rel: String },
    /// a synthetic symbol map for exactly (name, breakpad id)
    Syn { name: String, id: String, entries: Vec<SynEntry> },
    /// every fixture file with this base name is served with all occurrences of `from` replaced by `to`
    /// (same length): the external .dwo / .o / .a files get other function names than the symbol table
    Patch { base: String, from: Vec<u8>, to: Vec<u8> },
    /// fixture files with this base name cannot be loaded (a missing external file)
    Hide { base: String },
}

fn world_to_line(world: &[WorldEntry]) -> String {
    let mut s = String::from("world");
    for e in world {
        match e {
            WorldEntry::Sym { name, bytes } => s.push_str(&format!(" sym:{}:{}", hx(name), hex(bytes))),
            WorldEntry::Fix { name, rel } => s.push_str(&format!(" fix:{}:{}", hx(name), hx(rel))),
            WorldEntry::Syn { name, id, entries } => {
                s.push_str(&format!(" syn:{}:{}:{}", hx(name), hx(id), hx(&syn_to_text(entries))))
            }
            WorldEntry::Patch { base, from, to } => s.push_str(&format!(" patch:{}:{}:{}", hx(base), hex(from), hex(to))),
            WorldEntry::Hide { base } => s.push_str(&format!(" hide:{}", hx(base))),
        }
    }
    s
}

fn world_from_line(l: &str) -> Vec<WorldEntry> {
    let mut out = Vec::new();
    for tok in l.split_whitespace().skip(1) {
        let f: Vec<&str> = tok.split(':').collect();
        match f.as_slice() {
            ["sym", n, b] => out.push(WorldEntry::Sym { name: unhx(n), bytes: unhex(b).into() }),
            ["fix", n, r] => out.push(WorldEntry::Fix { name: unhx(n), rel: unhx(r) }),
            ["patch", b, f, t] => out.push(WorldEntry::Patch { base: unhx(b), from: unhex(f), to: unhex(t) }),
            ["hide", b] => out.push(WorldEntry::Hide { base: unhx(b) }),
            ["syn", n, i, t] => {
                out.push(WorldEntry::Syn { name: unhx(n), id: unhx(i), entries: syn_from_text(&unhx(t)) })
            }
            _ => {}
        }
    }
    out
}

fn fixtures_dir() -> std::path::PathBuf {
    let root = std::env::var("VERIF_REPO")
        .ok()
        .or_else(|| std::env::var("VERIF_ROOT").ok().map(|r| format!("{r}/repo-link")))
        .unwrap_or_else(|| concat!(env!("CARGO_MANIFEST_DIR"), "/../repo-link").to_string());
    std::path::Path::new(&root).join("fixtures")
}

fn fixture_bytes(rel: &str) -> Option<Arc<[u8]>> {
    static CACHE: OnceLock<Mutex<HashMap<String, Option<Arc<[u8]>>>>> = OnceLock::new();
    let cache = CACHE.get_or_init(|| Mutex::new(HashMap::new()));
    let mut c = cache.lock().unwrap();
    c.entry(rel.to_string())
        .or_insert_with(|| {
            if rel.contains("..") {
                return None;
            }
            std::fs::read(fixtures_dir().join(rel)).ok().map(|v| v.into())
        })
        .clone()
}

/// location token: `sym:<index into world>` | `fix:<relative path>`
#[derive(Clone, Debug)]
struct Loc(String);
impl std::fmt::Display for Loc {
    fn fmt(&self, f: &mut std::fmt::Formatter<'_>) -> std::fmt::Result {
        write!(f, "{}", self.0)
    }
}
impl Loc {
    fn sibling(&self, path: &str) -> Option<Loc> {
        let rel = self.0.strip_prefix("fix:")?;
        let dir = std::path::Path::new(rel).parent()?;
        let base = std::path::Path::new(path).file_name()?;
        Some(Loc(format!("fix:{}", dir.join(base).to_string_lossy())))
    }
}
impl FileLocation for Loc {
    fn location_for_dyld_subcache(&self, _: &str) -> Option<Self> {
        None
    }
    fn location_for_external_object_file(&self, object_file: &str) -> Option<Self> {
        self.sibling(object_file)
    }
    fn location_for_pdb_from_binary(&self, _: &str) -> Option<Self> {
        None
    }
    fn location_for_source_file(&self, _: &str) -> Option<Self> {
        None
    }
    fn location_for_breakpad_symindex(&self) -> Option<Self> {
        None
    }
    fn location_for_dwo(&self, _comp_dir: &str, path: &str) -> Option<Self> {
        self.sibling(path)
    }
    fn location_for_dwp(&self) -> Option<Self> {
        let rel = self.0.strip_prefix("fix:")?;
        Some(Loc(format!("fix:{rel}.dwp")))
    }
}

struct Helper {
    world: Vec<WorldEntry>,
}

impl FileAndPathHelper for Helper {
    type F = Arc<[u8]>;
    type FL = Loc;

    fn get_candidate_paths_for_debug_file(
        &self,
        info: &LibraryInfo,
    ) -> FileAndPathHelperResult<Vec<CandidatePathInfo<Loc>>> {
        let Some(dn) = info.debug_name.as_deref() else { return Ok(vec![]) };
        let mut v = Vec::new();
        for (i, e) in self.world.iter().enumerate() {
            match e {
                WorldEntry::Sym { name, .. } if name == dn => v.push(CandidatePathInfo::SingleFile(Loc(format!("sym:{i}")))),
                WorldEntry::Fix { name, rel } if name == dn => v.push(CandidatePathInfo::SingleFile(Loc(format!("fix:{rel}")))),
                _ => {}
            }
        }
        Ok(v)
    }
    fn get_candidate_paths_for_binary(&self, _: &LibraryInfo) -> FileAndPathHelperResult<Vec<CandidatePathInfo<Loc>>> {
        Ok(vec![])
    }
    fn get_dyld_shared_cache_paths(&self, _: Option<&str>) -> FileAndPathHelperResult<Vec<Loc>> {
        Ok(vec![])
    }
    fn load_file(
        &self,
        location: Loc,
    ) -> std::pin::Pin<Box<dyn OptionallySendFuture<Output = FileAndPathHelperResult<Arc<[u8]>>> + '_>> {
        let r: FileAndPathHelperResult<Arc<[u8]>> = (|| {
            if let Some(i) = location.0.strip_prefix("sym:") {
                let i: usize = i.parse()?;
                match self.world.get(i) {
                    Some(WorldEntry::Sym { bytes, .. }) => Ok(bytes.clone()),
                    _ => Err("no such generated file".into()),
                }
            } else if let Some(rel) = location.0.strip_prefix("fix:") {
                let base = std::path::Path::new(rel).file_name().map(|b| b.to_string_lossy().to_string()).unwrap_or_default();
                if self.world.iter().any(|e| matches!(e, WorldEntry::Hide { base: b } if *b == base)) {
                    return Err("hidden fixture".into());
                }
                let bytes = fixture_bytes(rel).ok_or("no such fixture")?;
                let patches: Vec<(&Vec<u8>, &Vec<u8>)> = self
                    .world
                    .iter()
                    .filter_map(|e| match e {
                        WorldEntry::Patch { base: b, from, to } if *b == base && from.len() == to.len() && !from.is_empty() => Some((from, to)),
                        _ => None,
                    })
                    .collect();
                if patches.is_empty() {
                    return Ok(bytes);
                }
                let mut v = bytes.to_vec();
                for (from, to) in patches {
                    let mut i = 0;
                    while i + from.len() <= v.len() {
                        if v[i..i + from.len()] == from[..] {
                            v[i..i + from.len()].copy_from_slice(to);
                            i += from.len();
                        } else {
                            i += 1;
                        }
                    }
                }
                Ok(v.into())
            } else {
                Err("unknown location".into())
            }
        })();
        Box::pin(async move { r })
    }
    fn get_symbol_map_for_library(&self, info: &LibraryInfo) -> Option<(Loc, Arc<dyn SymbolMapTrait + Send + Sync>)> {
        let dn = info.debug_name.as_deref()?;
        let did = info.debug_id?;
        for (i, e) in self.world.iter().enumerate() {
            if let WorldEntry::Syn { name, id, entries } = e {
                if name == dn && DebugId::from_breakpad(id).ok() == Some(did) {
                    return Some((Loc(format!("syn:{i}")), Arc::new(SynMap { debug_id: did, entries: entries.clone() })));
                }
            }
        }
        None
    }
}

// ---------------------------------------------------------------------------------------------
// a case: world + request (+ oracle lines)
// ---------------------------------------------------------------------------------------------

#[derive(Clone, Debug, Default)]
struct JobSpec {
    mm: Vec<(String, String)>,
    stacks: Vec<Vec<(i128, i128)>>,
}

struct CaseSpec {
    world: Vec<WorldEntry>,
    wrapped: bool,
    jobs: Vec<JobSpec>,
    /// body has both the top-level job (jobs[0]) and a `jobs` list (jobs[1..])
    both: bool,
    /// JSON spelling of the body (0 = canonical)
    spell: u8,
    /// request sent first on the same symbol manager / Api (0 = none)
    warm: u8,
}

#[derive(Clone, Copy, PartialEq, Debug)]
enum Form {
    Jobs,
    Single,
    Both,
}

impl CaseSpec {
    fn new(world: Vec<WorldEntry>, wrapped: bool, jobs: Vec<JobSpec>) -> CaseSpec {
        CaseSpec { world, wrapped, jobs, both: false, spell: 0, warm: 0 }
    }
    fn form(&self) -> Form {
        if self.both {
            Form::Both
        } else if self.wrapped {
            Form::Jobs
        } else {
            Form::Single
        }
    }
}

fn job_numbers_ok(j: &JobSpec) -> bool {
    j.stacks.iter().flatten().all(|&(m, a)| u32_ok(m) && u32_ok(a))
}

/// request_json.rs:3-8 (serde untagged): which jobs does the body denote? `None` = parse error.
fn effective_jobs(form: Form, jobs: &[JobSpec]) -> Option<Vec<JobSpec>> {
    match form {
        Form::Jobs => jobs.iter().all(job_numbers_ok).then(|| jobs.to_vec()),
        Form::Single => (jobs.len() == 1 && job_numbers_ok(&jobs[0])).then(|| jobs.to_vec()),
        Form::Both => {
            let (top, list) = jobs.split_first()?;
            if list.iter().all(job_numbers_ok) {
                Some(list.to_vec())
            } else if job_numbers_ok(top) {
                Some(vec![top.clone()])
            } else {
                None
            }
        }
    }
}

/// The JSON body. `spell`: 0 canonical; 1 whitespace everywhere; 2 `stacks` before `memoryMap` (and `jobs`
/// last / first); 3 unknown extra keys at every object level; 4 all of these.
fn request_json(form: Form, spell: u8, jobs: &[JobSpec]) -> String {
    if spell == 0 && form != Form::Both {
        return request_json_canonical(form == Form::Jobs, jobs);
    }
    let ws = spell == 1 || spell == 4;
    let swap = spell == 2 || spell == 4;
    let extra = spell == 3 || spell == 4;
    let sp = if ws { " \n\t " } else { "" };
    let job_fields = |j: &JobSpec| -> Vec<String> {
        let mm: Vec<String> = j
            .mm
            .iter()
            .map(|(n, i)| format!("[{sp}{}{sp},{sp}{}{sp}]", serde_json::to_string(n).unwrap(), serde_json::to_string(i).unwrap()))
            .collect();
        let stacks: Vec<String> = j
            .stacks
            .iter()
            .map(|st| format!("[{sp}{}{sp}]", st.iter().map(|(m, a)| format!("[{sp}{m}{sp},{sp}{a}{sp}]")).collect::<Vec<_>>().join(",")))
            .collect();
        let mut f = vec![
            format!("{sp}\"memoryMap\"{sp}:{sp}[{}]{sp}", mm.join(",")),
            format!("{sp}\"stacks\"{sp}:{sp}[{}]{sp}", stacks.join(",")),
        ];
        if swap {
            f.reverse();
        }
        if extra {
            f.insert(1, "\"symbolSources\":[\"mozilla\",{\"memoryMap\":7}]".to_string());
            f.push("\"version\":5".to_string());
        }
        f
    };
    let job_json = |j: &JobSpec| format!("{{{}}}", job_fields(j).join(","));
    let jobs_field = |js: &[JobSpec]| format!("{sp}\"jobs\"{sp}:{sp}[{}]{sp}", js.iter().map(job_json).collect::<Vec<_>>().join(&format!("{sp},{sp}")));
    match form {
        Form::Jobs => {
            let mut f = vec![jobs_field(jobs)];
            if extra {
                f.insert(0, "\"stack\":[[0,1]]".to_string());
                f.push("\"memorymap\":null".to_string());
            }
            format!("{sp}{{{}}}{sp}", f.join(","))
        }
        Form::Single => format!("{sp}{}{sp}", job_json(&jobs[0])),
        Form::Both => {
            let mut f = job_fields(&jobs[0]);
            if swap {
                f.insert(0, jobs_field(&jobs[1..]));
            } else {
                f.push(jobs_field(&jobs[1..]));
            }
            format!("{sp}{{{}}}{sp}", f.join(","))
        }
    }
}

fn request_json_canonical(wrapped: bool, jobs: &[JobSpec]) -> String {
    let job_json = |j: &JobSpec| -> String {
        let mm: Vec<String> = j
            .mm
            .iter()
            .map(|(n, i)| format!("[{},{}]", serde_json::to_string(n).unwrap(), serde_json::to_string(i).unwrap()))
            .collect();
        let stacks: Vec<String> = j
            .stacks
            .iter()
            .map(|st| format!("[{}]", st.iter().map(|(m, a)| format!("[{m},{a}]")).collect::<Vec<_>>().join(",")))
            .collect();
        format!("{{\"memoryMap\":[{}],\"stacks\":[{}]}}", mm.join(","), stacks.join(","))
    };
    if wrapped {
        format!("{{\"jobs\":[{}]}}", jobs.iter().map(job_json).collect::<Vec<_>>().join(","))
    } else {
        job_json(&jobs[0])
    }
}

fn request_lines(spec: &CaseSpec) -> Vec<String> {
    let jobs = &spec.jobs;
    let mut v = vec![format!("form {}", match spec.form() { Form::Jobs => "jobs", Form::Single => "single", Form::Both => "both" })];
    if spec.spell != 0 {
        v.push(format!("spell {}", spec.spell));
    }
    if spec.warm != 0 {
        v.push(format!("warm {}", spec.warm));
    }
    for j in jobs {
        v.push("job".into());
        for (n, i) in &j.mm {
            v.push(format!("mod {} {}", hx(n), hx(i)));
        }
        for st in &j.stacks {
            let mut l = String::from("stack");
            for (m, a) in st {
                l.push_str(&format!(" {m},{a}"));
            }
            v.push(l);
        }
    }
    v
}

fn u32_ok(x: i128) -> bool {
    (0..=u32::MAX as i128).contains(&x)
}

/// (lib, address) pairs of the request in first-use order; `None` if some number is not a u32 or some
/// index is outside its memory map (then no oracle is needed: the answer is an error)
fn requested_pairs(jobs: &[JobSpec]) -> Option<Vec<((String, String), Vec<u32>)>> {
    let mut order: Vec<(String, String)> = Vec::new();
    let mut map: HashMap<(String, String), BTreeSet<u32>> = HashMap::new();
    for j in jobs {
        for st in &j.stacks {
            for &(m, a) in st {
                if !u32_ok(m) || !u32_ok(a) {
                    return None;
                }
                let lib = j.mm.get(m as usize)?.clone();
                if !map.contains_key(&lib) {
                    order.push(lib.clone());
                }
                map.entry(lib).or_default().insert(a as u32);
            }
        }
    }
    Some(order.into_iter().map(|l| { let a = map[&l].iter().copied().collect(); (l, a) }).collect())
}

fn block_on<F: std::future::Future>(f: F) -> F::Output {
    futures::executor::block_on(f)
}

fn frame_tok(f: &FrameDebugInfo) -> String {
    let (raw, mapped) = match &f.file_path {
        Some(p) => (hx(p.raw_path()), opt_hx(p.mapped_path().map(|m| m.to_special_path_str()).as_deref())),
        None => ("none".to_string(), "none".to_string()),
    };
    format!(
        "{};{};{};{}",
        opt_hx(f.function.as_deref()),
        raw,
        mapped,
        f.line_number.map(|l| l.to_string()).unwrap_or_else(|| "none".into())
    )
}

/// The oracle: direct `load_symbol_map` + `lookup_sync` / `lookup` for the given pairs, through a
/// symbol manager of its own.
fn oracle_lines(world: &[WorldEntry], pairs: &[((String, String), Vec<u32>)], stats: Option<&mut Stats>) -> Vec<String> {
    let mut dummy = Stats::default();
    let stats = stats.unwrap_or(&mut dummy);
    let sm = SymbolManager::with_helper(Helper { world: world.to_vec() });
    let mut out = Vec::new();
    for ((name, id), addrs) in pairs {
        let head = format!("{} {}", hx(name), hx(id));
        // lib.rs:161-169 `to_debug_id`
        let debug_id = match DebugId::from_breakpad(id) {
            Ok(d) if !d.is_nil() => d,
            _ => {
                out.push(format!("lib {head} err InvalidBreakpadId"));
                stats.bump("oracle_lib_err_InvalidBreakpadId");
                continue;
            }
        };
        let info = LibraryInfo { debug_name: Some(name.clone()), debug_id: Some(debug_id), ..Default::default() };
        let map = match block_on(sm.load_symbol_map(&info)) {
            Ok(m) => m,
            Err(e) => {
                out.push(format!("lib {head} err {}", e.enum_as_string()));
                stats.bump(&format!("oracle_lib_err_{}", e.enum_as_string()));
                continue;
            }
        };
        out.push(format!("lib {head} ok"));
        stats.bump("oracle_lib_ok");
        for &a in addrs {
            let sync = map.lookup_sync(LookupAddress::Relative(a));
            let full = block_on(map.lookup(LookupAddress::Relative(a)));
            match (sync, full) {
                (Some(s), Some(f)) => {
                    let kind = match (&s.frames, &f.frames) {
                        (None, _) => "none",
                        (Some(FramesLookupResult::Available(_)), _) => "avail",
                        (Some(FramesLookupResult::External(_)), Some(_)) => "ext",
                        (Some(FramesLookupResult::External(_)), None) => "extnone",
                    };
                    let mut l = format!(
                        "addr {head} {a} sym {} {} {} {kind}",
                        f.symbol.address,
                        f.symbol.size.map(|s| s.to_string()).unwrap_or_else(|| "none".into()),
                        hx(&f.symbol.name)
                    );
                    if kind == "ext" {
                        if let Some(outer) = f.frames.as_ref().and_then(|fr| fr.last()) {
                            match &outer.function {
                                Some(n) if *n != f.symbol.name => stats.bump("oracle_ext_outer_name_differs"),
                                Some(_) => stats.bump("oracle_ext_outer_name_same"),
                                None => stats.bump("oracle_ext_outer_name_none"),
                            }
                        }
                    }
                    if kind != "none" {
                        if let Some(frames) = &f.frames {
                            for fr in frames {
                                l.push(' ');
                                l.push_str(&frame_tok(fr));
                            }
                            stats.bump("oracle_addr_with_frames");
                            if frames.len() > 1 {
                                stats.bump("oracle_addr_with_inlines");
                            }
                        }
                    }
                    stats.bump(&format!("oracle_addr_sym_{kind}"));
                    out.push(l);
                }
                _ => {
                    stats.bump("oracle_addr_none");
                    out.push(format!("addr {head} {a} none"));
                }
            }
        }
    }
    out
}

fn case_ops(spec: &CaseSpec) -> Vec<String> {
    let mut ops = vec![world_to_line(&spec.world)];
    ops.extend(request_lines(spec));
    if let Some(pairs) = effective_jobs(spec.form(), &spec.jobs).and_then(|js| requested_pairs(&js)) {
        ops.extend(oracle_lines(&spec.world, &pairs, None));
    }
    ops
}

// ---------------------------------------------------------------------------------------------
// parsing ops back (execute / replay)
// ---------------------------------------------------------------------------------------------

struct ParsedOps {
    world: Vec<WorldEntry>,
    wrapped: Option<Form>,
    spell: u8,
    warm: u8,
    jobs: Vec<JobSpec>,
    /// oracle lines in file order, grouped: (lib key, lib line, addr lines)
    oracle_libs: Vec<((String, String), String)>,
    oracle_addrs: Vec<((String, String), u32, String)>,
    bad: bool,
}

fn parse_ops(ops: &[String]) -> ParsedOps {
    let mut p = ParsedOps { world: vec![], wrapped: None, spell: 0, warm: 0, jobs: vec![], oracle_libs: vec![], oracle_addrs: vec![], bad: false };
    for l in ops {
        let w: Vec<&str> = l.split_whitespace().collect();
        match w.as_slice() {
            ["world", ..] => p.world = world_from_line(l),
            ["form", "jobs"] => p.wrapped = Some(Form::Jobs),
            ["form", "single"] => p.wrapped = Some(Form::Single),
            ["form", "both"] => p.wrapped = Some(Form::Both),
            ["spell", k] => p.spell = k.parse().unwrap_or(0),
            ["warm", k] => p.warm = k.parse().unwrap_or(0),
            ["job"] => p.jobs.push(JobSpec::default()),
            ["mod", n, i] => match p.jobs.last_mut() {
                Some(j) => j.mm.push((unhx(n), unhx(i))),
                None => p.bad = true,
            },
            ["stack", rest @ ..] => {
                let mut st = Vec::new();
                for t in rest {
                    match t.split_once(',') {
                        Some((m, a)) => match (m.parse::<i128>(), a.parse::<i128>()) {
                            (Ok(m), Ok(a)) => st.push((m, a)),
                            _ => p.bad = true,
                        },
                        None => p.bad = true,
                    }
                }
                match p.jobs.last_mut() {
                    Some(j) => j.stacks.push(st),
                    None => p.bad = true,
                }
            }
            ["lib", n, i, ..] => p.oracle_libs.push(((unhx(n), unhx(i)), l.clone())),
            ["addr", n, i, a, ..] => match a.parse::<u32>() {
                Ok(a) => p.oracle_addrs.push(((unhx(n), unhx(i)), a, l.clone())),
                Err(_) => p.bad = true,
            },
            [] => {}
            _ => p.bad = true,
        }
    }
    match p.wrapped {
        None => p.bad = true,
        Some(Form::Single) if p.jobs.len() != 1 => p.bad = true,
        Some(Form::Both) if p.jobs.is_empty() => p.bad = true,
        _ => {}
    }
    p
}

// ---------------------------------------------------------------------------------------------
// canonical form of the implementation's JSON
// ---------------------------------------------------------------------------------------------

fn hexnum(v: Option<&serde_json::Value>) -> Option<String> {
    let s = v?.as_str()?;
    let s = s.strip_prefix("0x")?;
    u64::from_str_radix(s, 16).ok().map(|n| n.to_string())
}

fn canon_response(text: &str, stats: &mut Stats) -> Vec<String> {
    let v: serde_json::Value = match serde_json::from_str(text) {
        Ok(v) => v,
        Err(_) => return vec!["badjson not-json".into()],
    };
    if let Some(e) = v.get("error") {
        let msg = e.as_str().unwrap_or("");
        stats.bump("resp_error");
        return if msg.starts_with("Couldn't parse request") {
            vec!["error parse".into()]
        } else if msg == "Malformed request JSON: Stack frame module index beyond the memoryMap" {
            vec!["error bad-index".into()]
        } else {
            vec![format!("error other:{}", hx(msg))]
        };
    }
    let Some(results) = v.get("results").and_then(|r| r.as_array()) else { return vec!["badjson no-results".into()] };
    let mut out = Vec::new();
    for (j, res) in results.iter().enumerate() {
        out.push(format!("result {j}"));
        let mut found: Vec<String> = Vec::new();
        match res.get("found_modules").and_then(|f| f.as_object()) {
            Some(o) => {
                for (k, b) in o {
                    found.push(format!("found {} {}", hx(k), match b.as_bool() { Some(true) => "true", Some(false) => "false", None => "badvalue" }));
                }
            }
            None => out.push("badjson no-found_modules".into()),
        }
        found.sort();
        out.extend(found);
        let mut merr: Vec<String> = Vec::new();
        if let Some(o) = res.get("module_errors") {
            match o.as_object() {
                Some(o) => {
                    for (k, es) in o {
                        let names: Vec<String> = es
                            .as_array()
                            .map(|a| a.iter().map(|e| e.get("name").and_then(|n| n.as_str()).unwrap_or("noname").to_string()).collect())
                            .unwrap_or_else(|| vec!["notarray".into()]);
                        merr.push(format!("merr {} {}", hx(k), names.join(",")));
                    }
                }
                None => out.push("badjson module_errors".into()),
            }
        }
        merr.sort();
        out.extend(merr);
        let Some(stacks) = res.get("stacks").and_then(|s| s.as_array()) else {
            out.push("badjson no-stacks".into());
            continue;
        };
        for (s, st) in stacks.iter().enumerate() {
            let Some(frames) = st.as_array() else {
                out.push("badjson stack".into());
                continue;
            };
            out.push(format!("stack {s} {}", frames.len()));
            for fr in frames {
                stats.bump("resp_frames");
                let frame = fr.get("frame").and_then(|x| x.as_u64()).map(|x| x.to_string()).unwrap_or_else(|| "bad".into());
                let off = hexnum(fr.get("module_offset")).unwrap_or_else(|| "bad".into());
                let module = fr.get("module").and_then(|m| m.as_str()).map(hx).unwrap_or_else(|| "bad".into());
                let head = format!("frame {frame} {off} {module}");
                let sym_keys = ["function", "function_offset", "function_size", "file", "line", "inlines"];
                if !sym_keys.iter().any(|k| fr.get(*k).is_some()) {
                    out.push(format!("{head} none"));
                    continue;
                }
                stats.bump("resp_frames_symbolicated");
                let function = opt_hx(fr.get("function").and_then(|f| f.as_str()));
                let foff = hexnum(fr.get("function_offset")).unwrap_or_else(|| "bad".into());
                let fsize = match fr.get("function_size") {
                    None => "none".to_string(),
                    Some(x) => hexnum(Some(x)).unwrap_or_else(|| "bad".into()),
                };
                let file = opt_hx(fr.get("file").and_then(|f| f.as_str()));
                let line = match fr.get("line") {
                    None => "none".to_string(),
                    Some(x) => x.as_u64().map(|n| n.to_string()).unwrap_or_else(|| "bad".into()),
                };
                let inl: Vec<serde_json::Value> = match fr.get("inlines") {
                    None => vec![],
                    Some(x) => x.as_array().cloned().unwrap_or_else(|| vec![serde_json::Value::Null]),
                };
                if fr.get("file").is_some() {
                    stats.bump("resp_frames_with_file");
                }
                if !inl.is_empty() {
                    stats.bump("resp_frames_with_inlines");
                }
                out.push(format!("{head} sym {function} {foff} {fsize} {file} {line} {}", inl.len()));
                for i in &inl {
                    let f = opt_hx(i.get("function").and_then(|f| f.as_str()));
                    let fl = opt_hx(i.get("file").and_then(|f| f.as_str()));
                    let ln = match i.get("line") {
                        None => "none".to_string(),
                        Some(x) => x.as_u64().map(|n| n.to_string()).unwrap_or_else(|| "bad".into()),
                    };
                    out.push(format!("inl {f} {fl} {ln}"));
                }
            }
        }
    }
    out
}

// ---------------------------------------------------------------------------------------------
// generators
// ---------------------------------------------------------------------------------------------

fn rand_breakpad_id(rng: &mut Rng) -> String {
    let mut s = String::new();
    for _ in 0..32 {
        s.push(*rng.pick(&['0', '1', '2', '3', '4', '5', '6', '7', '8', '9', 'A', 'B', 'C', 'D', 'E', 'F']));
    }
    if s.chars().all(|c| c == '0') {
        s.replace_range(0..1, "1");
    }
    // the age: `u32::from_str_radix(_, 16)` — one digit (Breakpad on non-Windows: 0), or 2..8 digits (PDB
    // ages of incrementally linked binaries), leading zeros, upper / lower case
    const HEX: [char; 22] = ['0', '1', '2', '3', '4', '5', '6', '7', '8', '9', 'a', 'b', 'c', 'd', 'e', 'f', 'A', 'B', 'C', 'D', 'E', 'F'];
    match rng.below(10) {
        0..=4 => s.push(*rng.pick(&['0', '1', 'a'])),
        5 => {
            for _ in 0..rng.range(2, 8) {
                s.push(*rng.pick(&HEX));
            }
        }
        6 => s.push_str("ffffffff"),
        7 => {
            s.push_str(&"0".repeat(rng.range(1, 9) as usize));
            s.push(*rng.pick(&HEX));
        }
        8 => s.push_str(&format!("{:x}", rng.range(0x10, 0x1000))),
        _ => s.push_str(&format!("{:X}", rng.range(0x10, 0xfffff))),
    }
    s
}

/// another spelling of the same `DebugId` (or, for `k == 5`, of a different one)
fn respell_id(rng: &mut Rng, id: &str) -> String {
    if id.len() < 33 || !id.is_ascii() {
        return id.to_lowercase();
    }
    let (uuid, age) = id.split_at(32);
    match rng.below(6) {
        0 => id.to_lowercase(),
        1 => id.to_uppercase(),
        2 => format!("{uuid}{}{age}", "0".repeat(rng.range(1, 12) as usize)),
        3 => format!("{}+{age}", uuid.to_lowercase()),
        4 => format!("{uuid}{}", age.trim_start_matches('0').to_string() + if age.trim_start_matches('0').is_empty() { "0" } else { "" }),
        _ => format!("{uuid}{age}0"), // age * 16: another id
    }
}

const FILE_POOL: &[&str] = &[
    "/src/main.c",
    "/builds/worker/checkouts/gecko/mozglue/misc/TimeStamp.cpp",
    "hg:hg.mozilla.org/mozilla-central:widget/cocoa/nsAppShell.mm:997f00815e6bc28806b75448c8829f0259d2cb28",
    "git:github.com/rust-lang/rust:library/std/src/io/mod.rs:0123456789abcdef",
    "s3:gecko-generated-sources:a5d3747707d6877b0e5cb0a364e3cb9fea8aa4feb6ead138952c2ba46d41045297286385f0e0470146f49403e46bd266e654dfca986de48c230f3a71c2aafed4/ipc/ipdl/PBackgroundChild.cpp:",
    "cargo:github.com-1ecc6299db9ec823:addr2line-0.16.0:src/function.rs",
    "C:\\b\\s w\\ir\\cache\\builder\\src\\out\\x.cc",
    "relative/path with spaces.h",
    "hg:not-quite-special",
    "/ünï/ço∂é.rs",
];

const FUNC_POOL: &[&str] = &[
    "main",
    "mozilla::TimeStamp::Now()",
    "std::vector<int, std::allocator<int> >::push_back(int const&)",
    "core::ptr::drop_in_place<alloc::vec::Vec<u8>>",
    "-[NSApplication run]",
    "operator new(unsigned long)",
    "<lambda_1>::operator()",
    "fn with spaces (and, commas)",
    "ünïcode_fn",
    "_ZN3foo3barEv",
];

/// A generated Breakpad file and the addresses worth asking for.
struct GenSym {
    text: String,
    id: String,
    interesting: Vec<u32>,
}

fn gen_sym(rng: &mut Rng, module_name: &str) -> GenSym {
    let id = rand_breakpad_id(rng);
    let mut t = format!("MODULE Linux x86_64 {} {}\n", id, module_name.replace('\n', " "));
    t.push_str("INFO CODE_ID 0123456789ABCDEF\n");
    let nfiles = rng.range(1, 4) as usize;
    let mut files = Vec::new();
    for i in 0..nfiles {
        let f = *rng.pick(FILE_POOL);
        files.push(f);
        t.push_str(&format!("FILE {i} {f}\n"));
    }
    let norig = rng.range(0, 3) as usize;
    for i in 0..norig {
        t.push_str(&format!("INLINE_ORIGIN {i} {}\n", rng.pick(FUNC_POOL)));
    }
    let mut interesting = vec![0u32];
    let mut addr: u32 = match rng.below(4) {
        0 => 0,
        1 => rng.range(1, 0x40) as u32,
        _ => rng.range(0x1000, 0x20000) as u32,
    };
    let nfuncs = rng.range(1, 6);
    let mut publics: Vec<(u32, String)> = Vec::new();
    for _ in 0..nfuncs {
        // optional gap, optionally with a PUBLIC symbol in it
        if rng.chance(1, 2) {
            let gap = rng.range(1, 0x40) as u32;
            if rng.chance(1, 2) {
                publics.push((addr + rng.below(gap as u64) as u32, rng.pick(FUNC_POOL).to_string()));
            }
            interesting.push(addr + gap / 2);
            addr += gap;
        }
        let size = rng.range(1, 0x80) as u32;
        let name = *rng.pick(FUNC_POOL);
        t.push_str(&format!("FUNC {}{:x} {:x} 0 {}\n", if rng.chance(1, 8) { "m " } else { "" }, addr, size, name));
        // inline records: depth 0 ranges, some with a nested depth 1 (and 2) range inside
        if norig > 0 && rng.chance(2, 3) {
            let n0 = rng.range(1, 2);
            for _ in 0..n0 {
                let lo = addr + rng.below(size as u64) as u32;
                let len = rng.range(1, (addr + size - lo) as u64) as u32;
                let call_line = if rng.chance(1, 6) { 0 } else { rng.range(1, 500) };
                t.push_str(&format!("INLINE 0 {} {} {} {:x} {:x}\n", call_line, rng.below(nfiles as u64 + 1), rng.below(norig as u64 + 1), lo, len));
                interesting.extend([lo, lo + len - 1, lo + len]);
                if rng.chance(1, 2) {
                    let lo1 = lo + rng.below(len as u64) as u32;
                    let len1 = rng.range(1, (lo + len - lo1) as u64) as u32;
                    t.push_str(&format!("INLINE 1 {} {} {} {:x} {:x}\n", rng.range(1, 500), rng.below(nfiles as u64), rng.below(norig as u64), lo1, len1));
                    interesting.extend([lo1, lo1 + len1 - 1]);
                    if rng.chance(1, 3) {
                        t.push_str(&format!("INLINE 2 {} {} {} {:x} {:x}\n", rng.range(1, 500), rng.below(nfiles as u64), rng.below(norig as u64), lo1, 1));
                    }
                }
            }
        }
        // line records covering part of the function
        let mut a = addr;
        while a < addr + size {
            let len = rng.range(1, (addr + size - a).min(0x20) as u64) as u32;
            if rng.chance(4, 5) {
                let line = if rng.chance(1, 6) { 0 } else { rng.range(1, 3000) };
                let extra = if rng.chance(1, 10) { 2 } else { 0 };
                t.push_str(&format!("{:x} {:x} {} {}\n", a, len, line, rng.below(nfiles as u64 + extra)));
            }
            interesting.push(a);
            a += len;
        }
        interesting.extend([addr, addr + size - 1, addr + size, addr + size / 2]);
        addr += size;
    }
    for (a, n) in &publics {
        t.push_str(&format!("PUBLIC {:x} 0 {}\n", a, n));
        interesting.push(*a);
    }
    if rng.chance(1, 6) {
        // a function ending at the top of the address space (the overflow repaired by 5b75774e)
        t.push_str("FUNC ffffff00 200 0 high_func\nffffff00 10 7 0\n");
        interesting.extend([0xffffff00, 0xffffff10, 0xffffffff]);
    }
    interesting.extend([addr + 0x1000, 0xfffffff0, u32::MAX]);
    GenSym { text: t, id, interesting }
}

fn gen_syn(rng: &mut Rng, excluded: bool) -> (Vec<SynEntry>, Vec<u32>) {
    let mut entries = Vec::new();
    let mut interesting = vec![0u32, u32::MAX];
    let mut lo: u32 = rng.range(0, 0x2000) as u32;
    for _ in 0..rng.range(1, 5) {
        let len = rng.range(1, 0x100) as u32;
        let hi = lo + len;
        let name = rng.pick(FUNC_POOL).to_string();
        let gen_frame = |rng: &mut Rng| SynFrame {
            function: if rng.chance(1, 4) { None } else { Some(rng.pick(FUNC_POOL).to_string()) },
            file: if rng.chance(1, 4) { None } else { Some(rng.pick(FILE_POOL).to_string()) },
            line: match rng.below(5) {
                0 => None,
                1 => Some(0),
                _ => Some(rng.range(1, 100000) as u32),
            },
        };
        let frames = match rng.below(6) {
            0 => SynFrames::None,
            1 => SynFrames::Ext,
            _ => {
                let n = rng.range(1, 4);
                SynFrames::Avail((0..n).map(|_| gen_frame(rng)).collect())
            }
        };
        // symbol start: usually the range start, sometimes below it (debug-info ranges inside a bigger symbol)
        let mut sym_addr = if rng.chance(1, 4) { lo - rng.below(lo as u64 + 1).min(0x10) as u32 } else { lo };
        let mut frames = frames;
        if excluded && rng.chance(1, 2) {
            match rng.below(2) {
                0 => sym_addr = lo + rng.range(1, len as u64) as u32, // start above some addresses of the range
                _ => frames = SynFrames::Avail(vec![]),                // empty frame list
            }
        }
        entries.push(SynEntry { lo, hi, sym_addr, size: if rng.chance(1, 3) { None } else { Some(rng.range(0, 2 * len as u64) as u32) }, name, frames });
        interesting.extend([lo, hi - 1, hi, lo + len / 2, sym_addr]);
        lo = hi + if rng.chance(1, 2) { 0 } else { rng.range(1, 0x100) as u32 };
    }
    (entries, interesting)
}

/// fixtures that are present (not emptied) in this sandbox: (debug name, path relative to fixtures/)
const FIXTURES: &[(&str, &str)] = &[
    ("firefox", "linux64-ci/firefox"),
    ("libsoftokn3.so", "android32-local/libsoftokn3.so"),
    ("libsoftokn3.so.dbg", "android32-ci/libsoftokn3.so.dbg"),
    ("example-linux", "other/example-linux"),
    ("ls", "other/ls-linux/ls"),
    ("main-dwo", "other/simple-example/out/with-dwo/main"),
    ("main-dwp", "other/simple-example/out/with-dwp/main"),
    ("mozglue.dll", "win64-ci/mozglue.dll"),
    ("firefox.exe", "win64-ci/firefox.exe"),
    ("softokn3.pdb", "win64-ci/softokn3.pdb"),
    ("WriteArgument.pdb", "win64-ci/WriteArgument.pdb"),
    ("main-oso", "other/simple-example/out/mac-oso/main"),
    ("firefox-mac", "macos-ci/firefox"),
];

struct FixtureInfo {
    name: &'static str,
    rel: &'static str,
    id: String,
    interesting: Vec<u32>,
    /// starts of the functions whose debug info is in external files (main-dwo / main-oso)
    ext_interesting: Vec<u32>,
}

/// load every fixture once: breakpad id and symbol start addresses (for address generation only)
fn fixture_infos() -> &'static Vec<FixtureInfo> {
    static INFOS: OnceLock<Vec<FixtureInfo>> = OnceLock::new();
    INFOS.get_or_init(|| {
        let mut v = Vec::new();
        for (name, rel) in FIXTURES {
            let world = vec![WorldEntry::Fix { name: name.to_string(), rel: rel.to_string() }];
            let sm = SymbolManager::with_helper(Helper { world });
            let r = catch_unwind(AssertUnwindSafe(|| block_on(sm.load_symbol_map_from_location(Loc(format!("fix:{rel}")), None))));
            if let Ok(Ok(map)) = r {
                let id = map.debug_id().breakpad().to_string();
                let ext_interesting: Vec<u32> = map
                    .iter_symbols()
                    .filter(|(_, n)| n.contains("_func") || n.as_ref() == "main" || n.contains("GLOBAL__sub_I"))
                    .map(|(a, _)| a)
                    .collect();
                let mut starts: Vec<u32> = map.iter_symbols().map(|(a, _)| a).collect();
                starts.sort_unstable();
                starts.dedup();
                let step = (starts.len() / 400).max(1);
                let mut interesting: Vec<u32> = Vec::new();
                for (k, a) in starts.iter().enumerate() {
                    if k % step == 0 {
                        interesting.extend([*a, a.wrapping_add(1), a.wrapping_add(7), a.wrapping_add(0x23), a.wrapping_sub(1)]);
                    }
                }
                if let Some(last) = starts.last() {
                    interesting.extend([last.wrapping_add(0x10000), last.wrapping_add(0x1000000)]);
                }
                interesting.extend([0, 1, u32::MAX]);
                v.push(FixtureInfo { name, rel, id, interesting, ext_interesting });
            }
        }
        v
    })
}

const BAD_IDS: &[&str] = &[
    "",
    "xyz",
    "0123456789ABCDEF0123456789ABCDE",       // 31 digits
    "000000000000000000000000000000000",     // nil
    "not/an/id",
    "0123456789ABCDEF0123456789ABCDEFG",
    " 123456789ABCDEF0123456789ABCDEF0",
    "ÄÖ",
    "0123456789ABCDEF0123456789ABCDEF",        // 32 digits, no age
    "01234567-89AB-CDEF-0123-456789ABCDEF-1",  // hyphenated
    "01234567-89AB-CDEF-0123-456789ABCDEF1",
    "0123456789ABCDEF0123456789ABCDEF-1",      // `-` age
    "0123456789ABCDEF0123456789ABCDEF+",       // lone sign
    "0123456789ABCDEF0123456789ABCDEF100000000", // age = 2^32
    "0123456789ABCDEF0123456789ABCDEF1 ",
    "0123456789ABCDEF0123456789ABCDEF0x1",
    "0123456789abcdef0123456789abcde+1",       // `+` inside the uuid part
    "000000000000000000000000000000000000",    // nil with a long age
    "000000000",                               // PDB 2.0 form, nil
    "12345678-1",                              // PDB 2.0 form, hyphen at 8
    "1234567g1",
    "0123456789ABCDEF01",                      // 17..31 characters
    "{0123456789ABCDEF0123456789ABCDEF}1",
];

/// well-formed ids that are not the 33-character form (no file has them: the load fails, not the id check)
const ODD_GOOD_IDS: &[&str] = &[
    "4C4C4F571",                                 // PDB 2.0: timestamp + age
    "+1234567+89abcde",                          // PDB 2.0 with signs (from_str_radix accepts `+`)
    "0000000010",
    "0123456789ABCDEF0123456789ABCDEF00000000000000001",
    "0123456789abcdef0123456789abcdef+f",
    "00000000000000000000000000000000001",       // nil uuid, age 1
];

/// a library the generator knows addresses for
#[derive(Clone)]
struct KnownLib {
    name: String,
    id: String,
    interesting: Vec<u32>,
}

fn gen_world(rng: &mut Rng, excluded: bool, stats_kinds: &mut Vec<&'static str>) -> (Vec<WorldEntry>, Vec<KnownLib>) {
    let mut world = Vec::new();
    let mut libs = Vec::new();
    let n = rng.range(1, 4);
    let names = ["libxul.so", "xul.pdb", "XUL", "a/b", "lib with space.so", "ünï.dylib", "x", "libc.so.6", "firefox"];
    for k in 0..n {
        let kind = if excluded { 1 } else { rng.below(10) };
        match kind {
            0..=1 => {
                let name = format!("{}{}", rng.pick(&names), if rng.chance(1, 2) { k.to_string() } else { String::new() });
                let id = rand_breakpad_id(rng);
                let (entries, interesting) = gen_syn(rng, excluded);
                world.push(WorldEntry::Syn { name: name.clone(), id: id.clone(), entries });
                libs.push(KnownLib { name, id, interesting });
                stats_kinds.push("syn");
            }
            2..=3 => {
                let infos = fixture_infos();
                if infos.is_empty() {
                    continue;
                }
                let fi = &infos[rng.below(infos.len() as u64) as usize];
                world.push(WorldEntry::Fix { name: fi.name.to_string(), rel: fi.rel.to_string() });
                libs.push(KnownLib { name: fi.name.to_string(), id: fi.id.clone(), interesting: fi.interesting.clone() });
                stats_kinds.push("fixture");
            }
            _ => {
                let name = format!("{}{}", rng.pick(&names), if rng.chance(1, 2) { k.to_string() } else { String::new() });
                let g = gen_sym(rng, &name);
                world.push(WorldEntry::Sym { name: name.clone(), bytes: g.text.into_bytes().into() });
                libs.push(KnownLib { name: name.clone(), id: g.id, interesting: g.interesting });
                stats_kinds.push("sym");
                if rng.chance(1, 8) {
                    // a second candidate under the same debug name with another id (decoy order)
                    let g2 = gen_sym(rng, &name);
                    let e = WorldEntry::Sym { name: name.clone(), bytes: g2.text.into_bytes().into() };
                    if rng.chance(1, 2) {
                        world.insert(world.len() - 1, e);
                    } else {
                        world.push(e);
                    }
                    libs.push(KnownLib { name, id: g2.id, interesting: g2.interesting });
                }
            }
        }
    }
    (world, libs)
}

fn pick_addr(rng: &mut Rng, lib: Option<&KnownLib>) -> u32 {
    match lib {
        Some(l) if !l.interesting.is_empty() && rng.chance(9, 10) => {
            let a = *rng.pick(&l.interesting);
            match rng.below(8) {
                0 => a.wrapping_add(1),
                1 => a.wrapping_sub(1),
                _ => a,
            }
        }
        _ => match rng.below(3) {
            0 => rng.below(0x10000) as u32,
            1 => rng.next_u64() as u32,
            _ => u32::MAX - rng.below(4) as u32,
        },
    }
}

#[derive(Clone, Copy, PartialEq)]
enum Family {
    Valid,
    BadIndex,
    Unrepresentable,
    KeyCollision,
    Excluded,
    ExtHostile,
}

fn gen_case(rng: &mut Rng, family: Family) -> CaseSpec {
    let mut kinds = Vec::new();
    let (world, known) = gen_world(rng, family == Family::Excluded, &mut kinds);
    // the pool of memory-map entries: known libs, plus unknown / malformed-id / wrong-id ones
    let mut pool: Vec<((String, String), Option<KnownLib>)> =
        known.iter().map(|k| ((k.name.clone(), k.id.clone()), Some(k.clone()))).collect();
    for _ in 0..rng.below(4) {
        let base = if !known.is_empty() && rng.chance(2, 3) { Some(rng.pick(&known).clone()) } else { None };
        let entry = match rng.below(4) {
            0 => (("unknown.so".to_string(), rand_breakpad_id(rng)), None), // no candidate
            1 => {
                // a known name with a malformed id (or a well-formed one of an unusual form)
                let name = base.as_ref().map(|b| b.name.clone()).unwrap_or_else(|| "bad.pdb".into());
                let id = if rng.chance(1, 5) { rng.pick(ODD_GOOD_IDS).to_string() } else { rng.pick(BAD_IDS).to_string() };
                ((name, id), base.clone())
            }
            2 => {
                // a known name with another (valid) id: no candidate matches
                let name = base.as_ref().map(|b| b.name.clone()).unwrap_or_else(|| "other.pdb".into());
                ((name, rand_breakpad_id(rng)), base.clone())
            }
            _ => {
                // the same id in lower case / with different age: DebugId parsing decides
                match &base {
                    Some(b) => ((b.name.clone(), respell_id(rng, &b.id)), base.clone()),
                    None => (("".to_string(), rand_breakpad_id(rng)), None),
                }
            }
        };
        pool.push(entry);
    }
    if family == Family::KeyCollision {
        // "x/y" + id  and  "x" + "y/" + id  share the found_modules key "x/y/<id>"
        let id = rand_breakpad_id(rng);
        let (entries, interesting) = gen_syn(rng, false);
        let mut world2 = world.clone();
        world2.push(WorldEntry::Syn { name: "x/y".into(), id: id.clone(), entries });
        let a = (("x/y".to_string(), id.clone()), Some(KnownLib { name: "x/y".into(), id: id.clone(), interesting }));
        let b: ((String, String), Option<KnownLib>) = (("x".to_string(), format!("y/{id}")), None);
        let mut jobs = Vec::new();
        for _ in 0..rng.range(1, 2) {
            let mut mm = vec![a.0.clone(), b.0.clone()];
            if rng.chance(1, 2) {
                mm.reverse();
            }
            let mut st = Vec::new();
            for _ in 0..rng.range(1, 5) {
                let mi = rng.below(2);
                let lib = if mm[mi as usize] == a.0 { a.1.as_ref() } else { None };
                st.push((mi as i128, pick_addr(rng, lib) as i128));
            }
            jobs.push(JobSpec { mm, stacks: vec![st] });
        }
        return CaseSpec::new(world2, true, jobs);
    }
    let wrapped = rng.chance(3, 4);
    let njobs = if wrapped { *rng.pick(&[0u64, 1, 1, 2, 2, 3, 4]) } else { 1 };
    let mut jobs = Vec::new();
    for _ in 0..njobs {
        let nmm = *rng.pick(&[0u64, 1, 1, 2, 2, 3, 4, 6]);
        let mut mm = Vec::new();
        let mut mm_known = Vec::new();
        for _ in 0..nmm {
            let (l, k) = rng.pick(&pool).clone();
            mm.push(l);
            mm_known.push(k);
        }
        let nstacks = *rng.pick(&[0u64, 1, 1, 1, 2, 3, 5]);
        let mut stacks = Vec::new();
        for _ in 0..nstacks {
            let nfr = if mm.is_empty() { 0 } else { *rng.pick(&[0u64, 1, 2, 3, 5, 8, 20]) };
            let mut st: Vec<(i128, i128)> = Vec::new();
            for _ in 0..nfr {
                if !st.is_empty() && rng.chance(1, 6) {
                    // duplicate address
                    let p = *rng.pick(&st);
                    st.push(p);
                    continue;
                }
                let mi = rng.below(mm.len() as u64) as usize;
                st.push((mi as i128, pick_addr(rng, mm_known[mi].as_ref()) as i128));
            }
            stacks.push(st);
        }
        jobs.push(JobSpec { mm, stacks });
    }
    match family {
        Family::BadIndex | Family::Unrepresentable => {
            // inject one offending frame somewhere (first / later job, any stack, any position)
            if jobs.is_empty() {
                jobs.push(JobSpec::default());
            }
            let j = rng.below(jobs.len() as u64) as usize;
            if jobs[j].stacks.is_empty() {
                jobs[j].stacks.push(vec![]);
            }
            let s = rng.below(jobs[j].stacks.len() as u64) as usize;
            let len = jobs[j].mm.len() as i128;
            let frame = if family == Family::BadIndex {
                let far = len + rng.range(2, 100) as i128;
                let mi = *rng.pick(&[len, len + 1, far, u32::MAX as i128, 1 << 31]);
                (mi, rng.below(0x10000) as i128)
            } else {
                match rng.below(4) {
                    0 => (-1, 5),
                    1 => (1i128 << 32, 5),
                    2 => (0, -1),
                    _ => (0, (1i128 << 32) + rng.below(5) as i128),
                }
            };
            let st = &mut jobs[j].stacks[s];
            let pos = rng.below(st.len() as u64 + 1) as usize;
            st.insert(pos, frame);
        }
        _ => {}
    }
    { let w = wrapped || jobs.len() != 1; decorate(rng, CaseSpec::new(world, w, jobs), family) }
}

/// request form `both`, JSON spelling, warm-up request: none of them may change the answer's content
fn decorate(rng: &mut Rng, mut spec: CaseSpec, family: Family) -> CaseSpec {
    if rng.chance(1, 4) {
        spec.spell = rng.range(1, 4) as u8;
    }
    if rng.chance(1, 4) {
        spec.warm = rng.range(1, 3) as u8;
    }
    if spec.wrapped && rng.chance(1, if family == Family::Unrepresentable { 2 } else { 8 }) {
        // a top-level job next to the `jobs` list: ignored, unless the list does not parse
        let top = if !spec.jobs.is_empty() && rng.chance(2, 3) {
            let mut j = rng.pick(&spec.jobs).clone();
            j.stacks.retain(|st| st.iter().all(|&(m, a)| u32_ok(m) && u32_ok(a) && (m as usize) < j.mm.len()));
            j.stacks.truncate(2);
            if rng.chance(1, 6) {
                j.stacks.push(vec![(-1, 0)]); // neither form parses when the list is bad too
            }
            j
        } else {
            JobSpec::default()
        };
        spec.jobs.insert(0, top);
        spec.both = true;
    }
    spec
}

/// fixtures whose debug info lives in external files (.dwo / OSO .o and .a): (debug name, external files,
/// linkage names that occur as NUL-delimited DWARF strings in them)
const EXT_FIXTURES: &[(&str, &[&str])] = &[
    ("main-dwo", &["main.dwo", "file1.dwo", "file2.dwo", "file3.dwo"]),
    ("main-oso", &["main.o", "file1.o", "libfile23.a"]),
];
const EXT_LINKAGE_NAMES: &[&str] = &[
    "_Z11file1_func1i", "_Z11file1_func2i", "_Z11file2_func1i", "_Z11file2_func2i", "_Z11file3_func1i", "_Z11file3_func2i",
];

/// External-pass worlds with hostile values: the external files are served with renamed functions (the
/// outer debug-info name differs from the symbol table's), some of them are missing.
fn gen_ext_case(rng: &mut Rng) -> Option<CaseSpec> {
    let infos = fixture_infos();
    let (name, files) = *rng.pick(EXT_FIXTURES);
    let fi = infos.iter().find(|f| f.name == name)?;
    let mut world = vec![WorldEntry::Fix { name: fi.name.to_string(), rel: fi.rel.to_string() }];
    for f in files {
        match rng.below(5) {
            0 => world.push(WorldEntry::Hide { base: f.to_string() }),
            1..=3 => {
                for ln in EXT_LINKAGE_NAMES {
                    if rng.chance(2, 3) {
                        // `\0_Z11file1_func1i\0` only matches a whole DWARF string (.debug_str.dwo / __debug_str),
                        // not the Mach-O symbol table's `__Z11file1_func1i`
                        let mut from = vec![0u8];
                        from.extend(ln.as_bytes());
                        from.push(0);
                        let mut to = from.clone();
                        let k = to.len() - 3;
                        to[k] = *rng.pick(b"QXz_");
                        if rng.chance(1, 4) {
                            to[1] = b'z'; // no longer a mangled name: reported verbatim
                        }
                        world.push(WorldEntry::Patch { base: f.to_string(), from, to });
                    }
                }
            }
            _ => {}
        }
    }
    let mut st: Vec<(i128, i128)> = Vec::new();
    let pool = if fi.ext_interesting.is_empty() { &fi.interesting } else { &fi.ext_interesting };
    for _ in 0..rng.range(4, 40) {
        let a = *rng.pick(pool);
        st.push((0, a.wrapping_add(rng.below(0x30) as u32) as i128));
    }
    let mut mm = vec![(fi.name.to_string(), fi.id.clone())];
    if rng.chance(1, 3) {
        mm.push(("unknown.so".into(), rand_breakpad_id(rng)));
        st.push((1, 5));
    }
    let stacks = if rng.chance(1, 2) { let k = st.len() / 2; vec![st[..k].to_vec(), st[k..].to_vec()] } else { vec![st] };
    let mut spec = CaseSpec::new(world, true, vec![JobSpec { mm, stacks }]);
    if rng.chance(1, 3) {
        spec.warm = rng.range(1, 3) as u8;
    }
    Some(spec)
}

/// Sizes real requests have and the random generator does not: memory maps of hundreds of entries with high
/// module indices in use, thousands of distinct addresses of one library in one stack, dozens of jobs.
fn size_specs(tier: Tier) -> Vec<(String, CaseSpec)> {
    let mut v = Vec::new();
    let mut rng = Rng::new(0x517E);
    // 300-entry memory map; loadable synthetic maps at 0, 63, 64, 255, 299; (a) only those used, (b) all used
    for variant in 0..2 {
        let mut world = Vec::new();
        let mut mm: Vec<(String, String)> = Vec::new();
        let mut st: Vec<(i128, i128)> = Vec::new();
        for k in 0..300usize {
            if [0, 63, 64, 255, 299].contains(&k) {
                let id = rand_breakpad_id(&mut rng);
                let (entries, interesting) = gen_syn(&mut rng, false);
                let name = format!("big{k}.so");
                world.push(WorldEntry::Syn { name: name.clone(), id: id.clone(), entries });
                mm.push((name, id));
                for a in interesting.iter().take(6) {
                    st.push((k as i128, *a as i128));
                }
            } else {
                mm.push((format!("filler{k}.so"), if k % 7 == 3 { "bad-id".to_string() } else { rand_breakpad_id(&mut rng) }));
                if variant == 1 {
                    st.push((k as i128, (k * 16) as i128));
                }
            }
        }
        st.reverse();
        v.push((format!("f-size-mm300-{variant}"), CaseSpec::new(world, variant == 0, vec![JobSpec { mm, stacks: vec![st] }])));
    }
    // thousands of distinct addresses of one library in one stack (the front-end sends such requests)
    let infos = fixture_infos();
    if let Some(fi) = infos.iter().find(|f| f.name == "firefox").or(infos.first()) {
        let n: u32 = if tier == Tier::Quick { 2600 } else { 5200 };
        let lo = fi.interesting.iter().copied().filter(|a| *a > 0x100 && *a < 0x4000_0000).min().unwrap_or(0x1000);
        let hi = fi.interesting.iter().copied().filter(|a| *a < 0x4000_0000).max().unwrap_or(0x100000).max(lo + n);
        let step = ((hi - lo) / n).max(1);
        let mut st: Vec<(i128, i128)> = (0..n).map(|k| (0, (lo + k * step) as i128)).collect();
        // not sorted, with repetitions
        st.reverse();
        for k in 0..50 {
            let p = st[k * 7];
            st.push(p);
        }
        v.push((
            "f-size-addrs".into(),
            CaseSpec::new(
                vec![WorldEntry::Fix { name: fi.name.to_string(), rel: fi.rel.to_string() }],
                true,
                vec![JobSpec { mm: vec![(fi.name.to_string(), fi.id.clone())], stacks: vec![st] }],
            ),
        ));
    }
    // 40 jobs over three libraries at rotating indices
    {
        let mut world = Vec::new();
        let mut libs = Vec::new();
        for k in 0..3 {
            let id = rand_breakpad_id(&mut rng);
            let (entries, interesting) = gen_syn(&mut rng, false);
            let name = format!("many{k}.so");
            world.push(WorldEntry::Syn { name: name.clone(), id: id.clone(), entries });
            libs.push(((name, id), interesting));
        }
        let mut jobs = Vec::new();
        for j in 0..40usize {
            let mut mm = Vec::new();
            let mut st = Vec::new();
            for k in 0..3usize {
                let (l, interesting) = &libs[(j + k) % 3];
                mm.push(l.clone());
                if (j + k) % 5 != 0 {
                    st.push((k as i128, interesting[(j * 3 + k) % interesting.len()] as i128));
                }
            }
            jobs.push(JobSpec { mm, stacks: if j % 4 == 0 { vec![st.clone(), vec![], st] } else { vec![st] } });
        }
        v.push(("f-size-jobs40".into(), CaseSpec::new(world, true, jobs)));
    }
    v
}

/// One synthetic library requested under every spelling of its id (all must resolve identically), next to
/// every malformed id and every unusual well-formed id.
fn id_specs() -> Vec<(String, CaseSpec)> {
    let mut v = Vec::new();
    let mut rng = Rng::new(0x1D);
    for (k, id) in ["DFB8E43AF2423D73A453AEB6A777EF75a", "0123456789abcdef0123456789ABCDEF1f2", "4C4C4F571"].iter().enumerate() {
        let (entries, interesting) = gen_syn(&mut rng, false);
        let world = vec![WorldEntry::Syn { name: "idlib".into(), id: id.to_string(), entries }];
        let mut spellings: Vec<String> = vec![id.to_string(), id.to_lowercase(), id.to_uppercase()];
        if id.len() >= 33 {
            let (u, a) = id.split_at(32);
            spellings.extend([format!("{u}000{a}"), format!("{u}+{a}"), format!("{u}{a}0"), u.to_string(), format!("{u}-{a}")]);
        } else {
            let (t, a) = id.split_at(8);
            spellings.extend([format!("{t}0{a}"), format!("{t}+{a}"), format!("+{}{a}", &t[1..]), format!("{t}-{a}")]);
        }
        let mm: Vec<(String, String)> = spellings.iter().map(|i| ("idlib".to_string(), i.clone())).collect();
        let st: Vec<(i128, i128)> = (0..mm.len()).map(|m| (m as i128, interesting[2 % interesting.len()] as i128)).collect();
        v.push((format!("f-id-spellings-{k}"), CaseSpec::new(world, true, vec![JobSpec { mm, stacks: vec![st] }])));
    }
    let (entries, interesting) = gen_syn(&mut rng, false);
    let good = "DFB8E43AF2423D73A453AEB6A777EF75a";
    let world = vec![WorldEntry::Syn { name: "idlib".into(), id: good.into(), entries }];
    for (k, id) in BAD_IDS.iter().chain(ODD_GOOD_IDS.iter()).enumerate() {
        let mm = vec![("idlib".to_string(), good.to_string()), ("idlib".to_string(), id.to_string())];
        let st = vec![(1, interesting[2 % interesting.len()] as i128), (0, interesting[2 % interesting.len()] as i128), (1, 0)];
        v.push((format!("f-id-{k}"), CaseSpec::new(world.clone(), k % 2 == 0, vec![JobSpec { mm, stacks: vec![st] }])));
    }
    v
}

/// both request forms in one body; every JSON spelling
fn form_specs(world: &[WorldEntry], lib: &(String, String), addrs: &[u32]) -> Vec<(String, CaseSpec)> {
    let mut v = Vec::new();
    let a = |k: usize| addrs[k % addrs.len()] as i128;
    let top = JobSpec { mm: vec![lib.clone()], stacks: vec![vec![(0, a(1))]] };
    let list = vec![
        JobSpec { mm: vec![("u".into(), "x".into()), lib.clone()], stacks: vec![vec![(1, a(2)), (1, a(3))], vec![]] },
        JobSpec { mm: vec![lib.clone()], stacks: vec![vec![(0, a(4))]] },
    ];
    let mk = |jobs: Vec<JobSpec>, both: bool, wrapped: bool, spell: u8| {
        let mut c = CaseSpec::new(world.to_vec(), wrapped, jobs);
        c.both = both;
        c.spell = spell;
        c
    };
    for spell in 0..=4u8 {
        let mut jobs = vec![top.clone()];
        jobs.extend(list.clone());
        v.push((format!("f-form-both-{spell}"), mk(jobs, true, true, spell)));
        v.push((format!("f-form-jobs-{spell}"), mk(list.clone(), false, true, spell)));
        v.push((format!("f-form-single-{spell}"), mk(vec![top.clone()], false, false, spell)));
        // the list has a number that is not a u32: the top-level job is answered
        let mut bad = list.clone();
        bad[1].stacks[0].push((0, -1));
        let mut jobs = vec![top.clone()];
        jobs.extend(bad.clone());
        v.push((format!("f-form-both-fallthrough-{spell}"), mk(jobs, true, true, spell)));
        // both bad: parse error; list fine but bad index: the error, not the top-level job
        let mut jobs = vec![JobSpec { mm: vec![lib.clone()], stacks: vec![vec![(1i128 << 32, 0)]] }];
        jobs.extend(bad);
        v.push((format!("f-form-both-bad-{spell}"), mk(jobs, true, true, spell)));
        let mut idx = list.clone();
        idx[0].stacks[0].push((2, 0));
        let mut jobs = vec![top.clone()];
        jobs.extend(idx);
        v.push((format!("f-form-both-badindex-{spell}"), mk(jobs, true, true, spell)));
    }
    // `jobs: []` next to a top-level job: zero results
    v.push(("f-form-both-empty-list".into(), mk(vec![top.clone()], true, true, 0)));
    // every warm-up kind
    for warm in 1..=3u8 {
        let mut c = mk(list.clone(), false, true, 0);
        c.warm = warm;
        v.push((format!("f-warm-{warm}"), c));
    }
    v
}

fn fixed_specs(tier: Tier) -> Vec<(String, CaseSpec)> {
    let mut v = Vec::new();
    let mut rng = Rng::new(0xC07);
    // one small generated .sym, every interesting address on its own, both request forms
    let g = gen_sym(&mut rng, "fixed.so");
    let world = vec![WorldEntry::Sym { name: "fixed.so".into(), bytes: g.text.clone().into_bytes().into() }];
    let lib = ("fixed.so".to_string(), g.id.clone());
    let mut addrs: Vec<u32> = g.interesting.clone();
    addrs.sort_unstable();
    addrs.dedup();
    for (k, a) in addrs.iter().enumerate() {
        v.push((
            format!("f-addr-{k}"),
            CaseSpec::new(world.clone(), k % 2 == 0, vec![JobSpec { mm: vec![lib.clone()], stacks: vec![vec![(0, *a as i128)]] }]),
        ));
    }
    // all of them in one stack, reversed, with duplicates
    let mut all: Vec<(i128, i128)> = addrs.iter().rev().map(|a| (0, *a as i128)).collect();
    all.extend(addrs.iter().map(|a| (0, *a as i128)));
    v.push(("f-all".into(), CaseSpec::new(world.clone(), true, vec![JobSpec { mm: vec![lib.clone()], stacks: vec![all] }])));
    // degenerate shapes
    let shapes: Vec<(&str, bool, Vec<JobSpec>)> = vec![
        ("no-jobs", true, vec![]),
        ("empty-job", true, vec![JobSpec::default()]),
        ("empty-job-single", false, vec![JobSpec::default()]),
        ("mm-no-stacks", true, vec![JobSpec { mm: vec![lib.clone()], stacks: vec![] }]),
        ("empty-stacks", true, vec![JobSpec { mm: vec![lib.clone()], stacks: vec![vec![], vec![], vec![]] }]),
        ("empty-mm-empty-stack", false, vec![JobSpec { mm: vec![], stacks: vec![vec![]] }]),
        ("frame-without-mm", true, vec![JobSpec { mm: vec![], stacks: vec![vec![(0, 0)]] }]),
        (
            "shared-lib-different-index",
            true,
            vec![
                JobSpec { mm: vec![lib.clone(), ("u".into(), "x".into())], stacks: vec![vec![(0, addrs[1] as i128)]] },
                JobSpec { mm: vec![("u".into(), "x".into()), lib.clone()], stacks: vec![vec![(1, addrs[2] as i128), (0, 1)]] },
                JobSpec { mm: vec![lib.clone(), lib.clone()], stacks: vec![vec![(1, addrs[3 % addrs.len()] as i128), (0, addrs[1] as i128)]] },
            ],
        ),
        (
            "unused-in-this-job-used-in-other",
            true,
            vec![
                JobSpec { mm: vec![lib.clone(), ("only-here".into(), g.id.clone())], stacks: vec![vec![(1, 4)]] },
                JobSpec { mm: vec![("only-here".into(), g.id.clone()), lib.clone()], stacks: vec![vec![(1, addrs[1] as i128)]] },
            ],
        ),
    ];
    for (n, wrapped, jobs) in shapes {
        v.push((format!("f-{n}"), CaseSpec::new(world.clone(), wrapped, jobs)));
    }
    // out-of-range module index at every position of a small request
    let base = vec![
        JobSpec { mm: vec![lib.clone()], stacks: vec![vec![(0, addrs[1] as i128), (0, addrs[2] as i128)], vec![(0, 1)]] },
        JobSpec { mm: vec![lib.clone(), lib.clone()], stacks: vec![vec![(1, 2)], vec![]] },
    ];
    let mut k = 0;
    for j in 0..base.len() {
        for s in 0..base[j].stacks.len() {
            for pos in 0..=base[j].stacks[s].len() {
                for bad in [base[j].mm.len() as i128, u32::MAX as i128, -1, 1i128 << 32] {
                    let mut jobs = base.clone();
                    jobs[j].stacks[s].insert(pos, (bad, 3));
                    v.push((format!("f-badidx-{k}"), CaseSpec::new(world.clone(), true, jobs)));
                    k += 1;
                }
            }
        }
    }
    v.extend(form_specs(&world, &lib, &addrs));
    v.extend(id_specs());
    v.extend(size_specs(tier));
    {
        let mut rng = Rng::new(0xE87);
        for i in 0..(if tier == Tier::Quick { 40 } else { 400 }) {
            if let Some(c) = gen_ext_case(&mut rng) {
                v.push((format!("f-ext-{i}"), c));
            }
        }
    }
    // seeded instances of the special families
    let n = if tier == Tier::Quick { 10 } else { 60 };
    for i in 0..n {
        v.push((format!("f-collision-{i}"), gen_case(&mut rng, Family::KeyCollision)));
        v.push((format!("f-excluded-{i}"), gen_case(&mut rng, Family::Excluded)));
    }
    // every fixture: a stack over a sample of its interesting addresses
    for fi in fixture_infos() {
        let step = (fi.interesting.len() / if tier == Tier::Quick { 60 } else { 600 }).max(1);
        let st: Vec<(i128, i128)> = fi.interesting.iter().step_by(step).map(|a| (0, *a as i128)).collect();
        v.push((
            format!("f-fixture-{}", fi.name),
            CaseSpec::new(
                vec![WorldEntry::Fix { name: fi.name.to_string(), rel: fi.rel.to_string() }],
                true,
                vec![JobSpec { mm: vec![(fi.name.to_string(), fi.id.clone())], stacks: vec![st] }],
            ),
        ));
    }
    v
}

// ---------------------------------------------------------------------------------------------

pub struct C07;

impl Prop for C07 {
    fn id(&self) -> &'static str {
        "C07"
    }
    fn case_count(&self, tier: Tier) -> u64 {
        match tier {
            Tier::Quick => 4000,
            Tier::Thorough => 50000,
        }
    }
    fn fixed_cases(&self, tier: Tier) -> Vec<Case> {
        fixed_specs(tier).into_iter().map(|(name, spec)| Case { name, ops: case_ops(&spec) }).collect()
    }
    fn generate(&self, rng: &mut Rng, _tier: Tier, _index: u64) -> Vec<String> {
        let family = match rng.below(20) {
            0..=2 => Family::BadIndex,
            3 => Family::Unrepresentable,
            4 => Family::KeyCollision,
            5 => Family::Excluded,
            6 => Family::ExtHostile,
            _ => Family::Valid,
        };
        if family == Family::ExtHostile {
            if let Some(c) = gen_ext_case(rng) {
                return case_ops(&c);
            }
        }
        case_ops(&gen_case(rng, family))
    }
    fn execute(&self, ops: &[String], stats: &mut Stats) -> Vec<String> {
        let p = parse_ops(ops);
        if p.bad {
            stats.bump("bad_ops");
            return vec!["bad-op".into()];
        }
        let form = p.wrapped.unwrap();
        stats.bump(match form { Form::Jobs => "form_jobs", Form::Single => "form_single", Form::Both => "form_both" });
        stats.bump(&format!("spell_{}", p.spell));
        stats.bump(&format!("warm_{}", p.warm));
        for j in &p.jobs {
            for (_, id) in &j.mm {
                stats.bump(&format!("mm_id_len_{}", match id.len() { 0..=8 => "0-8", 9..=16 => "9-16", 17..=31 => "17-31", 32 => "32", 33 => "33", 34..=40 => "34-40", _ => "41+" }));
            }
            stats.bump(&format!("mm_len_{}", match j.mm.len() { 0..=6 => "0-6", 7..=63 => "7-63", 64..=255 => "64-255", _ => "256+" }));
        }
        stats.add("jobs", p.jobs.len() as u64);
        for e in &p.world {
            stats.bump(match e {
                WorldEntry::Sym { .. } => "world_sym",
                WorldEntry::Fix { .. } => "world_fixture",
                WorldEntry::Syn { .. } => "world_syn",
                WorldEntry::Patch { .. } => "world_patch",
                WorldEntry::Hide { .. } => "world_hide",
            });
        }
        for j in &p.jobs {
            stats.add("memory_map_entries", j.mm.len() as u64);
            stats.add("stacks", j.stacks.len() as u64);
            for st in &j.stacks {
                if st.is_empty() {
                    stats.bump("empty_stacks");
                }
                stats.add("request_frames", st.len() as u64);
            }
        }
        // is the oracle of the ops complete for this request? (it is unless the shrinker removed lines)
        let eff = effective_jobs(form, &p.jobs);
        if form == Form::Both {
            stats.bump(match &eff { None => "both_parse_error", Some(e) if p.jobs.len() > 1 && e.len() == p.jobs.len() - 1 => "both_jobs_win", Some(_) => "both_fallthrough_or_empty" });
        }
        let pairs = eff.as_ref().and_then(|js| requested_pairs(js));
        match &pairs {
            None => stats.bump("request_with_bad_index_or_number"),
            Some(pairs) => {
                // keyed like the model's tables: debug name + `DebugId` (two spellings of one id share their
                // lines); a malformed id needs no lines (the model decides it by itself)
                let okey = |k: &(String, String)| -> Option<(String, String)> {
                    match DebugId::from_breakpad(&k.1) {
                        Ok(d) if !d.is_nil() => Some((k.0.clone(), d.breakpad().to_string())),
                        _ => None,
                    }
                };
                let libs: HashMap<(String, String), bool> =
                    p.oracle_libs.iter().filter_map(|(k, l)| okey(k).map(|k| (k, l.ends_with(" ok")))).collect();
                let addrs: BTreeSet<((String, String), u32)> = p.oracle_addrs.iter().filter_map(|(k, a, _)| okey(k).map(|k| (k, *a))).collect();
                for (lib, aa) in pairs {
                    let Some(lib) = okey(lib) else { continue };
                    match libs.get(&lib) {
                        None => return vec!["incomplete-oracle".into()],
                        Some(false) => {}
                        Some(true) => {
                            if aa.iter().any(|a| !addrs.contains(&(lib.clone(), *a))) {
                                return vec!["incomplete-oracle".into()];
                            }
                        }
                    }
                }
                if pairs.len() >= 2 {
                    stats.bump("requests_with_2plus_libs");
                }
                stats.bump(&format!("max_addrs_per_lib_{}", match pairs.iter().map(|(_, a)| a.len()).max().unwrap_or(0) { 0..=127 => "0-127", 128..=1023 => "128-1023", 1024..=4095 => "1024-4095", _ => "4096+" }));
                let mut per_job_libs: Vec<BTreeSet<&(String, String)>> = Vec::new();
                for j in eff.as_ref().unwrap() {
                    per_job_libs.push(j.stacks.iter().flatten().filter_map(|(m, _)| j.mm.get(*m as usize)).collect());
                }
                let shared = per_job_libs.iter().enumerate().any(|(i, a)| per_job_libs.iter().skip(i + 1).any(|b| a.intersection(b).next().is_some()));
                if shared {
                    stats.bump("requests_with_lib_shared_between_jobs");
                }
            }
        }
        // the implementation
        let body = request_json(form, p.spell, &p.jobs);
        // the request sent first on the same symbol manager and Api (its answer is not looked at: the
        // answer to the real request must not depend on what was asked before)
        let warm_body: Option<String> = match p.warm {
            0 => None,
            1 => {
                // the even-position frames of every stack
                let jobs: Vec<JobSpec> = p
                    .jobs
                    .iter()
                    .map(|j| JobSpec { mm: j.mm.clone(), stacks: j.stacks.iter().map(|st| st.iter().step_by(2).copied().collect()).collect() })
                    .collect();
                Some(request_json(form, 0, &jobs))
            }
            2 => Some(body.clone()),
            _ => {
                // the same libraries at neighbouring addresses, memory maps reversed
                let jobs: Vec<JobSpec> = p
                    .jobs
                    .iter()
                    .map(|j| {
                        let n = j.mm.len() as i128;
                        JobSpec {
                            mm: j.mm.iter().rev().cloned().collect(),
                            stacks: j
                                .stacks
                                .iter()
                                .map(|st| st.iter().map(|&(m, a)| (if (0..n).contains(&m) { n - 1 - m } else { m }, if a >= 0 && a < u32::MAX as i128 { a + 1 } else { a })).collect())
                                .collect(),
                        }
                    })
                    .collect();
                Some(request_json(form, 0, &jobs))
            }
        };
        let world = p.world.clone();
        let r = catch_unwind(AssertUnwindSafe(|| {
            let sm = SymbolManager::with_helper(Helper { world });
            // `Api` is a borrowed view of the symbol manager (consumed by `query_api`); all state lives in `sm`
            if let Some(w) = &warm_body {
                // (it may touch an excluded point of a synthetic map that the real request avoids: its own
                // panic is not the case's outcome)
                let _ = catch_unwind(AssertUnwindSafe(|| block_on(Api::new(&sm).query_api("/symbolicate/v5", w))));
            }
            block_on(Api::new(&sm).query_api("/symbolicate/v5", &body))
        }));
        let mut out = match r {
            Ok(text) => canon_response(&text, stats),
            Err(_) => {
                stats.bump("impl_panics");
                vec!["panic".into()]
            }
        };
        // the oracle lines of the ops must be what the direct lookups return now
        if !p.oracle_libs.is_empty() {
            let mut order: Vec<((String, String), Vec<u32>)> = Vec::new();
            for (k, _) in &p.oracle_libs {
                if !order.iter().any(|(l, _)| l == k) {
                    order.push((k.clone(), vec![]));
                }
            }
            for (k, a, _) in &p.oracle_addrs {
                if let Some(e) = order.iter_mut().find(|(l, _)| l == k) {
                    e.1.push(*a);
                }
            }
            let fresh: BTreeSet<String> = oracle_lines(&p.world, &order, Some(stats)).iter().map(|l| norm_kind(l)).collect();
            let stale = p
                .oracle_libs
                .iter()
                .map(|(_, l)| l)
                .chain(p.oracle_addrs.iter().filter(|(k, _, _)| order.iter().any(|(l, _)| l == k)).map(|(_, _, l)| l))
                .any(|l| {
                    // address lines of a library that fails to load are never produced; ignore leftovers
                    !fresh.contains(&norm_kind(l)) && !(l.starts_with("addr ") && lib_failed(&fresh, l))
                });
            if stale {
                stats.bump("stale_oracle");
                out.push("stale-oracle".into());
            }
        }
        out
    }
    fn nontrivial(&self, ops: &[String], out: &[String]) -> bool {
        let frames = ops.iter().filter(|l| l.starts_with("stack ")).map(|l| l.split_whitespace().count() - 1).sum::<usize>();
        (frames >= 2 && out.iter().any(|l| l.contains(" sym "))) || out.iter().any(|l| l.starts_with("error ") || l == "panic")
    }
}

/// `ext` and `avail` (resp. `extnone` and `none`) differ only in *when* the frames were found, which
/// depends on what the symbol map has cached; the staleness comparison ignores it
fn norm_kind(l: &str) -> String {
    let mut w: Vec<&str> = l.split_whitespace().collect();
    if w.len() > 8 && w[0] == "addr" && w[4] == "sym" {
        match w[8] {
            "ext" => w[8] = "avail",
            "extnone" => w[8] = "none",
            _ => {}
        }
    }
    w.join(" ")
}

fn lib_failed(fresh: &BTreeSet<String>, addr_line: &str) -> bool {
    let w: Vec<&str> = addr_line.split_whitespace().collect();
    w.len() > 2 && fresh.iter().any(|l| l.starts_with(&format!("lib {} {} err", w[1], w[2])))
}

fn main() {
    if std::env::var("C07_PROBE").is_ok() {
        for fi in fixture_infos() {
            println!("{} {} {} addrs={}", fi.name, fi.rel, fi.id, fi.interesting.len());
        }
        let mut rng = Rng::new(1);
        let g = gen_sym(&mut rng, "x.so");
        println!("{}", g.text);
        let spec = gen_case(&mut rng, Family::Valid);
        for l in case_ops(&spec) {
            println!("{}", if l.len() > 300 { &l[..300] } else { &l });
        }
        return;
    }
    verif_harness::runner::run_main(&C07);
}
